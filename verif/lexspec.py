"""Reference lexical languages, transcribed from the OData 4.01 ABNF (odata-abnf-construction-rules.txt).

Written from the specification, *independently of /repo*: nothing here is derived from the library's
patterns.  Each reference is a Python regular expression in the fragment the circuit compiles (literals,
explicit ASCII classes, groups, `|`, `? * + {m,n}`), compiled with re.I | re.A because ABNF string literals
are case-insensitive (RFC 5234, 2.3) and the ABNF terminals are ASCII.

Where the property statements of this task are wider or narrower than the ABNF this is said next to the
rule ("statement:").  The ABNF rules are quoted in the comments.
"""
from __future__ import annotations

import re
from typing import Dict, List, Optional, Tuple

FLAGS = re.I | re.A

# ---------------------------------------------------------------------------------------------------
# core rules
#   DIGIT = %x30-39 ; oneToNine = "1" / ... / "9" ; HEXDIG = DIGIT / A-to-F ; SIGN = "+" / "%2B" / "-"
#   (the library receives percent-decoded text, so "%2B" is "+")
DIGIT = "[0-9]"
ONE9 = "[1-9]"
SIGN = "[+-]"
HEXDIG = "[0-9A-F]"

#   year  = [ "-" ] ( "0" 3DIGIT / oneToNine 3*DIGIT )
#   month = "0" oneToNine / "1" ( "0" / "1" / "2" )
#   day   = "0" oneToNine / ( "1" / "2" ) DIGIT / "3" ( "0" / "1" )
#   hour  = ( "0" / "1" ) DIGIT / "2" ( "0" / "1" / "2" / "3" )
#   minute = zeroToFiftyNine ; second = zeroToFiftyNine ; fractionalSeconds = 1*12DIGIT
# statement ("the Python value of a literal equals its calendar meaning"): only years 0001..9999 have a
# Python value; negative years, year 0000 and years with more than four digits are outside.
YEAR = "(?:000[1-9]|00[1-9][0-9]|0[1-9][0-9]{2}|[1-9][0-9]{3})"
YEAR_1000 = "[1-9][0-9]{3}"          # the sub-range 1000..9999 (separate obligation family)
MONTH = "(?:0[1-9]|1[0-2])"
DAY = "(?:0[1-9]|[12][0-9]|3[01])"
HOUR = "(?:[01][0-9]|2[0-3])"
MINUTE = "[0-5][0-9]"
SECOND = "[0-5][0-9]"
FRACTION = "[0-9]{1,12}"

#   dateValue = year "-" month "-" day
DATE = f"{YEAR}-{MONTH}-{DAY}"
DATE_1000 = f"{YEAR_1000}-{MONTH}-{DAY}"
#   timeOfDayValue = hour ":" minute [ ":" second [ "." fractionalSeconds ] ]
# statement: "time of day (hh:mm:ss[.f])" - seconds are mandatory for a stand-alone time of day.
TIME = f"{HOUR}:{MINUTE}:{SECOND}(?:\\.{FRACTION})?"
TIME_ABNF = f"{HOUR}:{MINUTE}(?::{SECOND}(?:\\.{FRACTION})?)?"
#   dateTimeOffsetValue = year "-" month "-" day "T" timeOfDayValue ( "Z" / SIGN hour ":" minute )
# statement: "date-time with optional seconds, fraction and offset" - the offset is optional too.
OFFSET = f"(?:Z|{SIGN}{HOUR}:{MINUTE})"
DT_SECONDS = {"none": "", "ss": f":{SECOND}", "ss.f": f":{SECOND}\\.{FRACTION}"}
DT_OFFSETS = {"none": "", "Z": "Z", "hh:mm": f"{SIGN}{HOUR}:{MINUTE}"}


def datetime_shape(seconds: str, offset: str, year: str = YEAR) -> str:
    return f"{year}-{MONTH}-{DAY}T{HOUR}:{MINUTE}{DT_SECONDS[seconds]}{DT_OFFSETS[offset]}"


DATETIME = f"{DATE}T{TIME_ABNF}{OFFSET}?"

#   int64Value = [ SIGN ] 1*19DIGIT  (sbyte/byte/int16/int32 are shorter forms of the same shape)
INTEGER = f"{SIGN}?[0-9]{{1,19}}"
#   decimalValue = [ SIGN ] 1*DIGIT [ "." 1*DIGIT ] [ "e" [ SIGN ] 1*DIGIT ] / nanInfinity
# minus the pure-integer spelling (that is an integer literal); nanInfinity (NaN / INF / -INF) is not part of
# "decimal/exponent number" of the statement and is outside.
DECIMAL = f"{SIGN}?[0-9]+(?:\\.[0-9]+(?:e{SIGN}?[0-9]+)?|e{SIGN}?[0-9]+)"
DOUBLE = f"{SIGN}?[0-9]+(?:\\.[0-9]+)?(?:e{SIGN}?[0-9]+)?"
#   booleanValue = "true" / "false" ; nullValue = 'null'
BOOLEAN = "true|false"
NULL = "null"
#   string = SQUOTE *( SQUOTE-in-string / pchar-no-SQUOTE ) SQUOTE ; SQUOTE-in-string = SQUOTE SQUOTE
# (after percent-decoding pchar-no-SQUOTE is any character but the quote)
STRING = "'(?:[^']|'')*'"
#   guidValue = 8HEXDIG "-" 4HEXDIG "-" 4HEXDIG "-" 4HEXDIG "-" 12HEXDIG
GUID = f"{HEXDIG}{{8}}-{HEXDIG}{{4}}-{HEXDIG}{{4}}-{HEXDIG}{{4}}-{HEXDIG}{{12}}"

#   duration      = [ "duration" ] SQUOTE durationValue SQUOTE
#   durationValue = [ SIGN ] "P" [ 1*DIGIT "D" ] [ "T" [ 1*DIGIT "H" ] [ 1*DIGIT "M" ] [ 1*DIGIT [ "." 1*DIGIT ] "S" ] ]
#   ; "the above is an approximation of the rules for an xml dayTimeDuration" (XML Schema 1.1 part 2, 3.3.6.2:
#   ; at least one component; "T" must be followed by a time component)
# statement: "duration (sign, years, months, days, hours, minutes, fractional seconds)" - years and months are
# included (xs:duration).  A literal without the "duration" prefix is lexically a string and is outside.
def _dur(num: str) -> Tuple[str, str]:
    secs = f"{num}(?:\\.{num})?S"
    dd = f"(?:{num}Y(?:{num}M)?(?:{num}D)?|{num}M(?:{num}D)?|{num}D)"
    dt = f"T(?:{num}H(?:{num}M)?(?:{secs})?|{num}M(?:{secs})?|{secs})"
    return dd, dt


# bound of the "accept" direction: every component has at most `digits` digits, so that every optional-part
# combination fits into N = 44 (3 digits: 41 characters)
DUR_SHAPE_NAMES = ("date", "time", "date+time")


def duration_shape(shape: str, digits: int = 3) -> str:
    dd, dt = _dur("[0-9]{1,%d}" % digits)
    body = {"date": dd, "time": dt, "date+time": dd + dt}[shape]
    return f"duration'{SIGN}?P{body}'"


_UD, _UT = _dur("[0-9]+")
# the complete language (components of any length): used for the converse ("over-accept") direction
DURATION = f"duration'{SIGN}?P(?:{_UD}(?:{_UT})?|{_UT})'"
# the ABNF's own (looser) approximation, only used to label over-accepted spellings
DURATION_ABNF = ("duration'[+-]?P(?:[0-9]+Y)?(?:[0-9]+M)?(?:[0-9]+D)?"
                 "(?:T(?:[0-9]+H)?(?:[0-9]+M)?(?:[0-9]+(?:\\.[0-9]+)?S)?)?'")

#   geographyPrefix = "geography" ; sridLiteral = "SRID" EQ 1*5DIGIT SEMI
#   positionLiteral = doubleValue SP doubleValue [ SP doubleValue ] [ SP doubleValue ]
#   pointData = OPEN positionLiteral CLOSE ; pointLiteral = "Point" pointData
#   lineStringData = OPEN positionLiteral 1*( COMMA positionLiteral ) CLOSE ; lineStringLiteral = "LineString" lineStringData
#   ringLiteral = OPEN positionLiteral *( COMMA positionLiteral ) CLOSE
#   polygonData = OPEN ringLiteral *( COMMA ringLiteral ) CLOSE ; polygonLiteral = "Polygon" polygonData
#   multiPointLiteral = "MultiPoint(" [ pointData *( COMMA pointData ) ] CLOSE
#   multiLineStringLiteral = "MultiLineString(" [ lineStringData *( COMMA lineStringData ) ] CLOSE
#   multiPolygonLiteral = "MultiPolygon(" [ polygonData *( COMMA polygonData ) ] CLOSE
#   collectionLiteral = "Collection(" geoLiteral *( COMMA geoLiteral ) CLOSE   (nesting depth 1 here)
_DBL = f"(?:{DOUBLE}|NaN|-?INF)"
_POS = f"{_DBL} {_DBL}(?: {_DBL})?(?: {_DBL})?"
_POINTDATA = f"\\({_POS}\\)"
_LINEDATA = f"\\({_POS}(?:,{_POS})+\\)"
_RING = f"\\({_POS}(?:,{_POS})*\\)"
_POLYDATA = f"\\({_RING}(?:,{_RING})*\\)"
GEO_LITERALS = {
    "Point": f"Point{_POINTDATA}",
    "LineString": f"LineString{_LINEDATA}",
    "Polygon": f"Polygon{_POLYDATA}",
    "MultiPoint": f"MultiPoint\\((?:{_POINTDATA}(?:,{_POINTDATA})*)?\\)",
    "MultiLineString": f"MultiLineString\\((?:{_LINEDATA}(?:,{_LINEDATA})*)?\\)",
    "MultiPolygon": f"MultiPolygon\\((?:{_POLYDATA}(?:,{_POLYDATA})*)?\\)",
}
_GEO_ANY = "(?:" + "|".join(GEO_LITERALS.values()) + ")"
GEO_LITERALS["Collection"] = f"Collection\\({_GEO_ANY}(?:,{_GEO_ANY})*\\)"
SRID = "SRID=[0-9]{1,5};"


def geography_shape(shape: str) -> str:
    return f"geography'{SRID}{GEO_LITERALS[shape]}'"


GEOGRAPHY = "geography'" + SRID + "(?:" + "|".join(GEO_LITERALS.values()) + ")'"

#   odataIdentifier = identifierLeadingCharacter *127identifierCharacter
#   identifierLeadingCharacter = ALPHA / "_"        ; plus Unicode characters from the categories L or Nl
#   identifierCharacter = ALPHA / "_" / DIGIT       ; plus Unicode categories L, Nl, Nd, Mn, Mc, Pc or Cf
#   namespace = namespacePart *( "." namespacePart ) ; namespacePart = odataIdentifier
#   qualified names: namespace "." name
# statement: "identifiers over letters, digits, underscores and dots" - the ASCII part of the rule.
ID_PART = "[A-Z_][A-Z0-9_]{0,127}"
IDENTIFIER_PLAIN = ID_PART
IDENTIFIER_DOTTED = f"{ID_PART}(?:\\.{ID_PART})+"
IDENTIFIER = f"{ID_PART}(?:\\.{ID_PART})*"


def identifier_capped(k: int = 127) -> str:
    """A (possibly qualified) name with at most 1 + k identifier characters *not counting the dots*.  The ABNF limits every
    part to 128 characters and has no overall limit; 128 identifier characters in total is the limit this library documents
    for a whole qualified name, used as the reference for the counted-repeat structure of the identifier rule."""
    return "[A-Z_](?:\\.?[A-Z0-9_]){0,%d}" % k


# Words that are not field references when they are the whole identifier: the literals true / false / null, the
# lambda operators any / all, and the prefix operator not.
RESERVED_WORDS = ("true", "false", "null", "any", "all", "not")
RESERVED = "|".join(RESERVED_WORDS)

#   RWS = 1*( SP / HTAB / "%20" / "%09" ) ; BWS = *( SP / HTAB / "%20" / "%09" )
# Characters that may legally follow a complete primitive literal inside a filter expression: RWS (before an
# operator), CLOSE, COMMA (after BWS or directly), or the end of the expression.  CR / LF are added because the
# task's whitespace property (C19) counts newlines as layout.
WS_CHARS = " \t"
LAYOUT_CHARS = " \t\n\r"


def layout_chars(alphabet_chars) -> str:
    """Every white-space character of the working alphabet (Unicode White_Space as known to str.isspace)."""
    return "".join(ch for ch in alphabet_chars if ch.isspace())

DELIM_LITERAL = LAYOUT_CHARS + "),"
# an identifier may additionally be followed by "/" (path), "(" (call), ":" (lambda variable), "=" (named parameter)
DELIM_IDENT = DELIM_LITERAL + "/(:="

# operator keywords of commonExpr that this library supports (`has`, `divby` are not in its token set: outside)
BINARY_OPERATORS: Dict[str, str] = {
    "add": "ADD", "sub": "SUB", "mul": "MUL", "div": "DIV", "mod": "MOD", "and": "AND", "or": "OR",
    "eq": "EQ", "ne": "NE", "lt": "LT", "le": "LE", "gt": "GT", "ge": "GE", "in": "IN",
}
PREFIX_OPERATORS: Dict[str, str] = {"not": "NOT"}

# ---------------------------------------------------------------------------------------------------
# kind table: token type -> (reference language of the complete lexeme, delimiters, bound class)
# bound classes: "str" (N = 16), "num" (N = 20), "long" (N = 44)
KINDS: Dict[str, dict] = {
    "INTEGER": {"ref": INTEGER, "delims": DELIM_LITERAL, "bound": "num"},
    "DECIMAL": {"ref": DECIMAL, "delims": DELIM_LITERAL, "bound": "num"},
    "BOOLEAN": {"ref": BOOLEAN, "delims": DELIM_LITERAL, "bound": "str"},
    "NULL": {"ref": NULL, "delims": DELIM_LITERAL, "bound": "str"},
    "STRING": {"ref": STRING, "delims": DELIM_LITERAL, "bound": "str"},
    "GUID": {"ref": GUID, "delims": DELIM_LITERAL, "bound": "long"},
    "DATE": {"ref": DATE, "delims": DELIM_LITERAL, "bound": "long"},
    "TIME": {"ref": TIME, "delims": DELIM_LITERAL, "bound": "long"},
    "DATETIME": {"ref": DATETIME, "delims": DELIM_LITERAL, "bound": "long"},
    "DURATION": {"ref": DURATION, "delims": DELIM_LITERAL, "bound": "long"},
    "GEOGRAPHY": {"ref": GEOGRAPHY, "delims": DELIM_LITERAL, "bound": "long"},
    "ODATA_IDENTIFIER": {"ref": IDENTIFIER, "delims": DELIM_IDENT, "bound": "str"},
}
BOUNDS = {"str": 16, "num": 20, "long": 44}


def fullmatch(pattern: str, s: str) -> bool:
    """Membership through the real `re` engine (used to cross-check the reference NFAs on every witness)."""
    return re.fullmatch(pattern, s, FLAGS) is not None


def accept_shapes(dur_digits: int = 3) -> List[Tuple[str, str, str, str, str]]:
    """(obligation suffix, token type, reference pattern, delimiters, bound class) of the 'accept' family."""
    out: List[Tuple[str, str, str, str, str]] = []
    out.append(("INTEGER", "INTEGER", INTEGER, DELIM_LITERAL, "num"))
    out.append(("DECIMAL", "DECIMAL", DECIMAL, DELIM_LITERAL, "num"))
    out.append(("BOOLEAN", "BOOLEAN", BOOLEAN, DELIM_LITERAL, "str"))
    out.append(("NULL", "NULL", NULL, DELIM_LITERAL, "str"))
    out.append(("STRING", "STRING", STRING, DELIM_LITERAL, "str"))
    out.append(("GUID", "GUID", GUID, DELIM_LITERAL, "long"))
    out.append(("DATE", "DATE", DATE, DELIM_LITERAL, "long"))
    out.append(("TIME", "TIME", TIME, DELIM_LITERAL, "long"))
    for sec in DT_SECONDS:
        for off in DT_OFFSETS:
            out.append((f"DATETIME[sec={sec},off={off}]", "DATETIME", datetime_shape(sec, off), DELIM_LITERAL, "long"))
    for sh in DUR_SHAPE_NAMES:
        out.append((f"DURATION[{sh},<={dur_digits}digits]", "DURATION", duration_shape(sh, dur_digits), DELIM_LITERAL, "long"))
    for sh in GEO_LITERALS:
        out.append((f"GEOGRAPHY[{sh}]", "GEOGRAPHY", geography_shape(sh), DELIM_LITERAL, "long"))
    out.append(("IDENTIFIER[plain]", "ODATA_IDENTIFIER", IDENTIFIER_PLAIN, DELIM_IDENT, "str"))
    out.append(("IDENTIFIER[dotted]", "ODATA_IDENTIFIER", IDENTIFIER_DOTTED, DELIM_IDENT, "str"))
    return out
