"""Engine B: run generated PEP316 harnesses over the real code under CrossHair (z3 inside).

A harness is an ordinary Python function `h(args...) -> bool` with a docstring
    pre: <bounds on the symbolic arguments>
    post: _
so that "Confirmed over all paths" means: for every argument value inside the bound the harness
returned True (i.e. the property's assertion held), decided by CrossHair's path exploration with z3.
A counterexample is re-executed *concretely* (outside CrossHair) by calling the very same harness
function with the reported arguments; only a reproduced failure counts.
"""
from __future__ import annotations

import importlib.util
import multiprocessing as mp
import os
import re
import shutil
import sys
import tempfile
import time
import traceback
from dataclasses import dataclass, field
from typing import Any, Dict, List, Optional, Sequence, Tuple

CONFIRMED = "CONFIRMED"
POST_FAIL = "POST_FAIL"
EXEC_ERR = "EXEC_ERR"


@dataclass
class CxResult:
    name: str
    state: str                     # CONFIRMED | POST_FAIL | EXEC_ERR | CANNOT_CONFIRM | PRE_UNSAT | TIMEOUT | ...
    message: str = ""
    args: Optional[tuple] = None   # parsed counterexample arguments (positional)
    kwargs: Optional[dict] = None
    seconds: float = 0.0
    reproduced: Optional[bool] = None   # set by replay()
    replay_outcome: str = ""
    reach: Optional[str] = None    # state of the reachability twin, if requested


_CALL_RE = re.compile(r"when calling (\w+)\(")


def parse_call(message: str, fname: str) -> Optional[Tuple[tuple, dict]]:
    """Extract the argument values from CrossHair's 'when calling f(...)' text."""
    m = _CALL_RE.search(message)
    if not m:
        return None
    start = m.start(1)
    text = message[start:]
    cap = lambda *a, **k: (a, k)  # noqa: E731
    env = {m.group(1): cap, "__builtins__": {"float": float, "True": True, "False": False, "None": None,
                                              "frozenset": frozenset, "set": set, "dict": dict}}
    # the call ends at one of the ')' characters; try each in turn
    for i, ch in enumerate(text):
        if ch == ")":
            try:
                return eval(text[: i + 1], env)  # noqa: S307 - our own harness reprs
            except Exception:
                continue
    return None


def _load(path: str, modname: str):
    spec = importlib.util.spec_from_file_location(modname, path)
    mod = importlib.util.module_from_spec(spec)
    sys.modules[modname] = mod
    spec.loader.exec_module(mod)
    return mod


def _analyze(mod, fname: str, per_condition_timeout: float, per_path_timeout: Optional[float]) -> Tuple[str, str]:
    from crosshair.core_and_libs import analyze_function, run_checkables
    from crosshair.options import AnalysisKind, AnalysisOptionSet

    kw: Dict[str, Any] = dict(per_condition_timeout=per_condition_timeout,
                              analysis_kind=[AnalysisKind.PEP316], report_all=True)
    if per_path_timeout:
        kw["per_path_timeout"] = per_path_timeout
    opts = AnalysisOptionSet(**kw)
    fn = getattr(mod, fname)
    msgs = list(run_checkables(analyze_function(fn, opts)))
    if not msgs:
        return "NO_CONDITIONS", ""
    # one post-condition per harness; if several messages, the worst wins
    order = ["EXEC_ERR", "POST_FAIL", "POST_ERR", "PRE_UNSAT", "CANNOT_CONFIRM", "SYNTAX_ERR", "IMPORT_ERR", "CONFIRMED"]
    msgs.sort(key=lambda m: order.index(m.state.name) if m.state.name in order else 0)
    return msgs[0].state.name, msgs[0].message or ""


def _child(conn, mod, fname, pct, ppt):
    try:
        sys.setrecursionlimit(10000)
        t = time.time()
        state, msg = _analyze(mod, fname, pct, ppt)
        conn.send((state, msg, time.time() - t))
    except BaseException as e:  # noqa: BLE001 - report anything to the parent
        conn.send(("RUNNER_ERR", "".join(traceback.format_exception_only(type(e), e)), 0.0))
    finally:
        conn.close()


class HarnessModule:
    """A generated harness module living in a scratch directory outside /repo and /verif."""

    def __init__(self, source: str, name: str = "vharness", extra_files: Optional[Dict[str, str]] = None):
        self.dir = tempfile.mkdtemp(prefix="verif_chx_")
        self.path = os.path.join(self.dir, name + ".py")
        with open(self.path, "w") as f:
            f.write(source)
        for fn, src in (extra_files or {}).items():
            p = os.path.join(self.dir, fn)
            os.makedirs(os.path.dirname(p), exist_ok=True)
            with open(p, "w") as f:
                f.write(src)
        if self.dir not in sys.path:
            sys.path.insert(0, self.dir)
        self.name = name + "_" + os.path.basename(self.dir)
        self.mod = _load(self.path, self.name)

    def close(self):
        shutil.rmtree(self.dir, ignore_errors=True)
        sys.modules.pop(self.name, None)
        if self.dir in sys.path:
            sys.path.remove(self.dir)

    def __enter__(self):
        return self

    def __exit__(self, *a):
        self.close()

    # ------------------------------------------------------------------
    def run(self, fnames: Sequence[str], per_condition_timeout: float = 30.0,
            per_path_timeout: Optional[float] = None, workers: Optional[int] = None,
            hard_factor: float = 2.0, progress: bool = False) -> Dict[str, CxResult]:
        """Analyse each harness in its own forked process, `workers` at a time."""
        workers = workers or int(os.environ.get("VERIF_WORKERS", "0")) or min(16, os.cpu_count() or 4)
        ctx = mp.get_context("fork")
        pending = list(fnames)
        running: Dict[str, Tuple[Any, Any, float]] = {}
        out: Dict[str, CxResult] = {}
        hard = per_condition_timeout * hard_factor + 20
        while pending or running:
            while pending and len(running) < workers:
                fn = pending.pop(0)
                pc, cc = ctx.Pipe(duplex=False)
                p = ctx.Process(target=_child, args=(cc, self.mod, fn, per_condition_timeout, per_path_timeout))
                p.start()
                cc.close()
                running[fn] = (p, pc, time.time())
            done = []
            for fn, (p, pc, t0) in running.items():
                if pc.poll(0):
                    try:
                        state, msg, secs = pc.recv()
                    except EOFError:
                        state, msg, secs = "RUNNER_ERR", "worker died", time.time() - t0
                    p.join(5)
                    out[fn] = self._mk(fn, state, msg, secs)
                    done.append(fn)
                elif not p.is_alive():
                    p.join()
                    if pc.poll(0.2):       # the result may have been sent between the two checks
                        try:
                            state, msg, secs = pc.recv()
                        except EOFError:
                            state, msg, secs = "RUNNER_ERR", "worker died", time.time() - t0
                        out[fn] = self._mk(fn, state, msg, secs)
                    else:
                        out[fn] = self._mk(fn, "RUNNER_ERR", f"worker exited with {p.exitcode}", time.time() - t0)
                    done.append(fn)
                elif time.time() - t0 > hard:
                    p.kill()
                    p.join()
                    out[fn] = self._mk(fn, "TIMEOUT", f"hard timeout {hard:.0f}s", time.time() - t0)
                    done.append(fn)
            for fn in done:
                running.pop(fn)
                if progress:
                    r = out[fn]
                    print(f"    {fn}: {r.state} {r.seconds:.1f}s {r.message[:100]}", flush=True)
            if not done:
                time.sleep(0.02)
        return out

    def _mk(self, fn: str, state: str, msg: str, secs: float) -> CxResult:
        r = CxResult(fn, state, msg, seconds=secs)
        if state in (POST_FAIL, EXEC_ERR):
            pc = parse_call(msg, fn)
            if pc is not None:
                r.args, r.kwargs = pc
        return r

    def replay(self, r: CxResult) -> CxResult:
        """Re-run a counterexample concretely (no CrossHair) through the same harness."""
        if r.args is None:
            r.reproduced = False
            r.replay_outcome = "could not parse counterexample arguments: " + r.message[:200]
            return r
        fn = getattr(self.mod, r.name)
        try:
            res = fn(*r.args, **(r.kwargs or {}))
            r.reproduced = res is not True
            r.replay_outcome = f"returned {res!r}"
        except Exception as e:  # noqa: BLE001
            r.reproduced = True
            r.replay_outcome = f"raised {type(e).__name__}: {e}"
        return r


def make_reach_twin(src_fn: str, name: str) -> str:
    """Source of the reachability twin of harness `name`: same body, `post: False`."""
    twin = src_fn.replace(f"def {name}(", f"def {name}__reach(", 1)
    return twin.replace("post: _", "post: False", 1)
