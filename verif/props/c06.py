"""C06 - every literal and identifier is recognised as its own kind with its exact value.

Engine A (kind and extent, z3 over symbolic characters): see `lexer_obligations`.
Engine B (values, CrossHair over the real token actions / py_val): see `value_items`.
"""
from __future__ import annotations

import os
import re
from typing import List

from .. import lexspec as ls
from .. import rexcirc as rx
from ..common import REPO, Run

PID = "C06"
NONASCII = r"[\s\S]*[^\x00-\x7f][\s\S]*"

# ------------------------------------------------------------------ regions of the 'accept' families
ACCEPT_REGIONS = {
    "ODATA_IDENTIFIER": [
        rx.Region("ident-keyword-prefix", r"(?:true|false|null|any|all)[\s\S]+",
                  "an identifier that starts with one of the keywords true/false/null/any/all is split into the keyword "
                  "token and a rest"),
    ],
    "DATETIME": [
        rx.Region("year-below-1000", r"0[\s\S]*", "a date / date-time literal whose year is 0001..0999 is not recognised"),
    ],
    "DATE": [
        rx.Region("year-below-1000", r"0[\s\S]*", "a date / date-time literal whose year is 0001..0999 is not recognised"),
    ],
}

# ------------------------------------------------------------------ regions of the informational 'overaccept' family
_D = "[0-9]"
OVER_REGIONS = {
    "*": [rx.Region("non-ascii-character", NONASCII,
                    "characters outside ASCII are accepted (\\d and \\w are Unicode-aware, re.I folds U+017F/U+212A/U+0130/U+0131 "
                    "onto ASCII letters)")],
    "TIME": [rx.Region("double-colon", r"[\s\S]*::[\s\S]*", "'::' before the seconds is accepted ((:?: instead of (?::)")],
    "DATETIME": [
        rx.Region("double-colon", r"[\s\S]*::[\s\S]*", "'::' before the seconds is accepted ((:?: instead of (?::)"),
        rx.Region("month-or-day-00", rf"{_D}{{4}}-(?:00-{_D}{_D}|{_D}{_D}-00)[\s\S]*", "month 00 / day 00 are accepted"),
    ],
    "DATE": [rx.Region("month-or-day-00", rf"{_D}{{4}}-(?:00-{_D}{_D}|{_D}{_D}-00)", "month 00 / day 00 are accepted")],
    "DURATION": [rx.Region("duration-without-component", r"duration'[+-]?P(?:[^']*T)?'",
                           "a duration with no component at all, or with a 'T' that no time component follows, is accepted")],
    "INTEGER": [rx.Region("integer-over-19-digits", r"[+-]?[0-9]{20,}", "more digits than int64Value (1*19DIGIT) allows")],
    "ODATA_IDENTIFIER": [rx.Region("ident-part-starts-with-digit", r"[\s\S]*\.[0-9][\s\S]*",
                                   "a namespace part / name that starts with a digit is accepted")],
    "GEOGRAPHY": [rx.Region("geography-content-not-validated", r"geography'[\s\S]*'",
                            "any quoted text after the geography prefix is accepted (no SRID / WKT structure is required)")],
}


def reference_patterns() -> List[tuple]:
    pats = [(p, rx.REF_FLAGS) for (_n, _k, p, _d, _b) in ls.accept_shapes()]
    pats += [(k["ref"], rx.REF_FLAGS) for k in ls.KINDS.values()]
    for rs in list(ACCEPT_REGIONS.values()) + list(OVER_REGIONS.values()):
        pats += [(r.pattern, r.flags) for r in rs]
    return pats


def lexer_obligations(sess: rx.Session, tier: str) -> List[rx.Obligation]:
    obs: List[rx.Obligation] = []
    B = ls.BOUNDS
    # family 1: a complete literal / identifier followed by a legal delimiter is one token of its kind
    for suffix, kind, ref, delims, bound in ls.accept_shapes():
        not_in = [ls.RESERVED] if kind == "ODATA_IDENTIFIER" else []
        if kind in ("DATE", "DATETIME"):
            # years 1000..9999 here, years 0001..0999 in their own obligations below (one finding, not ten)
            ref = ref.replace(ls.YEAR, ls.YEAR_1000, 1)
        obs.append(rx.ob_accept(sess, f"accept:{suffix}", "accept", B[bound], kind, ref, delims,
                                ACCEPT_REGIONS.get(kind, []), not_in))
    y0 = "0[0-9]{3}"
    obs.append(rx.ob_accept(sess, "accept:DATE[year<1000]", "accept", B["long"], "DATE",
                            ls.DATE.replace(ls.YEAR, "(?:000[1-9]|00[1-9][0-9]|0[1-9][0-9]{2})", 1), ls.DELIM_LITERAL,
                            ACCEPT_REGIONS["DATE"]))
    obs.append(rx.ob_accept(sess, "accept:DATETIME[year<1000]", "accept", B["long"], "DATETIME",
                            ls.datetime_shape("ss", "Z", "(?:000[1-9]|00[1-9][0-9]|0[1-9][0-9]{2})"), ls.DELIM_LITERAL,
                            ACCEPT_REGIONS["DATETIME"]))
    del y0
    # family 2: the step after a literal - white space, operator keyword, white space is exactly the operator token
    layout = ls.layout_chars(sess.alphabet.chars)
    for op, kind in ls.BINARY_OPERATORS.items():
        obs.append(rx.ob_operator(sess, f"next-op:{op}", "literal-next-to-operator", B["str"], op, kind, ls.WS_CHARS, 2, layout=layout))
    for op, kind in ls.PREFIX_OPERATORS.items():
        obs.append(rx.ob_operator(sess, f"next-op:{op}", "literal-next-to-operator", B["str"], op, kind, ls.WS_CHARS, 2,
                                  leading_ws=False, layout=layout))
    # family 3 (informational): what the live token accepts beyond the reference language
    rounds = 5 if tier == "quick" else 8
    for kind, k in ls.KINDS.items():
        N = B[k["bound"]]
        if kind == "GEOGRAPHY":
            N = B["str"]  # the answer does not depend on the bound: any quoted content is accepted
        regions = OVER_REGIONS.get(kind, []) + OVER_REGIONS["*"]
        obs.append(rx.ob_overaccept(sess, f"overaccept:{kind}", "overaccept(informational)", N, kind, k["ref"], k["delims"],
                                    regions, max_rounds=rounds))
    return obs


# ====================================================================================================
# Engine B: values.  The real token actions (ODataLexer._token_funcs[...]) and py_val run under CrossHair.
# A lexeme never goes through `tokenize` here (CrossHair cannot run the master regex on symbolic text);
# that lexemes of these shapes reach exactly these actions is Engine A's result above.
# ====================================================================================================
import datetime as _dt            # noqa: E402
import uuid as _uuid              # noqa: E402
from fractions import Fraction    # noqa: E402

from odata_query import ast as _ast                # noqa: E402
from odata_query.grammar import ODataLexer as _OL  # noqa: E402
from sly.lex import Token as _Token                # noqa: E402

from .. import chx                                 # noqa: E402
from ..harness import Item, run_items, source      # noqa: E402

_LEXER = _OL()
DIG = "0123456789"
HEX = "0123456789abcdef"


def action(kind: str, lexeme: str):
    """Call the live token action of `kind` on a hand-built sly Token (as tokenize does after a match)."""
    tok = _Token()
    tok.type, tok.value, tok.lineno, tok.index = kind, lexeme, 1, 0
    f = _OL._token_funcs.get(kind)
    return f(_LEXER, tok) if f is not None else tok


def spell(word: str, mask: int) -> str:
    """`word` with the letters selected by the bits of `mask` in upper case."""
    return "".join(ch.upper() if (mask >> i) & 1 else ch.lower() for i, ch in enumerate(word))


# ---- strings: forall intended contents v: action("'" + escape(v) + "'") carries exactly v
def v_string(v: str) -> bool:
    body = "".join("''" if ch == "'" else ch for ch in v)      # the OData spelling of v (SQUOTE-in-string)
    tok = action("STRING", "'" + body + "'")
    return tok.type == "STRING" and type(tok.value) is _ast.String and tok.value.val == v and tok.value.py_val == v


# ---- integers: positional value
def v_integer(sign: int, n: int, d0: int, d1: int, d2: int, d3: int) -> bool:
    ds = [d0, d1, d2, d3][:n]
    lex = ("", "+", "-")[sign] + "".join(DIG[d] for d in ds)
    want = 0
    for d in ds:
        want = want * 10 + d
    if sign == 2:
        want = -want
    tok = action("INTEGER", lex)
    return type(tok.value) is _ast.Integer and tok.value.val == lex and tok.value.py_val == want


# ---- decimals / exponents: correctly rounded value of the decimal spelling
def v_float(sign: int, a: int, frac: int, fd: int, exp: int, ecase: int, esign: int, e: int) -> bool:
    lex = ("", "+", "-")[sign] + str(a)
    val = Fraction(a)
    if frac:
        lex += "." + "0" * (frac - 1) + DIG[fd]
        val += Fraction(fd, 10 ** frac)
    if exp:
        lex += "eE"[ecase] + ("", "+", "-")[esign] + str(e)
        val *= Fraction(10) ** (-e if esign == 2 else e)
    if not frac and not exp:
        return True  # that is an integer literal
    if sign == 2:
        val = -val
    tok = action("DECIMAL", lex)
    return type(tok.value) is _ast.Float and tok.value.val == lex and tok.value.py_val == float(val)


def v_boolean(word: int, mask: int) -> bool:
    lex = spell(("true", "false")[word], mask)
    tok = action("BOOLEAN", lex)
    return type(tok.value) is _ast.Boolean and tok.value.val == lex and tok.value.py_val is (word == 0)


def v_null(mask: int) -> bool:
    tok = action("NULL", spell("null", mask))
    return tok.value == _ast.Null() and tok.value.py_val is None


# ---- identifiers: dotted namespaces split off
def v_ident(n: int, a: str, b: str, c: str) -> bool:
    parts = [a, b, c][:n]
    tok = action("ODATA_IDENTIFIER", ".".join(parts))
    return (type(tok.value) is _ast.Identifier and tok.value.name == parts[-1]
            and tok.value.namespace == tuple(parts[:-1]) and tok.value.full_name() == ".".join(parts))


# ---- geography: prefix (any case) and quotes stripped, content untouched
def v_geography(pmask: int, body: str) -> bool:
    tok = action("GEOGRAPHY", spell("geography", pmask) + "'" + body + "'")
    return type(tok.value) is _ast.Geography and tok.value.val == body and tok.value.wkt() == body


# ---- GUID
def v_guid(case: int, n0: int, n1: int, n2: int) -> bool:
    digits = [n0] + [1] * 7 + [2] * 4 + [n1] + [3] * 3 + [4] * 4 + [5] * 11 + [n2]
    hx = "".join(HEX[d] for d in digits)
    lex = "-".join([hx[0:8], hx[8:12], hx[12:16], hx[16:20], hx[20:32]])
    if case:
        lex = lex.upper()
    want = 0
    for d in digits:
        want = want * 16 + d
    tok = action("GUID", lex)
    return type(tok.value) is _ast.GUID and tok.value.val == lex and tok.value.py_val == _uuid.UUID(int=want)


# ---- durations
DUR_POOL = {"quick": ("0", "3", "12"), "thorough": ("0", "1", "12", "007", "365")}
DUR_SECS_EXTRA = ("1.5", "0.25")
_DUR_POOL = list(DUR_POOL["quick"])


def v_duration(sign: int, mask: int, iy: int, imo: int, idd: int, ih: int, imi: int, isec: int, lower: int) -> bool:
    pool = _DUR_POOL
    spool = pool + list(DUR_SECS_EXTRA)
    fields = [pool[iy] if mask & 1 else None, pool[imo] if mask & 2 else None, pool[idd] if mask & 4 else None,
              pool[ih] if mask & 8 else None, pool[imi] if mask & 16 else None, spool[isec] if mask & 32 else None]
    y, mo, dd, h, mi, sec = fields
    val = ("", "+", "-")[sign] + "P"
    for f, des in ((y, "Y"), (mo, "M"), (dd, "D")):
        if f is not None:
            val += f + des
    if h is not None or mi is not None or sec is not None:
        val += "T"
        for f, des in ((h, "H"), (mi, "M"), (sec, "S")):
            if f is not None:
                val += f + des
    lex = "duration'" + val + "'"
    if lower:
        lex = lex.lower()
    tok = action("DURATION", lex)
    node = tok.value
    if type(node) is not _ast.Duration or node.val != val:
        return False
    if node.unpack() != (("", "+", "-")[sign] or None, y, mo, dd, h, mi, sec):
        return False
    q = lambda f: Fraction(f) if f is not None else Fraction(0)  # noqa: E731
    days = q(y) * Fraction(36525, 100) + q(mo) * Fraction(3044, 100) + q(dd)
    secs = days * 86400 + q(h) * 3600 + q(mi) * 60 + q(sec)
    if sign == 2:
        secs = -secs
    got = node.py_val
    if type(got) is not _dt.timedelta:
        return False
    got_us = (got.days * 86400 + got.seconds) * 10 ** 6 + got.microseconds
    return abs(got_us - secs * 10 ** 6) <= 1     # float rounding of the documented 365.25 / 30.44 products


# ---- calendar values
YEARS = (1000, 1900, 2000, 2024, 9999)
HOURS = (0, 9, 10, 19, 20, 23)
MINUTES = (0, 9, 30, 59)
SECONDS = (0, 1, 59)
FRACS = (None, "1", "05", "123456", "1234567", "999999999999")
OFFSETS = (None, "Z", "+00:00", "-00:00", "+05:30", "-23:59", "+23:59")


def _days_in(y: int, m: int) -> int:
    if m == 2:
        return 29 if (y % 4 == 0 and (y % 100 != 0 or y % 400 == 0)) else 28
    return 30 if m in (4, 6, 9, 11) else 31


def _micro(fr):
    return 0 if fr is None else int((fr + "000000")[:6])   # Python's resolution: fractions are cut at the microsecond


def v_date(iy: int, m: int, d: int) -> bool:
    y = YEARS[iy]
    if d > _days_in(y, m):
        return True   # not a calendar date: no value is demanded
    lex = f"{y:04d}-{m:02d}-{d:02d}"
    tok = action("DATE", lex)
    return type(tok.value) is _ast.Date and tok.value.val == lex and tok.value.py_val == _dt.date(y, m, d)


def v_time(ih: int, imi: int, isec: int, ifr: int) -> bool:
    h, mi, sec, fr = HOURS[ih], MINUTES[imi], SECONDS[isec], FRACS[ifr]
    lex = f"{h:02d}:{mi:02d}:{sec:02d}" + ("." + fr if fr is not None else "")
    tok = action("TIME", lex)
    return type(tok.value) is _ast.Time and tok.value.val == lex and tok.value.py_val == _dt.time(h, mi, sec, _micro(fr))


def v_datetime(iy: int, m: int, d: int, ih: int, imi: int, secs: int, isec: int, ifr: int, ioff: int, lower: int) -> bool:
    y = YEARS[iy]
    if d > _days_in(y, m):
        return True
    h, mi = HOURS[ih], MINUTES[imi]
    sec, fr = (SECONDS[isec], FRACS[ifr] if secs == 2 else None) if secs else (0, None)
    off = OFFSETS[ioff]
    lex = f"{y:04d}-{m:02d}-{d:02d}T{h:02d}:{mi:02d}"
    if secs:
        lex += f":{sec:02d}" + ("." + fr if fr is not None else "")
    lex += off or ""
    if lower:
        lex = lex.lower()
    if off is None:
        tz = None
    elif off == "Z":
        tz = _dt.timezone.utc
    else:
        mins = int(off[1:3]) * 60 + int(off[4:6])
        tz = _dt.timezone(_dt.timedelta(minutes=-mins if off[0] == "-" else mins))
    want = _dt.datetime(y, m, d, h, mi, sec, _micro(fr), tzinfo=tz)
    tok = action("DATETIME", lex)
    got = tok.value.py_val
    return (type(tok.value) is _ast.DateTime and tok.value.val == lex and type(got) is _dt.datetime
            and got.replace(tzinfo=None) == want.replace(tzinfo=None) and got.utcoffset() == want.utcoffset())


def value_items(tier: str) -> List[Item]:
    """One CrossHair condition per item; the split over a leading index only spreads the paths over workers."""
    quick = tier == "quick"
    _DUR_POOL[:] = DUR_POOL[tier]
    it: List[Item] = []
    k = 4 if quick else 5
    it.append(Item("string", "x0: str", f"len(x0) <= {k}", "v_string(x0)", family="value:string",
                   describe=f"STRING action unescapes: all intended contents of <= {k} arbitrary code points"))
    nd = 3 if quick else 4
    for sign in range(3):
        for n in range(1, nd + 1):
            it.append(Item(f"integer_s{sign}_n{n}", "x0: int, x1: int, x2: int, x3: int",
                           " and ".join(f"0 <= x{i} <= 9" for i in range(4)) + "".join(f" and x{i} == 0" for i in range(n, 4)),
                           f"v_integer({sign}, {n}, x0, x1, x2, x3)", family="value:integer",
                           describe=f"Integer.py_val: sign {('none', '+', '-')[sign]}, {n} symbolic digits (leading zeros included)"))
    amax, emax = (3, 3) if quick else (12, 5)
    for sign in range(3):
        for exp in range(2):
            it.append(Item(f"float_s{sign}_e{exp}", "x0: int, x1: int, x2: int, x3: int, x4: int, x5: int",
                           f"0 <= x0 <= {amax} and 0 <= x1 <= 2 and 0 <= x2 <= 9 and 0 <= x3 <= 1 and 0 <= x4 <= 2 and 0 <= x5 <= {emax}"
                           + ("" if exp else " and x3 == 0 and x4 == 0 and x5 == 0") + " and (x1 > 0 or x2 == 0)",
                           f"v_float({sign}, x0, x1, x2, {exp}, x3, x4, x5)", family="value:float",
                           describe="Float.py_val == correctly rounded value of int part, optional fraction digit at "
                                    "position 1..2, optional exponent e/E with optional sign"))
    it.append(Item("boolean", "x0: int, x1: int", "0 <= x0 <= 1 and 0 <= x1 <= 31", "v_boolean(x0, x1)", family="value:boolean",
                   describe="Boolean.py_val for every upper/lower-case spelling of true / false"))
    it.append(Item("null", "x0: int", "0 <= x0 <= 15", "v_null(x0)", family="value:null", describe="NULL action, every case spelling"))
    nochar = " and ".join(f"'.' not in x{i}" for i in (1, 2, 3))
    it.append(Item("identifier", "x0: int, x1: str, x2: str, x3: str",
                   f"1 <= x0 <= 3 and len(x1) <= 2 and len(x2) <= 2 and len(x3) <= 2 and {nochar}", "v_ident(x0, x1, x2, x3)",
                   family="value:identifier", describe="ODATA_IDENTIFIER action: up to 2 namespace parts + name, each <= 2 arbitrary non-dot characters"))
    it.append(Item("geography", "x0: int, x1: str", "0 <= x0 <= 511 and len(x1) <= 4", "v_geography(x0, x1)",
                   family="value:geography", describe="GEOGRAPHY action strips exactly prefix+quote and the closing quote, any prefix case"))
    for case in range(2):
        it.append(Item(f"guid_c{case}", "x0: int, x1: int, x2: int", "0 <= x0 <= 15 and 0 <= x1 <= 15 and 0 <= x2 <= 15",
                       f"v_guid({case}, x0, x1, x2)", family="value:guid",
                       describe="GUID.py_val: first, middle and last hex digit symbolic, lower / upper case"))
    np_, ns_ = len(DUR_POOL[tier]), len(DUR_POOL[tier]) + len(DUR_SECS_EXTRA)
    for sign in range(3):
        for dmask in range(8):
            pre = (f"0 <= x0 <= 7 and 0 <= x1 < {np_} and 0 <= x2 < {np_} and 0 <= x3 < {np_} and 0 <= x4 < {np_} and "
                   f"0 <= x5 < {np_} and 0 <= x6 < {ns_} and 0 <= x7 <= 1 and (x0 > 0 or {dmask} > 0)")
            # absent fields are pinned to index 0 so that every spelling is one path
            pins = []
            for bit, var in ((1, "x1"), (2, "x2"), (4, "x3")):
                if not dmask & bit:
                    pins.append(f"{var} == 0")
            pins += ["(x0 & 1 or x4 == 0)", "(x0 & 2 or x5 == 0)", "(x0 & 4 or x6 == 0)"]
            pre += " and " + " and ".join(pins)
            it.append(Item(f"duration_s{sign}_d{dmask}", "x0: int, x1: int, x2: int, x3: int, x4: int, x5: int, x6: int, x7: int", pre,
                           f"v_duration({sign}, {dmask} | (x0 << 3), x1, x2, x3, x4, x5, x6, x7)", family="value:duration",
                           describe=f"DURATION action + Duration.unpack + py_val: sign {('none', '+', '-')[sign]}, date parts mask {dmask:03b} "
                                    f"(Y,M,D), every time-part combination, values from {DUR_POOL[tier]} (+ fractional seconds), both letter cases"))
    for iy in range(len(YEARS)):
        it.append(Item(f"date_y{YEARS[iy]}", "x0: int, x1: int", "1 <= x0 <= 12 and 1 <= x1 <= 31", f"v_date({iy}, x0, x1)",
                       family="value:date", describe=f"Date.py_val for every month / day of year {YEARS[iy]}"))
    for ih in range(len(HOURS)):
        it.append(Item(f"time_h{HOURS[ih]}", "x0: int, x1: int, x2: int",
                       f"0 <= x0 < {len(MINUTES)} and 0 <= x1 < {len(SECONDS)} and 0 <= x2 < {len(FRACS)}", f"v_time({ih}, x0, x1, x2)",
                       family="value:time", describe=f"Time.py_val hour {HOURS[ih]:02d} x minutes {MINUTES} x seconds {SECONDS} x fractions {FRACS}"))
    # date-time: the date part on boundary days, the time part on boundary values, every optional-part combination
    days = "(x1 == 1 or x1 == 28 or x1 == 29 or x1 == 31)" if quick else "1 <= x1 <= 31"
    months = "(x0 == 1 or x0 == 2 or x0 == 12)" if quick else "1 <= x0 <= 12"
    for ioff in range(len(OFFSETS)):
        for secs in range(3):
            pre = (f"{months} and {days} and 0 <= x2 < {len(YEARS)} and (x3 == 0 or x3 == {len(HOURS) - 1}) and "
                   f"(x4 == 0 or x4 == {len(MINUTES) - 1}) and 0 <= x5 <= 1 and x2 in (0, 3, 4)")
            pre += (f" and 0 <= x6 < {len(SECONDS)}" if secs else " and x6 == 0")
            pre += (f" and 0 <= x7 < {len(FRACS)} and x7 > 0" if secs == 2 else " and x7 == 0")
            if quick:
                pre += " and (x6 != 1) and (x7 in (0, 1, 4))"
            it.append(Item(f"datetime_o{ioff}_s{secs}", "x0: int, x1: int, x2: int, x3: int, x4: int, x5: int, x6: int, x7: int", pre,
                           f"v_datetime(x2, x0, x1, x3, x4, {secs}, x6, x7, {ioff}, x5)", family="value:datetime",
                           describe=f"DateTime.py_val: offset {OFFSETS[ioff]}, seconds part {('absent', 'ss', 'ss.f')[secs]}, boundary dates/times, "
                                    "upper- and lower-case T/Z"))
    return it


VALUE_HEADER = "from verif.props.c06 import *  # noqa\n"


def reachability(run: Run, header: str, items: List[Item], timeout: float = 20.0) -> None:
    """Vacuity guard: the twin of every harness with `post: False` must be violated (its body is reachable)."""
    src = source(header, items)
    twins = []
    for itm in items:
        start = src.index(f"def {itm.name}(")
        end = src.find("\ndef ", start + 1)
        fn_src = src[start:end if end != -1 else len(src)]
        twins.append(chx.make_reach_twin(fn_src, itm.name))
    with chx.HarnessModule(header + "\n" + "\n".join(twins)) as hm:
        res = hm.run([itm.name + "__reach" for itm in items], per_condition_timeout=timeout)
    bad = [n for n, r in res.items() if r.state != chx.POST_FAIL]
    run.extra.setdefault("reachability_twins", {})[items[0].family.split(":")[0] if items else "-"] = {
        "twins": len(items), "reachable": len(items) - len(bad)}
    for n in bad:
        run.harness_error(f"reachability:{n}", "reachability", f"twin came back {res[n].state}: {res[n].message[:200]}")


def run_values(run: Run, tier: str, progress: bool) -> None:
    items = value_items(tier)
    run.encode("odata_query.grammar.ODataLexer token actions STRING, INTEGER, DECIMAL, BOOLEAN, NULL, ODATA_IDENTIFIER, "
               "GEOGRAPHY, GUID, DURATION, DATE, TIME, DATETIME (via ODataLexer._token_funcs)",
               "odata_query.ast.Integer/Float/Boolean/Null/String/GUID/Date/Time/DateTime.py_val",
               "odata_query.ast.Duration.unpack", "odata_query.ast.Duration.py_val", "odata_query.ast.Identifier.full_name")
    reachability(run, VALUE_HEADER, items)
    run_items(run, VALUE_HEADER, items, per_condition_timeout=60 if tier == "quick" else 400, progress=progress)



def main() -> int:
    run = Run(PID, "model_checking")
    tier = run.tier
    progress = bool(os.environ.get("VERIF_PROGRESS"))
    try:
        sess = rx.Session(run, sorted(set(ls.BOUNDS.values())), reference_patterns())
    except rx.NotEncodable as e:
        print(f"[{PID}] the current lexer cannot be encoded: {e}", flush=True)
        run.inconclusive("encode-lexer", "encode", f"not encodable: {e}")
        run.finish()
        return 2
    sess.fill(run)
    run.bounds = {"text_length_N": dict(ls.BOUNDS), "per_kind_bound_class": {k: v["bound"] for k, v in ls.KINDS.items()},
                  "alphabet": f"{len(sess.alphabet)} characters (see rexcirc.alphabet)"}
    sess.validate(run, str(REPO / "tests"), 400 if tier == "quick" else 4000)
    obs = lexer_obligations(sess, tier)
    sess.drive(obs, timeout=60 if tier == "quick" else 300, progress=progress)
    return run.finish()
