"""C06 - every literal and identifier is recognised as its own kind with its exact value.

Engine A (kind and extent, z3 over symbolic characters): see `lexer_obligations`.
Engine B (values, CrossHair over the real token actions / py_val): see `value_items`.
"""
from __future__ import annotations

import os
import re
from typing import List

from .. import lexspec as ls
from .. import rexcirc as rx
from ..common import REPO, Run

PID = "C06"
NONASCII = r"[\s\S]*[^\x00-\x7f][\s\S]*"

# ------------------------------------------------------------------ regions of the 'accept' families
ACCEPT_REGIONS = {
    "ODATA_IDENTIFIER": [
        rx.Region("ident-keyword-prefix", r"(?:true|false|null|any|all)[A-Z0-9_][\s\S]*",
                  "an identifier that starts with one of the keywords true/false/null/any/all followed by a letter, digit or "
                  "underscore is split into the keyword token and a rest (nullable -> NULL + able)"),
        rx.Region("ident-keyword-namespace", r"(?:true|false|null|any|all)\.[\s\S]*",
                  "a qualified name whose first namespace part is one of the keywords true/false/null/any/all is split at "
                  "the dot (all.x -> ALL + error)"),
    ],
    "ODATA_IDENTIFIER[unicode]": [
        rx.Region("ident-keyword-prefix", r"(?:true|false|null|any|all)[^.][\s\S]*", "keyword prefix (see above)"),
        rx.Region("ident-keyword-namespace", r"(?:true|false|null|any|all)\.[\s\S]*", "keyword namespace (see above)"),
        rx.Region("ident-nonascii-leading-letter", r"(?:[\s\S]*\.)?[^\x00-\x7f][\s\S]*",
                  "a name / namespace part that starts with a non-ASCII letter (ABNF: Unicode categories L, Nl) is not an identifier token"),
        rx.Region("ident-nonascii-mark-or-digit", r"[\s\S]*[^\w.\x00-\x7f][\s\S]*",
                  "a non-ASCII character that the ABNF allows inside an identifier but Python's \\w does not match "
                  "(categories Mn, Mc, Pc, Cf: combining marks, connector punctuation, format characters) ends the token"),
    ],
    "DATETIME": [
        rx.Region("year-below-1000", r"0[\s\S]*", "a date / date-time literal whose year is 0001..0999 is not recognised"),
    ],
    "DATE": [
        rx.Region("year-below-1000", r"0[\s\S]*", "a date / date-time literal whose year is 0001..0999 is not recognised"),
    ],
}

# ------------------------------------------------------------------ regions of the informational 'overaccept' family
_D = "[0-9]"
OVER_REGIONS = {
    "*": [rx.Region("non-ascii-character", NONASCII,
                    "characters outside ASCII are accepted (\\d and \\w are Unicode-aware, re.I folds U+017F/U+212A/U+0130/U+0131 "
                    "onto ASCII letters)")],
    "TIME": [rx.Region("double-colon", r"[\s\S]*::[\s\S]*", "'::' before the seconds is accepted ((:?: instead of (?::)")],
    "DATETIME": [
        rx.Region("year-0000", r"0000[\s\S]*", "year 0000 is accepted: the ABNF admits it (\"0\" 3DIGIT) but it has no Python calendar "
                  "value, so the reference language used here starts at year 0001 - not an over-acceptance with respect to the ABNF"),
        rx.Region("double-colon", r"[\s\S]*::[\s\S]*", "'::' before the seconds is accepted ((:?: instead of (?::)"),
        rx.Region("month-or-day-00", rf"{_D}{{4}}-(?:00-{_D}{_D}|{_D}{_D}-00)[\s\S]*", "month 00 / day 00 are accepted"),
    ],
    "DATE": [
        rx.Region("year-0000", r"0000[\s\S]*", "year 0000 is accepted: the ABNF admits it (\"0\" 3DIGIT) but it has no Python calendar "
                  "value, so the reference language used here starts at year 0001 - not an over-acceptance with respect to the ABNF"),
        rx.Region("month-or-day-00", rf"{_D}{{4}}-(?:00-{_D}{_D}|{_D}{_D}-00)", "month 00 / day 00 are accepted")],
    "DURATION": [rx.Region("duration-without-component", r"duration'[+-]?P(?:[^']*T)?'",
                           "a duration with no component at all, or with a 'T' that no time component follows, is accepted")],
    "INTEGER": [rx.Region("integer-over-19-digits", r"[+-]?[0-9]{20,}", "more digits than int64Value (1*19DIGIT) allows")],
    "ODATA_IDENTIFIER": [rx.Region("ident-part-starts-with-digit", r"[\s\S]*\.[0-9][\s\S]*",
                                   "a namespace part / name that starts with a digit is accepted")],
    "GEOGRAPHY": [rx.Region("geography-content-not-validated", r"geography'[\s\S]*'",
                            "any quoted text after the geography prefix is accepted (no SRID / WKT structure is required)")],
}


def unicode_identifier_ref(alphabet_chars) -> str:
    """odataIdentifier including the ABNF's Unicode clause, over the non-ASCII members of the working alphabet:
    leading character: categories L*, Nl; further characters: L*, Nl, Nd, Mn, Mc, Pc, Cf (unicodedata, not the repo)."""
    import unicodedata
    lead = "".join(ch for ch in alphabet_chars if ord(ch) > 127 and (unicodedata.category(ch)[0] == "L" or unicodedata.category(ch) == "Nl"))
    cont = "".join(ch for ch in alphabet_chars if ord(ch) > 127 and (unicodedata.category(ch)[0] == "L"
                                                                    or unicodedata.category(ch) in ("Nl", "Nd", "Mn", "Mc", "Pc", "Cf")))
    part = f"[A-Z_{lead}][A-Z0-9_{cont}]{{0,127}}"
    return f"{part}(?:\\.{part})*"


UNICODE_EXTRAS = rx.PREFERRED_EXTRAS


def reference_patterns() -> List[tuple]:
    pats = [(p, rx.REF_FLAGS) for (_n, _k, p, _d, _b) in ls.accept_shapes()]
    pats += [(k["ref"], rx.REF_FLAGS) for k in ls.KINDS.values()]
    for rs in list(ACCEPT_REGIONS.values()) + list(OVER_REGIONS.values()):
        pats += [(r.pattern, r.flags) for r in rs]
    from . import c06_lexer
    pats += c06_lexer.reference_patterns()
    pats.append((unicode_identifier_ref([chr(i) for i in range(128)] + list(UNICODE_EXTRAS)), rx.REF_FLAGS))
    return pats


def lexer_obligations(sess: rx.Session, tier: str) -> List[rx.Obligation]:
    obs: List[rx.Obligation] = []
    B = ls.BOUNDS
    # family 1: a complete literal / identifier followed by a legal delimiter is one token of its kind
    for suffix, kind, ref, delims, bound in ls.accept_shapes(2 if tier == "quick" else 3):
        not_in = [ls.RESERVED] if kind == "ODATA_IDENTIFIER" else []
        if kind in ("DATE", "DATETIME"):
            # years 1000..9999 here, years 0001..0999 in their own obligations below (one finding, not ten)
            ref = ref.replace(ls.YEAR, ls.YEAR_1000, 1)
        obs.append(rx.ob_accept(sess, f"accept:{suffix}", "accept", B[bound], kind, ref, delims,
                                ACCEPT_REGIONS.get(kind, []), not_in))
    # identifiers with the ABNF's Unicode letters / digits / marks (at least one non-ASCII character), own regions
    obs.append(rx.ob_accept(sess, "accept:IDENTIFIER[unicode]", "accept", B["str"], "ODATA_IDENTIFIER",
                            unicode_identifier_ref(sess.alphabet.chars), ls.DELIM_IDENT, ACCEPT_REGIONS["ODATA_IDENTIFIER[unicode]"],
                            [ls.RESERVED, ls.IDENTIFIER]))
    y0 = "0[0-9]{3}"
    obs.append(rx.ob_accept(sess, "accept:DATE[year<1000]", "accept", B["long"], "DATE",
                            ls.DATE.replace(ls.YEAR, "(?:000[1-9]|00[1-9][0-9]|0[1-9][0-9]{2})", 1), ls.DELIM_LITERAL,
                            ACCEPT_REGIONS["DATE"]))
    obs.append(rx.ob_accept(sess, "accept:DATETIME[year<1000]", "accept", B["long"], "DATETIME",
                            ls.datetime_shape("ss", "Z", "(?:000[1-9]|00[1-9][0-9]|0[1-9][0-9]{2})"), ls.DELIM_LITERAL,
                            ACCEPT_REGIONS["DATETIME"]))
    del y0
    # family 2: the step after a literal - white space, operator keyword, white space is exactly the operator token
    layout = ls.layout_chars(sess.alphabet.chars)
    for op, kind in ls.BINARY_OPERATORS.items():
        obs.append(rx.ob_operator(sess, f"next-op:{op}", "literal-next-to-operator", B["str"], op, kind, ls.WS_CHARS, 2, layout=layout))
    for op, kind in ls.PREFIX_OPERATORS.items():
        obs.append(rx.ob_operator(sess, f"next-op:{op}", "literal-next-to-operator", B["str"], op, kind, ls.WS_CHARS, 2,
                                  leading_ws=False, layout=layout))
    # family 3 (informational): what the live token accepts beyond the reference language
    rounds = 5 if tier == "quick" else 8
    for kind, k in ls.KINDS.items():
        N = B[k["bound"]]
        if kind == "GEOGRAPHY":
            N = B["str"]  # the answer does not depend on the bound: any quoted content is accepted
        if kind == "DURATION" and tier == "quick":
            N = 28        # converse direction with components of any length: N = 44 only in the thorough tier
        regions = OVER_REGIONS.get(kind, []) + OVER_REGIONS["*"]
        obs.append(rx.ob_overaccept(sess, f"overaccept:{kind}", "overaccept(informational)", N, kind, k["ref"], k["delims"],
                                    regions, max_rounds=rounds))
    from . import c06_lexer
    obs += c06_lexer.blank_before_obligations(sess, tier)
    obs.sort(key=lambda o: -o.N)   # long bounds first: they are the expensive queries
    return obs


# ====================================================================================================
# Engine B: values.  The real token actions (ODataLexer._token_funcs[...]) and py_val run under CrossHair.
# A lexeme never goes through `tokenize` here (CrossHair cannot run the master regex on symbolic text);
# that lexemes of these shapes reach exactly these actions is Engine A's result above.
# ====================================================================================================
import datetime as _dt            # noqa: E402
import uuid as _uuid              # noqa: E402
from fractions import Fraction    # noqa: E402

from odata_query import ast as _ast                # noqa: E402
from odata_query.grammar import ODataLexer as _OL  # noqa: E402
from sly.lex import Token as _Token                # noqa: E402

from .. import chx                                 # noqa: E402
from ..harness import Item, run_items, source      # noqa: E402

_LEXER = _OL()
DIG = "0123456789"
HEX = "0123456789abcdef"


def action(kind: str, lexeme: str):
    """Call the live token action of `kind` on a hand-built sly Token (as tokenize does after a match)."""
    # CrossHair 0.0.110 mis-models negative-index slices of a lazily concatenated symbolic str ("'" + s + "'")[1:-1];
    # rebuilding the lexeme character by character gives the code under test an ordinary (symbolic) str
    lexeme = "".join([c for c in lexeme])
    tok = _Token()
    tok.type, tok.value, tok.lineno, tok.index = kind, lexeme, 1, 0
    f = _OL._token_funcs.get(kind)
    return f(_LEXER, tok) if f is not None else tok


def spell(word: str, mask: int) -> str:
    """`word` with the letters selected by the bits of `mask` in upper case."""
    return "".join(ch.upper() if (mask >> i) & 1 else ch.lower() for i, ch in enumerate(word))


def same_str(want, got) -> bool:
    """Character-wise equality.  (CrossHair 0.0.110 mis-evaluates `derived == symbolic` for slices / replace results
    of a symbolic str - found by a non-reproducing counterexample; length + per-character comparison is exact.)"""
    if not isinstance(got, str) or len(want) != len(got):
        return False
    for i in range(len(want)):
        if want[i] != got[i]:
            return False
    return True


# ---- strings: forall intended contents v: action("'" + escape(v) + "'") carries exactly v
def v_string(v: str) -> bool:
    body = "".join("''" if ch == "'" else ch for ch in v)      # the OData spelling of v (SQUOTE-in-string)
    tok = action("STRING", "'" + body + "'")
    return (tok.type == "STRING" and type(tok.value) is _ast.String and same_str(v, tok.value.val)
            and same_str(v, tok.value.py_val))


# ---- integers: positional value
def v_integer(sign: int, n: int, d0: int, d1: int, d2: int, d3: int) -> bool:
    ds = [d0, d1, d2, d3][:n]
    lex = ("", "+", "-")[sign] + "".join(DIG[d] for d in ds)
    want = 0
    for d in ds:
        want = want * 10 + d
    if sign == 2:
        want = -want
    tok = action("INTEGER", lex)
    return type(tok.value) is _ast.Integer and tok.value.val == lex and tok.value.py_val == want


# ---- decimals / exponents: correctly rounded value of the decimal spelling (parts picked from pools)
F_POOLS = {"quick": (("0", "12"), (None, "5", "05"), (None, "2", "10")),
           "thorough": (("0", "1", "12", "007"), (None, "0", "5", "25", "05", "125"), (None, "0", "2", "10"))}
F_INT, F_FRAC, F_EXP = (list(x) for x in F_POOLS["quick"])


def v_float(sign: int, ii: int, ifr: int, iex: int, ecase: int, esign: int) -> bool:
    ip, fr, ex = F_INT[ii], F_FRAC[ifr], F_EXP[iex]
    if fr is None and ex is None:
        return True  # that spelling is an integer literal
    lex = ("", "+", "-")[sign] + ip
    val = Fraction(int(ip))
    if fr is not None:
        lex += "." + fr
        val += Fraction(int(fr), 10 ** len(fr))
    if ex is not None:
        lex += "eE"[ecase] + ("", "+", "-")[esign] + ex
        val *= Fraction(10) ** (-int(ex) if esign == 2 else int(ex))
    if sign == 2:
        val = -val
    tok = action("DECIMAL", lex)
    return type(tok.value) is _ast.Float and tok.value.val == lex and tok.value.py_val == float(val)


def v_boolean(word: int, mask: int) -> bool:
    lex = spell(("true", "false")[word], mask)
    tok = action("BOOLEAN", lex)
    return type(tok.value) is _ast.Boolean and tok.value.val == lex and tok.value.py_val is (word == 0)


def v_null(mask: int) -> bool:
    tok = action("NULL", spell("null", mask))
    return tok.value == _ast.Null() and tok.value.py_val is None


# ---- identifiers: dotted namespaces split off
def v_ident(n: int, a: str, b: str, c: str) -> bool:
    parts = [a, b, c][:n]
    tok = action("ODATA_IDENTIFIER", ".".join(parts))
    node = tok.value
    if type(node) is not _ast.Identifier or not same_str(parts[-1], node.name):
        return False
    if type(node.namespace) is not tuple or len(node.namespace) != n - 1:
        return False
    for want, got in zip(parts[:-1], node.namespace):
        if not same_str(want, got):
            return False
    return same_str(".".join(parts), node.full_name())


# ---- GUID
def v_guid(case: int, n0: int, n1: int, n2: int) -> bool:
    digits = [n0] + [1] * 7 + [2] * 4 + [n1] + [3] * 3 + [4] * 4 + [5] * 11 + [n2]
    hx = "".join(HEX[d] for d in digits)
    lex = "-".join([hx[0:8], hx[8:12], hx[12:16], hx[16:20], hx[20:32]])
    if case:
        lex = lex.upper()
    want = 0
    for d in digits:
        want = want * 16 + d
    tok = action("GUID", lex)
    return type(tok.value) is _ast.GUID and tok.value.val == lex and tok.value.py_val == _uuid.UUID(int=want)


# ---- durations
DUR_DISTINCT = ("1", "2", "3", "4", "5", "6.5")            # one distinct value per field: swapped fields show
DUR_VALUES = ("0", "7", "12", "007", "365")                 # per-field value pool (leading zeros included)
DUR_SECS_EXTRA = ("1.5", "0.25", "59.999")


def _duration_ok(sign: int, fields, lower: int) -> bool:
    y, mo, dd, h, mi, sec = fields
    val = ("", "+", "-")[sign] + "P"
    for f, des in ((y, "Y"), (mo, "M"), (dd, "D")):
        if f is not None:
            val += f + des
    if h is not None or mi is not None or sec is not None:
        val += "T"
        for f, des in ((h, "H"), (mi, "M"), (sec, "S")):
            if f is not None:
                val += f + des
    lex = "duration'" + val + "'"
    if lower:
        lex = lex.lower()
    tok = action("DURATION", lex)
    node = tok.value
    if type(node) is not _ast.Duration or node.val != val:
        return False
    if node.unpack() != (("", "+", "-")[sign] or None, y, mo, dd, h, mi, sec):
        return False
    q = lambda f: Fraction(f) if f is not None else Fraction(0)  # noqa: E731
    days = q(y) * Fraction(36525, 100) + q(mo) * Fraction(3044, 100) + q(dd)     # documented 365.25 / 30.44
    secs = days * 86400 + q(h) * 3600 + q(mi) * 60 + q(sec)
    if sign == 2:
        secs = -secs
    got = node.py_val
    if type(got) is not _dt.timedelta:
        return False
    got_us = (got.days * 86400 + got.seconds) * 10 ** 6 + got.microseconds
    return abs(got_us - secs * 10 ** 6) <= 1     # float rounding of the products, at most one microsecond


def v_duration_mask(sign: int, mask: int, lower: int) -> bool:
    """every present/absent combination of Y M D H M S (mask != 0), one distinct value per field."""
    return _duration_ok(sign, [DUR_DISTINCT[i] if (mask >> i) & 1 else None for i in range(6)], lower)


def v_duration_field(sign: int, field: int, iv: int, others: int) -> bool:
    """one field runs through the value pool; `others`: the remaining fields are absent (0) or all present (1)."""
    pool = DUR_VALUES + (DUR_SECS_EXTRA if field == 5 else ())
    fields = [DUR_DISTINCT[i] if others else None for i in range(6)]
    fields[field] = pool[iv]
    return _duration_ok(sign, fields, 0)


def v_duration_product(sign: int, mask: int, i0: int, i1: int, i2: int, i3: int, i4: int, i5: int) -> bool:
    """thorough tier: full product of two values per present field."""
    pool = ("0", "12")
    idx = (i0, i1, i2, i3, i4, i5)
    return _duration_ok(sign, [pool[idx[i]] if (mask >> i) & 1 else None for i in range(6)], 0)


DUR_FRAC_PATTERNS = ("123456789012", "500000000000", "000000000001", "999999999999", "000000500000")
DUR_FRAC_WHOLE = ("0", "1", "59", "007")


def v_duration_fraction(sign: int, nd: int, pat: int, whole: int, others: int) -> bool:
    """seconds with 1..12 fraction digits (timedelta resolves microseconds: beyond 6 digits the value rounds, it does
    not wrap or scale), four whole-second spellings, alone and with all other fields present."""
    pattern = DUR_FRAC_PATTERNS[0]
    for j in range(len(DUR_FRAC_PATTERNS)):
        if pat == j:
            pattern = DUR_FRAC_PATTERNS[j]
    w = DUR_FRAC_WHOLE[0]
    for j in range(len(DUR_FRAC_WHOLE)):
        if whole == j:
            w = DUR_FRAC_WHOLE[j]
    frac = ""
    for j in range(12):
        if j < nd:
            frac += pattern[j]
    fields = [DUR_DISTINCT[i] if others else None for i in range(6)]
    fields[5] = w + "." + frac
    return _duration_ok(sign, fields, 0)


# ---- calendar values
YEARS = (1000, 1900, 2000, 2024, 9999)
DAYS = (1, 28, 29, 30, 31)
HOURS = (0, 12, 23)
MINUTES = (0, 59)
SECONDS = (0, 59)
FRACS = (None, "1", "05", "123456", "1234567", "999999999999")
OFFSETS = (None, "Z", "+00:00", "-00:00", "+05:30", "-23:59", "+23:59")
DATES = ((1000, 1, 1), (2000, 2, 29), (2024, 12, 31), (9999, 12, 31))
SECPARTS = ((0, None, None), (1, 0, None), (1, 59, None), (2, 59, "1"), (2, 0, "123456"), (2, 59, "999999999999"))


def _days_in(y: int, m: int) -> int:
    if m == 2:
        return 29 if (y % 4 == 0 and (y % 100 != 0 or y % 400 == 0)) else 28
    return 30 if m in (4, 6, 9, 11) else 31


def _micro(fr):
    return 0 if fr is None else int((fr + "000000")[:6])   # Python's resolution: fractions are cut at the microsecond


def v_date(iy: int, m: int, idd: int) -> bool:
    y, d = YEARS[iy], DAYS[idd]
    if d > _days_in(y, m):
        return True   # not a calendar date: no value is demanded
    lex = f"{y:04d}-{m:02d}-{d:02d}"
    tok = action("DATE", lex)
    return type(tok.value) is _ast.Date and tok.value.val == lex and tok.value.py_val == _dt.date(y, m, d)


def v_time(ih: int, imi: int, isec: int, ifr: int) -> bool:
    h, mi, sec, fr = HOURS[ih], MINUTES[imi], SECONDS[isec], FRACS[ifr]
    lex = f"{h:02d}:{mi:02d}:{sec:02d}" + ("." + fr if fr is not None else "")
    tok = action("TIME", lex)
    return type(tok.value) is _ast.Time and tok.value.val == lex and tok.value.py_val == _dt.time(h, mi, sec, _micro(fr))


def v_datetime(idate: int, ih: int, imi: int, isp: int, ioff: int, lower: int) -> bool:
    y, m, d = DATES[idate]
    h, mi = HOURS[ih], MINUTES[imi]
    secs, sec, fr = SECPARTS[isp]
    off = OFFSETS[ioff]
    lex = f"{y:04d}-{m:02d}-{d:02d}T{h:02d}:{mi:02d}"
    if secs:
        lex += f":{sec:02d}" + ("." + fr if fr is not None else "")
    lex += off or ""
    if lower:
        lex = lex.lower()
    if off is None:
        tz = None
    elif off == "Z":
        tz = _dt.timezone.utc
    else:
        mins = int(off[1:3]) * 60 + int(off[4:6])
        tz = _dt.timezone(_dt.timedelta(minutes=-mins if off[0] == "-" else mins))
    want = _dt.datetime(y, m, d, h, mi, sec or 0, _micro(fr), tzinfo=tz)
    tok = action("DATETIME", lex)
    got = tok.value.py_val
    # the T / Z designators are case-insensitive: the node may keep or normalise their spelling (not part of the value)
    return (type(tok.value) is _ast.DateTime and tok.value.val.upper() == lex.upper() and type(got) is _dt.datetime
            and got.replace(tzinfo=None) == want.replace(tzinfo=None) and got.utcoffset() == want.utcoffset())


GEO_SPELLINGS = ("geography", "GEOGRAPHY", "Geography", "gEoGrApHy")
NIBBLES = (0, 9, 10, 15)


# ---- sequences: a token action is a function of the lexeme only (no state shared between calls / lexers)
SEQ_POOLS = {
    "ODATA_IDENTIFIER": ("title", "Title", "TITLE", "titles", "ns.Title", "NS.title", "élan", "Élan"),
    "STRING": ("'abc'", "'ABC'", "'a''b'", "'A''B'"),
    "GEOGRAPHY": ("geography'Point(1 2)'", "GEOGRAPHY'POINT(1 2)'", "geography'point(1 2)'"),
    "DURATION": ("duration'P1D'", "duration'p1d'", "DURATION'P1DT2H'", "duration'P1DT2h'"),
    "INTEGER": ("1", "01", "+1", "-1"), "DECIMAL": ("1.5e3", "1.5E3", "1.50e3"),
    "BOOLEAN": ("true", "TRUE", "True", "false", "FALSE"), "NULL": ("null", "NULL"),
    "GUID": ("abcdefab-cdef-abcd-efab-cdefabcdefab", "ABCDEFAB-CDEF-ABCD-EFAB-CDEFABCDEFAB", "abcdefab-cdef-abcd-efab-cdefabcdefac"),
    "DATE": ("2020-02-29", "2020-02-28"), "TIME": ("10:00:00", "10:00:00.0", "10:00:01"),
    "DATETIME": ("2020-02-29T10:00:00Z", "2020-02-29t10:00:00z", "2020-02-29T10:00:00+00:00"),
}


def _pick(pool, i: int):
    """explicit branching keeps the lexeme concrete on every CrossHair path"""
    for k in range(len(pool)):
        if i == k:
            return pool[k]
    return pool[0]


def _ref_unescape(lexeme: str) -> str:
    out, i, n = [], 1, len(lexeme) - 1
    while i < n:
        out.append(lexeme[i])
        i += 2 if lexeme[i] == "'" else 1
    return "".join(out)


def exact_value(kind: str, lexeme: str, node) -> bool:
    """the value a token of `kind` must carry for `lexeme`, by an oracle that looks at this lexeme only"""
    if kind == "ODATA_IDENTIFIER":
        parts = lexeme.split(".")
        return type(node) is _ast.Identifier and node.name == parts[-1] and node.namespace == tuple(parts[:-1])
    if kind == "STRING":
        return type(node) is _ast.String and node.val == _ref_unescape(lexeme)
    if kind == "GEOGRAPHY":
        return type(node) is _ast.Geography and node.val == lexeme[10:len(lexeme) - 1]
    if kind == "DURATION":
        return type(node) is _ast.Duration and node.val == lexeme[9:len(lexeme) - 1].upper()
    if kind == "NULL":
        return type(node) is _ast.Null
    cls = {"INTEGER": _ast.Integer, "DECIMAL": _ast.Float, "BOOLEAN": _ast.Boolean, "GUID": _ast.GUID, "DATE": _ast.Date,
           "TIME": _ast.Time, "DATETIME": _ast.DateTime}[kind]
    if type(node) is not cls:
        return False
    if kind == "DATETIME":      # the node may normalise the case of its T / Z designators (value equality is what counts)
        return node.val.upper() == lexeme.upper()
    return node.val == lexeme


def v_sequence(kind: str, ia: int, ib: int) -> bool:
    """action(A), action(B), action(A) on one lexer, then action(B) on a second lexer: every result is exactly its own"""
    pool = SEQ_POOLS[kind]
    a, b = _pick(pool, ia), _pick(pool, ib)
    for lexeme in (a, b, a):
        if not exact_value(kind, lexeme, action(kind, lexeme).value):
            return False
    tok = _Token()
    tok.type, tok.value, tok.lineno, tok.index = kind, b, 1, 0
    return exact_value(kind, b, _OL._token_funcs[kind](_OL(), tok).value)


SEQ_TEXTS = ("Name eq name", "name eq Name and NAME ne name", "Title/title eq TITLE", "ns.F(A=a, a=A)", "x/Any(Y: Y/k eq y/K)",
             "'Abc' eq 'abc' or 'ABC' eq 'abc'", "Élan eq élan", "concat(Title, title) eq concat(title, Title)")


def v_lexer_sequence(i: int, j: int) -> bool:
    """the real lexer on two concrete texts in a row (one lexer instance, then a fresh one): every identifier / string token
    carries exactly the spelling at its own position"""
    for text in (_pick(SEQ_TEXTS, i), _pick(SEQ_TEXTS, j)):
        for lexer in (_LEXER, _OL()):
            for tok in lexer.tokenize(text):
                if tok.type in ("ODATA_IDENTIFIER", "STRING"):
                    lexeme = text[tok.index:tok.index + _tok_len(text, tok)]
                    if not exact_value(tok.type, lexeme, tok.value):
                        return False
    return True


def _tok_len(text: str, tok) -> int:
    """extent of an identifier / string token starting at tok.index (independent scan)"""
    i = tok.index
    if tok.type == "STRING":
        j = i + 1
        while j < len(text):
            if text[j] == "'":
                if j + 1 < len(text) and text[j + 1] == "'":
                    j += 2
                    continue
                return j + 1 - i
            j += 1
        return len(text) - i
    j = i
    while j < len(text) and (text[j].isalnum() or text[j] in "_."):
        j += 1
    return j - i


def sequence_items(tier: str) -> List[Item]:
    it: List[Item] = []
    for kind, pool in SEQ_POOLS.items():
        n = len(pool)
        if kind == "ODATA_IDENTIFIER":
            for ia in range(n):
                it.append(Item(f"sequence_{kind}_{ia}", "x0: int", f"0 <= x0 < {n}", f"v_sequence({kind!r}, {ia}, x0)", family="value:sequence",
                               describe=f"{kind} action on {pool[ia]!r}, then on a symbolic pick of {pool}, then again; second lexer: each value exact"))
        else:
            it.append(Item(f"sequence_{kind}", "x0: int, x1: int", f"0 <= x0 < {n} and 0 <= x1 < {n}", f"v_sequence({kind!r}, x0, x1)",
                           family="value:sequence",
                           describe=f"{kind} action on two symbolic picks of {pool} in a row (A, B, A; second lexer): each value exact"))
    m = len(SEQ_TEXTS)
    for i in range(m):
        it.append(Item(f"lexer_sequence_{i}", "x0: int", f"0 <= x0 < {m}", f"v_lexer_sequence({i}, x0)", family="value:sequence",
                       describe=f"real lexer on {SEQ_TEXTS[i]!r} then on a symbolic pick of the {m} texts: every identifier / string token "
                                "carries its own spelling"))
    return it


def value_items(tier: str) -> List[Item]:
    """One CrossHair condition per item.  Finite choices (digits, indexes into the value pools above, case masks) are
    symbolic ints that CrossHair enumerates path by path and certifies exhausted; string contents are symbolic str.
    Conditions are kept to a few dozen paths each (the leading, concrete split only spreads paths over workers)."""
    quick = tier == "quick"
    it: List[Item] = []
    k = 4 if quick else 5
    it.append(Item("string", "x0: str", f"len(x0) <= {k}", "v_string(x0)", family="value:string",
                   describe=f"STRING action unescapes: all intended contents of <= {k} arbitrary code points"))
    nd = 2 if quick else 3
    for sign in range(3):
        for n in range(1, nd + 1):
            lead = range(10) if n == 3 else [None]
            for ld in lead:
                pre = " and ".join(f"0 <= x{i} <= 9" for i in range(4)) + "".join(f" and x{i} == 0" for i in range(n, 4))
                if ld is not None:
                    pre += f" and x0 == {ld}"
                it.append(Item(f"integer_s{sign}_n{n}" + (f"_d{ld}" if ld is not None else ""), "x0: int, x1: int, x2: int, x3: int",
                               pre, f"v_integer({sign}, {n}, x0, x1, x2, x3)", family="value:integer",
                               describe=f"Integer.py_val: sign {('none', '+', '-')[sign]}, {n} symbolic digits (leading zeros included)"))
    for pool, vals in zip((F_INT, F_FRAC, F_EXP), F_POOLS[tier]):
        pool[:] = vals
    for sign in range(3):
        for ii in range(len(F_INT)):
            it.append(Item(f"float_s{sign}_i{ii}", "x0: int, x1: int, x2: int, x3: int",
                           f"0 <= x0 < {len(F_FRAC)} and 0 <= x1 < {len(F_EXP)} and 0 <= x2 <= 1 and 0 <= x3 <= 2 and "
                           "(x1 > 0 or (x2 == 0 and x3 == 0))", f"v_float({sign}, {ii}, x0, x1, x2, x3)", family="value:float",
                           describe=f"Float.py_val == correctly rounded value: sign {('none', '+', '-')[sign]}, int part {F_INT[ii]!r}, fraction in "
                                    f"{F_FRAC}, exponent in {F_EXP} with e/E and optional sign"))
    for word in range(2):
        it.append(Item(f"boolean_{('true', 'false')[word]}", "x1: int", f"0 <= x1 <= {(15, 31)[word]}", f"v_boolean({word}, x1)",
                       family="value:boolean", describe="Boolean.py_val for every upper/lower-case spelling"))
    it.append(Item("null", "x0: int", "0 <= x0 <= 15", "v_null(x0)", family="value:null", describe="NULL action, every case spelling"))
    nochar = " and ".join(f"'.' not in x{i}" for i in (1, 2, 3))
    for n in (1, 2, 3):
        it.append(Item(f"identifier_n{n}", "x1: str, x2: str, x3: str",
                       f"len(x1) <= 2 and len(x2) <= 2 and len(x3) <= 2 and {nochar}", f"v_ident({n}, x1, x2, x3)",
                       family="value:identifier",
                       describe=f"ODATA_IDENTIFIER action: {n} dot-separated parts, each <= 2 arbitrary non-dot characters"))
    for sp in range(len(GEO_SPELLINGS)):
        it.append(Item(f"geography_p{sp}", "x1: str", "len(x1) <= 4", f"v_geography_sp({sp}, x1)",
                       family="value:geography", describe=f"GEOGRAPHY action strips exactly {GEO_SPELLINGS[sp]}' and the closing quote"))
    for case in range(2):
        for n0 in NIBBLES:
            it.append(Item(f"guid_c{case}_{n0}", "x1: int, x2: int", "x1 in (0, 9, 10, 15) and x2 in (0, 9, 10, 15)",
                           f"v_guid({case}, {n0}, x1, x2)", family="value:guid",
                           describe="GUID.py_val: first, middle and last hex digit from {0,9,a,f}, lower / upper case"))
    for sign in range(3):
        for hi in range(4):
            it.append(Item(f"duration_mask_s{sign}_{hi}", "x0: int, x1: int",
                           f"0 <= x0 <= 15 and (x0 > 0 or {hi} > 0) and 0 <= x1 <= 1" + (" and x1 == 0" if sign else ""),
                           f"v_duration_mask({sign}, x0 | ({hi} << 4), x1)", family="value:duration",
                           describe=f"DURATION action + Duration.unpack + py_val: sign {('none', '+', '-')[sign]}, every present/absent combination "
                                    f"of Y M D H M S with the distinct values {DUR_DISTINCT}" + ("" if sign else ", upper- and lower-case spelling")))
        for fld in range(6):
            nv = len(DUR_VALUES) + (len(DUR_SECS_EXTRA) if fld == 5 else 0)
            it.append(Item(f"duration_field_s{sign}_f{fld}", "x0: int, x1: int", f"0 <= x0 < {nv} and 0 <= x1 <= 1",
                           f"v_duration_field({sign}, {fld}, x0, x1)", family="value:duration",
                           describe=f"duration field {'YMDHMS'[fld]} over {DUR_VALUES + (DUR_SECS_EXTRA if fld == 5 else ())}, alone and "
                                    "with all other fields present"))
        it.append(Item(f"duration_fraction_s{sign}", "x0: int, x1: int, x2: int, x3: int",
                       f"1 <= x0 <= 12 and 0 <= x1 < {len(DUR_FRAC_PATTERNS)} and 0 <= x2 < {len(DUR_FRAC_WHOLE)} and 0 <= x3 <= 1",
                       f"v_duration_fraction({sign}, x0, x1, x2, x3)", family="value:duration",
                       describe=f"duration seconds with 1..12 fraction digits from the patterns {DUR_FRAC_PATTERNS}, whole part over "
                                f"{DUR_FRAC_WHOLE}, alone and with all other fields present (value within one microsecond)"))
    if not quick:
        for sign in range(3):
            for mask in range(1, 64):
                pins = " and ".join(f"0 <= x{i} <= 1" + ("" if (mask >> i) & 1 else f" and x{i} == 0") for i in range(6))
                it.append(Item(f"duration_product_s{sign}_m{mask}", ", ".join(f"x{i}: int" for i in range(6)), pins,
                               f"v_duration_product({sign}, {mask}, x0, x1, x2, x3, x4, x5)", family="value:duration",
                               describe=f"duration: mask {mask:06b}, full product of the values 0/12 per present field"))
    years = (1, 2, 3) if quick else range(len(YEARS))
    for iy in years:
        for half in range(2):
            it.append(Item(f"date_y{YEARS[iy]}_{half}", "x0: int, x1: int",
                           f"{1 + 6 * half} <= x0 <= {6 + 6 * half} and 0 <= x1 < {len(DAYS)}", f"v_date({iy}, x0, x1)",
                           family="value:date", describe=f"Date.py_val year {YEARS[iy]}, months {1 + 6 * half}..{6 + 6 * half}, days {DAYS}"))
    for ih in range(len(HOURS)):
        it.append(Item(f"time_h{HOURS[ih]}", "x0: int, x1: int, x2: int",
                       f"0 <= x0 < {len(MINUTES)} and 0 <= x1 < {len(SECONDS)} and 0 <= x2 < {len(FRACS)}", f"v_time({ih}, x0, x1, x2)",
                       family="value:time", describe=f"Time.py_val hour {HOURS[ih]:02d} x minutes {MINUTES} x seconds {SECONDS} x fractions {FRACS}"))
    # date-time (i) field boundaries with offset Z; (ii) every optional-part combination x offsets x letter case
    for idate in range(len(DATES)):
        it.append(Item(f"datetime_fields_{idate}", "x0: int, x1: int, x2: int",
                       f"0 <= x0 < {len(HOURS)} and 0 <= x1 < {len(MINUTES)} and 0 <= x2 <= 2", f"v_datetime({idate}, x0, x1, x2, 1, 0)",
                       family="value:datetime", describe=f"DateTime.py_val date {DATES[idate]}, hours {HOURS}, minutes {MINUTES}, seconds absent/00/59, Z"))
    for ioff in range(len(OFFSETS)):
        it.append(Item(f"datetime_parts_o{ioff}", "x0: int, x1: int", f"0 <= x0 < {len(SECPARTS)} and 0 <= x1 <= 1",
                       f"v_datetime(1, 1, 1, x0, {ioff}, x1)", family="value:datetime",
                       describe=f"DateTime.py_val offset {OFFSETS[ioff]}: seconds absent / ss / ss.f (1, 6, 12 digits), upper- and lower-case T/Z"))
    return it


def v_geography_sp(sp: int, body: str) -> bool:
    tok = action("GEOGRAPHY", GEO_SPELLINGS[sp] + "'" + body + "'")
    return type(tok.value) is _ast.Geography and same_str(body, tok.value.val) and same_str(body, tok.value.wkt())


VALUE_HEADER = "from verif.props.c06 import *  # noqa\n"


def reachability(run: Run, header: str, items: List[Item], timeout: float = 20.0) -> None:
    """Vacuity guard: the twin of every harness with `post: False` must be violated (its body is reachable)."""
    src = source(header, items)
    twins = []
    for itm in items:
        start = src.index(f"def {itm.name}(")
        end = src.find("\ndef ", start + 1)
        fn_src = src[start:end if end != -1 else len(src)]
        twins.append(chx.make_reach_twin(fn_src, itm.name))
    with chx.HarnessModule(header + "\n" + "\n".join(twins)) as hm:
        res = hm.run([itm.name + "__reach" for itm in items], per_condition_timeout=timeout)
        # chx.HarnessModule.run can misreport a worker that delivered its result and exited between two polls
        # ("RUNNER_ERR worker exited with 0"); such twins are simply analysed again
        again = [n for n, r in res.items() if r.state == "RUNNER_ERR"]
        if again:
            res.update(hm.run(again, per_condition_timeout=timeout))
    bad = [n for n, r in res.items() if r.state not in (chx.POST_FAIL, chx.EXEC_ERR)]   # a twin that raises was reached too
    run.extra.setdefault("reachability_twins", {})[items[0].family.split(":")[0] if items else "-"] = {
        "twins": len(items), "reachable": len(items) - len(bad)}
    for n in bad:
        run.harness_error(f"reachability:{n}", "reachability", f"twin came back {res[n].state}: {res[n].message[:200]}")


def run_values(run: Run, tier: str, progress: bool) -> None:
    items = value_items(tier) + sequence_items(tier)
    run.encode("odata_query.grammar.ODataLexer token actions STRING, INTEGER, DECIMAL, BOOLEAN, NULL, ODATA_IDENTIFIER, "
               "GEOGRAPHY, GUID, DURATION, DATE, TIME, DATETIME (via ODataLexer._token_funcs)",
               "odata_query.ast.Integer/Float/Boolean/Null/String/GUID/Date/Time/DateTime.py_val",
               "odata_query.ast.Duration.unpack", "odata_query.ast.Duration.py_val", "odata_query.ast.Identifier.full_name")
    reachability(run, VALUE_HEADER, items)
    run_items(run, VALUE_HEADER, items, per_condition_timeout=60 if tier == "quick" else 400, progress=progress)



class SubRun:
    """Run `fn(sub_run)` in a forked process and merge its obligations into `run` on join().

    Used to let the CrossHair part (its own worker processes) overlap with the z3 part.  VIOLATION / KNOWN-FINDING
    lines and replay files are produced by the child exactly as in-process; only the bookkeeping is merged."""

    def __init__(self, run: Run, fn):
        import multiprocessing as mp
        self.run = run
        ctx = mp.get_context("fork")
        self.pc, cc = ctx.Pipe(duplex=False)

        def child():
            sub = Run(run.pid, run.level, run.tier, run.seed)
            try:
                fn(sub)
            except BaseException as e:  # noqa: BLE001
                import traceback
                sub.harness_error("engine-b-subprocess", "harness", "".join(traceback.format_exception_only(type(e), e)))
            cc.send({"obls": sub.obls, "known_hit": sub.known_hit, "nontrivial": sorted(sub._nontrivial), "notes": sub.notes,
                     "encoded": sub.functions_encoded, "extra": sub.extra, "violations": sub._violations,
                     "samples": sub.samples, "solver_s": sub.solver_s})
            cc.close()

        self.p = ctx.Process(target=child)
        self.p.start()
        cc.close()

    def join(self) -> None:
        run = self.run
        try:
            d = self.pc.recv()
        except EOFError:
            run.harness_error("engine-b-subprocess", "harness", "the CrossHair sub-process died")
            self.p.join()
            return
        self.p.join()
        run.obls.extend(d["obls"])
        run.known_hit.update(d["known_hit"])
        run._nontrivial.update(d["nontrivial"])
        run.notes.extend(d["notes"])
        run.encode(*d["encoded"])
        for k_, v_ in d["extra"].items():
            run.extra.setdefault(k_, v_)
        run._violations += d["violations"]
        run.solver_s += d["solver_s"]
        for smp in d["samples"]:
            run.sample(smp)


MUTANTS = [
    rx.Mutant("swap DATE and DATETIME rules", rx.edit_swap("DATE", "DATETIME"), ["accept:DATETIME[sec"]),
    rx.Mutant("swap INTEGER and DECIMAL rules", rx.edit_swap("INTEGER", "DECIMAL"), ["accept:DECIMAL"]),
    rx.Mutant("drop re.IGNORECASE", lambda sp: rx.respec(sp, flags=sp.flags & ~re.I), ["accept:BOOLEAN"]),
    rx.Mutant("fraction narrowed to 2 digits", rx.edit_replace(r"\d{1,12}", r"\d{1,2}"), ["accept:TIME"]),
    rx.Mutant("eq with literal spaces", rx.edit_replace(r"\s+eq\s+", " eq "), ["next-op:eq"]),
    rx.Mutant("identifier rule before the keyword rules", rx.edit_swap("ODATA_IDENTIFIER", "BOOLEAN"), ["accept:BOOLEAN"]),
]


IDENT_CAP = 127       # further identifier characters after the first one (dots not counted): the library's documented limit
SCALE = 5


def repeat_bounds(run: Run, sess: rx.Session, progress: bool) -> None:
    """Counted repeats beyond the text bound.  (a) structure + replay: every `{m,n}` with n > 44 in a literal / identifier rule
    must carry a bound the reference has too (only the identifier's 127), else a witness of n+1 iterations is replayed.
    (b) solver, at a reduced scale: the identifier rule with `{m,127}` replaced by `{m,5}` accepts, at N = 16, exactly what the
    reference with the cap scaled to 1+5 identifier characters (dots not counted) demands - i.e. *what* the repeat counts is
    right; a scaled counterexample is stretched back to the real scale (122 more characters in the first part) and replayed on
    the live lexer."""
    nmax = max(sess.engines)
    kinds = list(ls.KINDS)
    refs = {k: (v["ref"], rx.REF_FLAGS) for k, v in ls.KINDS.items()}
    refs["ODATA_IDENTIFIER"] = (ls.identifier_capped(10 ** 6), rx.REF_FLAGS)
    rx.check_repeat_caps(run, sess, nmax, kinds, {"ODATA_IDENTIFIER": [IDENT_CAP]}, refs)
    caps = [lp["max"] for lp in sess.engines[nmax].nfa.loops if lp["rule"] == "ODATA_IDENTIFIER" and lp["max"] == IDENT_CAP]
    from . import c06_lexer
    c06_lexer.identifier_length_boundary(run, sess, bool(caps))
    if not caps:
        return
    spec2 = rx.scaled_spec(sess.spec, "ODATA_IDENTIFIER", IDENT_CAP, SCALE)
    if spec2 is None:
        run.inconclusive("repeat-bounds:ODATA_IDENTIFIER[scaled]", "repeat-bounds(scaled, solver)", "could not scale the counted repeat")
        return
    try:
        sess2 = rx.Session(run, {ls.BOUNDS["str"]}, [(ls.identifier_capped(SCALE), rx.REF_FLAGS), (ls.RESERVED, rx.REF_FLAGS)], spec=spec2)
    except rx.NotEncodable as e:
        run.inconclusive("repeat-bounds:ODATA_IDENTIFIER[scaled]", "repeat-bounds(scaled, solver)", f"not encodable: {e}")
        return
    ob = rx.ob_accept(sess2, f"repeat-bounds:ODATA_IDENTIFIER[cap scaled {IDENT_CAP}->{SCALE}]", "repeat-bounds(scaled, solver)",
                      ls.BOUNDS["str"], "ODATA_IDENTIFIER", ls.identifier_capped(SCALE), ls.DELIM_IDENT, [], [ls.RESERVED])
    scaled_replay = ob.replay
    live = sess.spec

    def replay(w: dict) -> dict:
        r = scaled_replay(w)
        if not r.get("consistent") or not r.get("reproduced"):
            return r
        s_, text = r["lexeme"], r["text"]
        big = s_[0] + "x" * (IDENT_CAP - SCALE) + s_[1:]
        big_text = big + text[len(s_):]
        real = live.real_lex1(big_text)
        ok_ref = re.fullmatch(ls.identifier_capped(IDENT_CAP), big, rx.REF_FLAGS) is not None
        if ok_ref and list(real) != ["ODATA_IDENTIFIER", len(big)]:
            return {"consistent": True, "reproduced": True, "lexeme": s_, "text": big_text, "prev": "", "expected": ["ODATA_IDENTIFIER", len(big)],
                    "real": list(real), "how_to_replay": f"text = {s_[0]!r} + 'x' * {IDENT_CAP - SCALE} + {s_[1:] + text[len(s_):]!r}; "
                                                         "list(ODataLexer().tokenize(text))",
                    "what": f"a qualified name with {sum(c != '.' for c in big)} identifier characters and {big.count('.')} dots "
                            f"({len(big)} characters: {s_[0]!r} + 'x'*{IDENT_CAP - SCALE} + {s_[1:]!r}) is cut: the lexer produces {real[0]} of "
                            f"extent {real[1]} (scaled witness {s_!r} with the repeat bound {SCALE})"}
        return {"consistent": True, "inconclusive": True,
                "why": f"the scaled pattern mis-lexes {s_!r}, but the stretched text ({len(big)} characters) is lexed as one identifier by the live lexer"}

    ob.replay = replay
    sess2.drive([ob], timeout=60, max_rounds=1, progress=progress)


def main() -> int:
    run = Run(PID, "model_checking")
    tier = run.tier
    progress = bool(os.environ.get("VERIF_PROGRESS"))
    values = SubRun(run, lambda sub: run_values(sub, tier, progress))
    try:
        sess = rx.Session(run, sorted(set(ls.BOUNDS.values()) | ({28} if tier == "quick" else set())), reference_patterns())
    except rx.NotEncodable as e:
        print(f"[{PID}] the current lexer cannot be encoded: {e}", flush=True)
        run.inconclusive("encode-lexer", "encode", f"not encodable: {e}")
        values.join()
        run.finish()
        return 2
    sess.fill(run)
    run.bounds = {"text_length_N": dict(ls.BOUNDS), "per_kind_bound_class": {k: v["bound"] for k, v in ls.KINDS.items()},
                  "alphabet": f"{len(sess.alphabet)} characters (see rexcirc.alphabet)"}
    run.bounds.update({
        "duration_component_digits(accept direction)": 2 if tier == "quick" else 3,
        "delimiters_after_a_literal": "end of text, SP, HTAB, LF, CR, ')' , ','; identifiers additionally '/', '(', ':', '='",
        "operator_step": "white-space runs of 1..2 characters from {SP, HTAB} on each side (C19 covers every \\s character, runs 1..3)",
        "engine_b": {"string_contents": "<= 4 (quick) / 5 (thorough) arbitrary code points",
                     "integer_digits": "<= 2 (quick) / 3 (thorough), all signs, leading zeros",
                     "identifier_parts": "<= 3 parts of <= 2 arbitrary non-dot characters",
                     "other_kinds": "symbolic indexes into the value pools listed in the obligation descriptions"}})
    run.outside += [
        "texts longer than the per-kind bound N (rule matches longer than N characters)",
        "NaN / INF / -INF (nanInfinity of decimalValue): not part of 'decimal/exponent number' of the statement",
        "negative years, year 0000 and years with more than four digits (no Python calendar value exists)",
        "stand-alone time of day without seconds (hh:mm): the statement says hh:mm:ss[.f]",
        "durations without the 'duration' prefix (lexically a string), duration components longer than the digit bound in the "
        "accept direction", "geography collections nested deeper than one level", "identifiers longer than N - 1 characters "
        "(the 128-character limit is beyond the bound; the repeat-bounds family compares the counted-repeat structure at a reduced "
        "scale and replays stretched witnesses, it does not prove the limit for all long names)",
        "float / calendar py_val are evaluated concretely per CrossHair path (CrossHair realises at float(), fromisoformat, isoparse)",
    ]
    run.assumptions += [
        "reference languages are my transcription of the OData 4.01 ABNF (verif/lexspec.py), extended exactly where the property "
        "statement is wider (optional date-time offset, Y/M duration components) - see the comments there",
        "that a lexeme of a given shape reaches exactly the token action checked by Engine B is Engine A's 'accept' result; the "
        "two engines compose per kind",
        "'overaccept' obligations (live token accepts a string outside the reference language, followed by a delimiter) are "
        "informational: C06 quantifies over well-formed literals only; they are listed in coverage.notes, never as violations",
        "fractions of a second beyond microseconds are cut to Python's resolution (expected values use truncation)",
        "Engine B: finite choices are symbolic ints enumerated by CrossHair path by path (finite-domain symbolic execution: the solver "
        "certifies that the case split is exhaustive); only string contents are genuinely unbounded symbolic values",
    ]
    try:
        sess.validate(run, str(REPO / "tests"), 400 if tier == "quick" else 4000)
    except rx.NotEncodable as e:
        print(f"[{PID}] the current lexer cannot be encoded: {e}", flush=True)
        run.inconclusive("encode-lexer", "encode", f"not encodable: {e}")
        values.join()
        run.finish()
        return 2
    obs = lexer_obligations(sess, tier)
    sess.drive(obs, timeout=60 if tier == "quick" else 300, progress=progress)
    repeat_bounds(run, sess, progress)
    if tier == "thorough" or os.environ.get("VERIF_SELFTEST"):
        rx.selftest(run, sess.spec, MUTANTS, sorted(set(ls.BOUNDS.values())), reference_patterns(),
                    lambda s2: lexer_obligations(s2, "thorough"), timeout=120, progress=progress)
    values.join()
    rx.attach_results(run)
    return run.finish()
