"""C03 - SQLAlchemy ORM (2.x select and legacy Query) and Core shorthands return exactly the denoted rows and agree.

Engine C, interpreted mode (DESIGN.md section 4 C03).  Three programs per filter, each compiled for the SQLite
dialect: `apply_odata_query(select(Item), f)`, `apply_odata_query(session.query(Item), f).statement`,
`apply_odata_core(select(Item.__table__), f)`.  Obligations
  ref    each program == OData reference over every row (z3), replayed on a real in-memory SQLite through SQLAlchemy
  pair   the three programs are pairwise equivalent (identical WHERE tree, else z3)
  case   every keyword of the filter text (true false null and or not in eq ne lt le gt ge add sub mul div mod)
         re-spelled UPPER / Title gives an equivalent program (identical tree, else z3; replay on both spellings)
"""
from __future__ import annotations

import random
from typing import List

from ..common import Run
from ..sqlsmt import orm, ormrun, selftest_orm
from ..sqlsmt import values as V
from ..sqlsmt.ormclass import classify
from .c02 import _has_region, _known, _replay_known

PID = "C03"
BACKENDS = list(orm.SA_BACKENDS)


def main() -> int:
    run = Run(PID, "translation_validation")
    ormrun.clear_replays(PID)
    quick = run.tier == "quick"
    try:
        from odata_query.sqlalchemy import common, core, orm as saorm
        for cls in (common._CommonVisitors, saorm.AstToSqlAlchemyOrmVisitor, core.AstToSqlAlchemyCoreVisitor):
            run.encode(*sorted(f"{cls.__name__}.{n}" for n in vars(cls) if n.startswith(("visit", "func_", "_substr", "_maybe"))))
        run.encode("odata_query.sqlalchemy.shorthand.apply_odata_query", "odata_query.sqlalchemy.shorthand.apply_odata_core",
                   "sqlalchemy SQLite compiler (run concretely)")
    except Exception as e:                                     # noqa: BLE001
        print(f"[{PID}] cannot import the SQLAlchemy backend: {e}")
        run.notes.append(f"import failed: {e}")
        return run.finish()
    items, info = ormrun.scalar_items(run.tier, run.seed, {3: 600, 4: 250, 5: 100, 6: 30},
                                      {3: 14000, 4: 8000, 5: 4000, 6: 1500, 7: 500}, 700, (100, 150), (3000, 3000))
    timeout_ms = 60000 if quick else 120000
    rng = random.Random(run.seed + 1)
    for it in items:
        it.update(backends=BACKENDS, pairs=True, timeout_ms=timeout_ms,
                  spellings=[rng.choice(["upper", "title"])] if quick else ["upper", "title"])
    pre = [(_replay_known, (e["witness"],)) for e in run.known if _has_region(e)]
    muts = selftest_orm.items(BACKENDS, timeout_ms)
    active: List[str] = []

    def after_pre(pre_out):
        active.extend(_known(run, pre_out))
        for it in items:
            it["regions"] = list(active)

    _, chunks = ormrun.run_pool(orm.check_scalar, muts + items, PID, pre, after_pre)
    results = [r for ch in chunks for r in ch]
    results += [r for r in orm.inlist_sweep() if r["backend"] in BACKENDS]      # structural: long in-lists arrive complete
    selftest_orm.ingest(run, [r for r in results if r.get("family") == "selftest"])
    results = [r for r in results if r.get("family") != "selftest"]
    run.bounds = {
        "table": "vt_item(id PK, n INT NULL, m INT NULL, name TEXT NULL, title TEXT NULL, flag BOOL NULL), 1 row slot, "
                 "every cell symbolic",
        "integers": f"cells and literals in [{V.INT_LO}, {V.INT_HI}] (literals symbolic via sentinel parameters); REAL "
                    "values (SQLAlchemy's `x / (y + 0.0)`) are exact fractions of 16-bit integers",
        "strings": f"cells: length <= {V.CELL_CAP} over {V.ALPH!r}; literals <= 2 characters",
        "spellings": "lower (base) vs " + ("one of UPPER / Title chosen by the seed" if quick else "UPPER and Title"),
        "filters": info, "z3_timeout_ms": timeout_ms}
    run.outside = ["floats, date/time functions, round/floor/ceiling, matchesPattern, geo",
                   "division / modulo by zero", "substring start outside [0, length] or negative count",
                   "values outside the string / integer bounds", "navigation and lambdas (C04)",
                   "mixed-case spellings other than all-upper and Title; function names (case-sensitive by specification)"]
    run.assumptions = [
        "reference semantics as in C01 (3VL, literal null tests, null propagation, integer div truncates toward zero)",
        "divisor != 0; substring range; no 16-bit overflow in any intermediate, numerator or denominator",
        "REAL arithmetic of SQLite is exact on the small fractions inside the bounds (re-checked against the real "
        "sqlite3 by the model validation and by every replay)",
        "the compiled statement's WHERE clause decides which rows come back; `?` parameters are bound in "
        "`compiled.positiontup` order",
        "a function that `pragma_function_list` of the real SQLite connection does not list makes the statement "
        "unusable (replayed: OperationalError)"]
    stats = ormrun.ingest(run, results, classify,
                          lambda r: f"{r['ob']}:{r.get('backend')}:{r.get('variant', '')}:{r.get('filter')}")
    v = stats["obligation_verdicts"]
    run.programs = sum(sum(c.values()) for k, c in v.items() if k.startswith(("ref/", "accept/", "case/")))
    run.disagreements_checked = sum(c.get("violation", 0) + c.get("harness_error", 0) for c in v.values())
    run.extra.update(stats)
    run.extra.update({"rule": "one evaluation = one obligation (ref / pair / case) of one filter; ref and non-identical "
                              "pair / case obligations are z3 queries over all rows and literal values",
                      "known_regions_active": active})
    print(f"[{PID}] filters={len(items)} " + " ".join(f"{k}:{'/'.join(f'{a}={b}' for a, b in sorted(c.items()))}"
                                                      for k, c in sorted(v.items())), flush=True)
    return run.finish()


def replay(data: dict) -> int:
    still, what = orm.replay_scalar_witness(data["witness"])
    print(("REPRODUCED: " if still else "not reproduced: ") + what)
    return 1 if still else 0
