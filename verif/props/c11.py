"""C11 - function calls are accepted iff name and argument count match the OData table.

Engine B.  Two entry points of the real code run under CrossHair:
  * `ODataParser._function_call(Identifier, args)` directly.  The table lookup hashes the name
    (`ODATA_FUNCTIONS[name]`), and a free symbolic str never closes under hashing, so the name is a
    symbolic *pick* from a pool built at run time: live table keys, reference table keys,
    near-misses (case variants, proper prefixes, one-char extensions, moved namespaces) and fresh names;
    namespace kind, argument count 0..5, positional/named and argument kind are symbolic ints.
  * text -> real lexer -> real parser: every pool name (that is lexable as an identifier) with
    symbolic count / layout picks; the text is concrete on each path.
Oracle: an independent copy of the OData 4.01 built-in function table (name -> min,max).
"""
from __future__ import annotations

import os
from typing import Any, List, Optional, Tuple

from odata_query import ast, exceptions
from odata_query.grammar import ODATA_FUNCTIONS, ODataLexer, ODataParser

from ..common import Run
from ..gen import pick as gen_pick
from ..harness import Item, run_items

PID = "C11"

# independent reference: OData 4.01 URL conventions 5.1.1.5 - 5.1.1.13 (canonical functions the library lists)
REF = {
    "concat": (2, 2), "contains": (2, 2), "endswith": (2, 2), "indexof": (2, 2), "length": (1, 1),
    "startswith": (2, 2), "substring": (2, 3), "matchesPattern": (2, 2), "tolower": (1, 1), "toupper": (1, 1),
    "trim": (1, 1), "year": (1, 1), "month": (1, 1), "day": (1, 1), "hour": (1, 1), "minute": (1, 1),
    "second": (1, 1), "fractionalseconds": (1, 1), "totalseconds": (1, 1), "date": (1, 1), "time": (1, 1),
    "totaloffsetminutes": (1, 1), "mindatetime": (0, 0), "maxdatetime": (0, 0), "now": (0, 0), "round": (1, 1),
    "floor": (1, 1), "ceiling": (1, 1), "geo.distance": (2, 2), "geo.length": (1, 1), "geo.intersects": (2, 2),
    "hassubset": (2, 2), "hassubsequence": (2, 2),
}
POOL: List[str] = []          # bare names (no namespace)
NS_KINDS = [(), ("geo",), ("other",), ("geo", "x"), ("Geo",)]
ARG_KINDS = 7


EXACT: List[str] = []


def build_pool(tier: str = "thorough", seed: int = 0) -> List[str]:
    exact = sorted({full.split(".")[-1] for full in list(ODATA_FUNCTIONS) + list(REF)})
    EXACT[:] = exact
    variants = set()
    for i, bare in enumerate(exact):
        vs = [bare.upper(), bare.capitalize(), bare[:-1], bare + "s", bare + "_", bare[0].upper() + bare[1:]]
        if tier == "quick":
            vs = [vs[(seed + i) % len(vs)], vs[(seed + i + 3) % len(vs)]]
        variants |= set(vs)
    variants |= {"fresh", "f", "x1", "geo", "Length", "matchespattern", "MATCHESPATTERN"}
    variants -= set(exact)
    variants.discard("")
    return exact + sorted(variants)


def mk_arg(kind: int, j: int) -> Any:
    k = kind % ARG_KINDS
    if k == 0:
        return ast.Integer(str(j))
    if k == 1:
        return ast.Identifier("f" + str(j))
    if k == 2:
        return ast.String("s" + str(j))
    if k == 3:
        return ast.Call(ast.Identifier("now"), [])
    if k == 4:
        return ast.BinOp(ast.Add(), ast.Identifier("a"), ast.Integer(str(j)))
    if k == 5:     # a list literal is ONE argument, however many items it has
        return ast.List([ast.Integer(str(j)), ast.Integer("2")])
    return ast.List([ast.String("s" + str(j))])


ARG_TEXT = ["{j}", "f{j}", "'s{j}'", "now()", "a add {j}", "({j}, 2)", "('s{j}',)"]


def expected(full: str, ns: tuple, n: int) -> Tuple[str, Any]:
    """('ok', None) | ('unknown', name) | ('count', (name, lo, hi, n))"""
    if ns in ((), ("geo",)):
        if full not in REF:
            return ("unknown", full)
        lo, hi = REF[full]
        if lo <= n <= hi:
            return ("ok", None)
        return ("count", (full, lo, hi, n))
    return ("ok", None)


def check_direct(pi: int, nsk: int, n: int, named: bool, kind: int) -> bool:
    name = gen_pick(POOL, pi)
    ns = NS_KINDS[nsk]
    ident = ast.Identifier(name, ns)
    full = ".".join(ns + (name,))
    if named:
        args = [ast.NamedParam(ast.Identifier("p" + str(j)), mk_arg(kind, j)) for j in range(n)]
    else:
        args = [mk_arg(kind + j, j) for j in range(n)]
    given = list(args)
    exp = expected(full, ns, n)
    try:
        r = ODataParser()._function_call(ident, args)
    except exceptions.UnknownFunctionException as e:
        return exp[0] == "unknown" and e.function_name == exp[1] and isinstance(e, exceptions.FunctionCallException) \
            and isinstance(e, exceptions.ODataException)
    except exceptions.ArgumentCountException as e:
        return exp[0] == "count" and (e.function_name, e.exp_min_args, e.exp_max_args, e.n_args_given) == exp[1] \
            and isinstance(e, exceptions.FunctionCallException)
    if exp[0] != "ok":
        return False
    return type(r) is ast.Call and r.func == ident and len(r.args) == n and \
        all(a is b or a == b for a, b in zip(r.args, given))


def _outcome_matches(exp, call) -> bool:
    try:
        r = call()
    except exceptions.UnknownFunctionException as e:
        return exp[0] == "unknown" and e.function_name == exp[1]
    except exceptions.ArgumentCountException as e:
        return exp[0] == "count" and (e.function_name, e.exp_min_args, e.exp_max_args, e.n_args_given) == exp[1]
    return exp[0] == "ok" and type(r) is ast.Call


HIST_NS = [((), ("geo",)), (("geo",), ()), (("other",), ()), ((), ("other",)), ((), ()), (("geo",), ("geo",))]


def check_history(pi: int, hk: int, n1: int, n2: int, same_parser: bool) -> bool:
    """acceptance does not depend on what was checked before: a first call with the same bare name in another (or
    the same) namespace / another argument count - accepted or rejected - never changes the verdict of a second call,
    neither on the same parser instance nor on a new one (no state on the instance, the class or the module)."""
    name = gen_pick(POOL, pi)
    ns1, ns2 = HIST_NS[hk]
    p1 = ODataParser()
    try:
        p1._function_call(ast.Identifier(name, ns1), [mk_arg(j, j) for j in range(n1)])
    except exceptions.ODataException:
        pass
    p2 = p1 if same_parser else ODataParser()
    full2 = ".".join(ns2 + (name,))
    return _outcome_matches(expected(full2, ns2, n2), lambda: p2._function_call(ast.Identifier(name, ns2), [mk_arg(j, j) for j in range(n2)]))


_LEX = ODataLexer()


def _parse(text: str) -> Any:
    return ODataParser().parse(_LEX.tokenize(text))


def check_text(pi: int, nsk: int, n: int, kind: int, ws: bool) -> bool:
    """through the real lexer + parser: name(arg, ...) with n positional arguments."""
    name = gen_pick(POOL, pi)
    ns = NS_KINDS[nsk]
    full = ".".join(ns + (name,))
    parts = [ARG_TEXT[(kind + j) % ARG_KINDS].format(j=j) for j in range(n)]
    sep = " , " if ws else ","
    inner = sep.join(parts)
    if ws and n:
        inner = " " + inner + " "
    text = full + "(" + inner + ")"
    want_args = [mk_arg(kind + j, j) for j in range(n)]
    exp = expected(full, ns, n)
    try:
        r = _parse(text)
    except exceptions.UnknownFunctionException as e:
        return exp[0] == "unknown" and e.function_name == exp[1]
    except exceptions.ArgumentCountException as e:
        return exp[0] == "count" and (e.function_name, e.exp_min_args, e.exp_max_args, e.n_args_given) == exp[1]
    if exp[0] != "ok":
        return False
    return r == ast.Call(ast.Identifier(name, ns), want_args)


def check_named_text(nsk: int, n: int, kind: int, ws: bool) -> bool:
    """custom namespace with 1..5 named parameters, kept in source order."""
    ns = NS_KINDS[nsk]
    full = ".".join(ns + ("fn",))
    parts = ["p{j}={a}".format(j=j, a=ARG_TEXT[(kind + j) % ARG_KINDS].format(j=j)) for j in range(n)]
    text = full + "(" + (" , " if ws else ",").join(parts) + ")"
    want = ast.Call(ast.Identifier("fn", ns),
                    [ast.NamedParam(ast.Identifier("p" + str(j)), mk_arg(kind + j, j)) for j in range(n)])
    exp = expected(full, ns, n)
    try:
        r = _parse(text)
    except exceptions.UnknownFunctionException as e:
        return exp[0] == "unknown" and e.function_name == exp[1]
    except exceptions.ArgumentCountException as e:
        return exp[0] == "count" and (e.function_name, e.exp_min_args, e.exp_max_args, e.n_args_given) == exp[1]
    return exp[0] == "ok" and r == want


def _lexable(name: str) -> bool:
    try:
        toks = list(ODataLexer().tokenize(name))
    except Exception:
        return False
    return len(toks) == 1 and toks[0].type == "ODATA_IDENTIFIER"


def prepare(tier: str, seed: int) -> None:
    POOL[:] = build_pool(tier, seed)


def main() -> int:
    run = Run(PID, "model_checking")
    run.encode("odata_query.grammar.ODataParser._function_call", "odata_query.grammar.ODATA_FUNCTIONS (live table)",
               "odata_query.grammar.ODataParser call productions (through real lexer+parser)",
               "odata_query.exceptions.UnknownFunctionException / ArgumentCountException")
    prepare(run.tier, run.seed)
    quick = run.tier == "quick"
    run.bounds = {"names": f"symbolic pick from a pool of {len(POOL)} bare names (live table + reference table + case variants, "
                           "prefixes, extensions, fresh names)", "namespaces": [list(n) for n in NS_KINDS],
                  "argument count": "0..5", "argument kinds": "integer, field, string, nested call, arithmetic",
                  "named parameters": "0..5 (direct), 1..5 (text)"}
    run.outside = ["names outside the pool (all take the KeyError branch of the table lookup; argued, not decided)",
                   "more than 5 arguments"]
    run.assumptions = ["reference arities transcribed from OData 4.01 (REF table in this module)",
                       "a free symbolic name cannot be hashed by CrossHair, hence pool picks (DESIGN.md section 3)"]
    # the live table itself must list exactly the reference names (cheap concrete cross-check, reported as a note)
    live = {k: ((v, v) if isinstance(v, int) else tuple(v)) for k, v in ODATA_FUNCTIONS.items()}
    run.notes.append(f"live table == reference table: {live == REF}")
    items: List[Item] = []
    np_ = len(POOL)
    ne = len(EXACT)
    chunk = 8
    cnt = 0
    for lo in range(0, np_, chunk):
        hi = min(np_, lo + chunk)
        for nsk in range(len(NS_KINDS)):
            if quick and lo >= ne and nsk > 1:
                continue        # quick: near-miss names only un-namespaced and in geo
            cnt += 1
            named, kind = bool(cnt % 2), (cnt + run.seed) % ARG_KINDS
            items.append(Item(f"direct_{lo}_{nsk}", "pi: int, n: int",
                              f"{lo} <= pi < {hi} and 0 <= n <= 5",
                              f"check_direct(pi, {nsk}, n, {named}, {kind})",
                              describe={"names": POOL[lo:hi], "namespace": list(NS_KINDS[nsk]), "named": named},
                              family="_function_call"))
    lex_idx = [i for i, nm in enumerate(POOL) if _lexable(nm)]
    run.notes.append(f"{len(lex_idx)} of {len(POOL)} pool names are lexable as a single identifier")
    tchunk = 6
    for c in range(0, len(lex_idx), tchunk):
        idxs = tuple(lex_idx[c:c + tchunk])
        for nsk in (0, 1, 2):
            if quick and idxs[0] >= ne and nsk > 0:
                continue
            cnt += 1
            kind, ws = (cnt + run.seed) % ARG_KINDS, bool(cnt % 2)
            nmax = 5 if not quick else (4 if idxs[0] < ne else 2)
            items.append(Item(f"text_{c}_{nsk}", "pi: int, n: int",
                              f"pi in {idxs!r} and 0 <= n <= {nmax}",
                              f"check_text(pi, {nsk}, n, {kind}, {ws})",
                              describe={"names": [POOL[i] for i in idxs], "namespace": list(NS_KINDS[nsk])},
                              family="text->parser"))
    for lo in range(0, ne, 8):
        hi = min(ne, lo + 8)
        for hk in range(len(HIST_NS)):
            items.append(Item(f"hist_{lo}_{hk}", "pi: int, n1: int, n2: int, same_parser: bool",
                              f"{lo} <= pi < {hi} and 1 <= n1 <= 2 and 0 <= n2 <= 2",
                              f"check_history(pi, {hk}, n1, n2, same_parser)",
                              describe={"names": POOL[lo:hi], "first namespace": list(HIST_NS[hk][0]), "second namespace": list(HIST_NS[hk][1])},
                              family="history-independence"))
    for nsk in range(len(NS_KINDS)):
        items.append(Item(f"named_{nsk}", "n: int, ws: bool", f"1 <= n <= 5",
                          f"check_named_text({nsk}, n, {nsk % ARG_KINDS}, ws)", describe={"namespace": list(NS_KINDS[nsk])},
                          family="named-parameters"))
    for it in items[:3]:
        run.sample({"harness": it.name, "call": it.call, "describe": it.describe})
    header = "from verif.props.c11 import check_direct, check_text, check_named_text, check_history\n"
    run_items(run, header, items, per_condition_timeout=90 if quick else 300,
              progress=bool(os.environ.get("VERIF_PROGRESS")))
    return run.finish()
