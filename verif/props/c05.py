"""C05 - the parser groups operators exactly as the OData precedence table dictates.

Engine B.  Per tree skeleton the operator at every internal node is a symbolic index (13 binary
operators, `in` with a list right operand, 2 unary operators).  The harness renders the tree with
the independent reference printer (verif/refprint.py: spec table only; minimal, full and mixed
parenthesisation), sends the text through the REAL lexer and parser and compares the decoded AST
with the tree that was printed.  On every path the text is concrete; CrossHair/z3 enumerate the
operator assignments and certify exhaustion of the case split ("Confirmed over all paths" = every
assignment for that skeleton) - finite-domain symbolic execution, stated as such.
"""
from __future__ import annotations

import itertools
import os
from typing import Any, List

from odata_query import ast
from odata_query.grammar import ODataLexer, ODataParser

from .. import gen, refprint
from ..common import Run
from ..harness import Item, run_items

PID = "C05"
SHAPES: List[dict] = []
_LEX = ODataLexer()

LEAVES = [
    ("Id", "a", ()), ("Int", "1"), gen.path_shape(1, "b", ["c"]), ("Call", ("Id", "tolower", ()), [("Id", "x", ())]),
    ("List", [("Int", "1"), ("Int", "2")]),
    ("CLambda", ("Id", "items", ()), "Any", ("Lambda", ("Id", "i", ()), ("Compare", "Eq", gen.path_shape(1, "i", ["k"]), ("Int", "1")))),
    ("Str", "it's"), ("Bool", "true"), ("Null",), ("Id", "notes", ()), ("Id", "f", ("ns",)),
    ("Call", ("Id", "f", ("my",)), [("List", [("Id", "p", ()), ("Int", "2")])]),     # ONE argument that is a list
    ("Call", ("Id", "g", ("my",)), [("List", [("Id", "p", ())])]),
]
INLIST = ("List", [("Int", "1"), ("Id", "z", ())])


def _parse(text: str) -> Any:
    return ODataParser().parse(_LEX.tokenize(text))


def check(i: int, mode: int, args: tuple) -> bool:
    t = gen.build(SHAPES[i]["expr"], args)
    d = gen.decode(t)
    if mode == 0:
        text = refprint.render(d, full=False)
    elif mode == 1:
        text = refprint.render(d, full=True)
    else:
        text = "( " + refprint.render(d, full=True) + " )"   # explicit parentheses always win, BWS inside
    got = _parse(text)
    return gen.decode(got) == d


# ---------------------------------------------------------------- keyword-like operand names
# identifiers that merely start / end with (or contain) a keyword, in every operand position a printer can put them:
# the name is a symbolic pick per position, the operator next to it a symbolic choice.
KW_NAMES = ["order_id", "android", "notes", "nullx", "inx", "eqa", "true1", "falsey", "add1", "modx", "divx", "anyone",
            "all_", "geox", "xor", "band", "snot", "gea", "lty", "nex", "submul", "orand"]
KW_SHAPES: List[dict] = []
_N = ("$", None)


def _kw_forms() -> List[tuple]:
    op = ("#", None, gen.ALL_BIN)
    un = ("#", None, gen.UN_OPS)
    idn = ("Id", _N, ())
    return [
        ("left-operand", ("Bin", op, idn, ("Int", "1"))),
        ("right-operand", ("Bin", op, ("Int", "1"), idn)),
        ("both-operands", ("Bin", op, idn, idn)),
        ("unary-operand", ("Compare", "Eq", ("UnaryOp", un, idn), ("Int", "1"))),
        ("unary-then-binary", ("Bin", op, ("UnaryOp", un, idn), idn)),
        ("list-items", ("Compare", "In", idn, ("List", [("Int", "1"), idn, idn]))),
        ("list-first-item", ("Compare", "In", ("Id", "a", ()), ("List", [idn, ("Str", "s"), idn]))),
        ("call-args", ("Compare", "Eq", ("Call", ("Id", "concat", ()), [idn, idn]), ("Str", "s"))),
        ("call-arg-after-literal", ("Call", ("Id", "contains", ()), [("Str", "s"), idn])),
        ("custom-call-name", ("Compare", "Eq", ("Call", ("Id", _N, ("ns",)), [idn]), ("Int", "1"))),
        ("namespace-segment", ("Compare", "Eq", ("Call", ("Id", "f", (_N,)), [("Int", "1"), idn]), ("Int", "1"))),
        ("named-param", ("Compare", "Eq", ("Call", ("Id", "f", ("ns",)), [("NamedParam", ("Id", _N, ()), idn),
                                                                         ("NamedParam", ("Id", _N, ()), ("Int", "2"))]), ("Int", "1"))),
        ("path-segments", ("Bin", op, ("Attr", ("Attr", idn, _N), _N), ("Int", "1"))),
        ("path-right", ("Bin", op, ("Int", "1"), ("Attr", idn, _N))),
        ("lambda-body-start", ("CLambda", ("Id", "items", ()), ("#", None, ("Any", "All")),
                               ("Lambda", ("Id", "i", ()), ("Bin", op, idn, ("Attr", ("Id", "i", ()), "k"))))),
        ("lambda-variable", ("CLambda", ("Attr", ("Id", "a", ()), _N), ("#", None, ("Any", "All")),
                             ("Lambda", ("Id", ("$", 0), ()), ("Compare", "Eq", ("Attr", ("Id", ("$", 0), ()), _N), idn)))),
        ("bool-chain", ("BoolOp", ("#", None, gen.BOOL_OPS), ("Compare", "Eq", idn, ("Int", "1")),
                        ("BoolOp", ("#", None, gen.BOOL_OPS), idn, ("UnaryOp", "Not", idn)))),
    ]


def check_kw(i: int, mode: int, args: tuple) -> bool:
    sh = KW_SHAPES[i]
    vals = []
    for h, a in zip(sh["holes"], args):
        vals.append(gen.pick(KW_NAMES, a) if h[0] == "$" else a)
    t = gen.build(sh["expr"], tuple(vals))
    d = gen.decode(t)
    text = refprint.render(d, full=bool(mode))
    return gen.decode(_parse(text)) == d


def kw_product(run: Run, limit: int) -> None:
    """Supplement, labelled concrete: the full product names x names x operators of every form (all name holes vary
    independently up to two at a time), parsed outside CrossHair."""
    import random
    rng = random.Random(run.seed)
    n = bad = 0
    for i, sh in enumerate(KW_SHAPES):
        hs = sh["holes"]
        strs = [j for j, h in enumerate(hs) if h[0] == "$"]
        ops = [j for j, h in enumerate(hs) if h[0] == "#"]
        pairs = [(a, b) for a in strs for b in strs if a < b] or [(a, a) for a in strs]
        combos = []
        for a, b in pairs:
            for va in range(len(KW_NAMES)):
                for vb in range(len(KW_NAMES)):
                    combos.append((a, va, b, vb))
        rng.shuffle(combos)
        for a, va, b, vb in combos[:max(1, limit // len(KW_SHAPES) // 4)]:
            for opv in itertools.product(*[range(len(hs[j][2])) for j in ops]) if len(ops) <= 1 else \
                    [tuple(rng.randrange(len(hs[j][2])) for j in ops) for _ in range(4)]:
                args = [(n + 5 * j) % len(KW_NAMES) if h[0] == "$" else 0 for j, h in enumerate(hs)]
                args[a], args[b] = va, vb
                for j, v in zip(ops, opv):
                    args[j] = v
                for mode in (0, 1):
                    n += 1
                    try:
                        ok = check_kw(i, mode, tuple(args))
                    except Exception as e:  # noqa: BLE001
                        ok = False
                    if not ok and bad < 5:
                        bad += 1
                        vals = [KW_NAMES[x] if h[0] == "$" else h[2][x] for h, x in zip(hs, args)]
                        t = gen.build(sh["expr"], tuple(KW_NAMES[x] if h[0] == "$" else x for h, x in zip(hs, args)))
                        text = refprint.render(gen.decode(t), full=bool(mode))
                        run.violation(f"kw-product:{sh['form']}:{vals}", {"call": f"check_kw({i}, {mode}, {tuple(args)!r})", "args": [], "harness": "kw_product", "text": text,
                                                                        "how_to_replay": "parse(text) and compare with the tree that was printed"},
                                      f"{text!r} does not parse back to the tree it was printed from (keyword-like operand names)",
                                      "keyword-like-names(concrete product)")
    if not bad:
        run.discharged(f"kw-product: {n} renderings of {len(KW_SHAPES)} forms x name pairs x operators parse back", "keyword-like-names(concrete product)",
                       nontrivial=False)


def skeletons(k: int) -> List[Any]:
    """all skeletons with exactly k operator nodes: B = binary (13 ops), I = `in`, U = unary; leaves = None."""
    if k == 0:
        return [None]
    out = []
    for s in skeletons(k - 1):
        out.append(("U", s))
        out.append(("I", s))
    for kl in range(k):
        for l, r in itertools.product(skeletons(kl), skeletons(k - 1 - kl)):
            out.append(("B", l, r))
    return out


def to_shape(sk: Any, leaf_iter, fixed_top=None) -> Any:
    if sk is None:
        return next(leaf_iter)
    if sk[0] == "U":
        return ("UnaryOp", ("#", None, gen.UN_OPS), to_shape(sk[1], leaf_iter))
    if sk[0] == "I":
        return ("Compare", "In", to_shape(sk[1], leaf_iter), INLIST)
    op = ("#", None, gen.ALL_BIN) if fixed_top is None else fixed_top
    return ("Bin", op, to_shape(sk[1], leaf_iter), to_shape(sk[2], leaf_iter))


def prepare(tier: str, seed: int) -> None:
    SHAPES[:] = []
    KW_SHAPES[:] = []
    for name, form in _kw_forms():
        sh, hs = gen.renumber(form)
        KW_SHAPES.append({"form": name, "expr": sh, "holes": hs})
    maxk = 2 if tier == "quick" else 3
    n = 0
    for k in range(1, maxk + 1):
        for sk in skeletons(k):
            nb = repr(sk).count("'B'")
            # split the case analysis of big skeletons by the top operator so that it parallelises
            tops = [None]
            if sk[0] == "B" and nb >= 2:
                tops = list(gen.ALL_BIN)
            for top in tops:
                n += 1
                li = itertools.cycle(LEAVES[(n + seed) % len(LEAVES):] + LEAVES[:(n + seed) % len(LEAVES)])
                sh, hs = gen.renumber(to_shape(sk, li, fixed_top=top))
                SHAPES.append({"expr": sh, "holes": hs, "skeleton": repr(sk), "k": k, "top": top})
            # unary operators next to `in`: also with numeric literal operands (a sign may be glued to / hoisted into a
            # number), independent of the leaf rotation
            if "'U'" in repr(sk) and "'I'" in repr(sk) and k <= 2:
                for leaf in (("Int", "1"), ("Float", "1.5"), ("Int", "-1")):
                    sh, hs = gen.renumber(to_shape(sk, itertools.cycle([leaf, ("Id", "a", ())])))
                    SHAPES.append({"expr": sh, "holes": hs, "skeleton": repr(sk) + f" leaf={leaf[1]}", "k": k, "top": None})


def main() -> int:
    run = Run(PID, "model_checking")
    run.encode("odata_query.grammar.ODataLexer (tokenize)", "odata_query.grammar.ODataParser (LALR tables from `precedence` + "
               "productions, all grammar actions reached)", "odata_query.ast")
    prepare(run.tier, run.seed)
    quick = run.tier == "quick"
    run.bounds = {"operator nodes per tree": "<= 2 (quick) / <= 3 (thorough), every skeleton of binary / unary / in nodes",
                  "operators": "every assignment of the 13 binary operators and 2 unary operators to the skeleton's nodes "
                               "(symbolic), `in` with a list right operand",
                  "renderings": ["minimal parentheses", "full parentheses", "full + outer parentheses with inner blanks"],
                  "leaves": "rotating (seeded) over identifier, integer, path, call, list, lambda, string with quote, boolean, "
                            "null, keyword-prefixed identifier, namespaced identifier", "skeleton conditions": len(SHAPES)}
    run.outside = ["trees with more operator nodes than the bound", "other leaf combinations than the rotation used"]
    run.assumptions = ["reference printer implements OData 4.01 section 5.1.1.14 (verif/refprint.py)",
                       "text is concrete on each path: the solver's contribution is completeness of the case split"]
    items = []
    for i, sh in enumerate(SHAPES):
        params, pre, names = gen.signature(sh["holes"])
        argt = f"({', '.join(names)},)" if names else "()"
        for mode, mname in ((0, "min"), (1, "full"), (2, "outer")):
            if mode == 2 and i % (4 if quick else 3):
                continue
            if mode == 1 and not quick and sh["k"] == 3 and i % 2:
                continue        # thorough: the full-parentheses rendering of every second 3-operator skeleton
            items.append(Item(f"s{i}_{mname}", params, pre, f"check({i}, {mode}, {argt})",
                              describe={"skeleton": sh["skeleton"], "top": sh["top"], "rendering": mname},
                              family=f"k={sh['k']}:{mname}"))
    run.bounds["keyword-like names"] = {"names": KW_NAMES, "forms": [k["form"] for k in KW_SHAPES],
                                        "choice": "per obligation one (next to a symbolic operator) or two name holes are symbolic picks over all "
                                                  "names, the other holes take seeded names; one obligation per choice of the symbolic "
                                                  "holes; operators symbolic; minimal and full parentheses"}
    for i, sh in enumerate(KW_SHAPES):
        strs = [h for h in sh["holes"] if h[0] == "$"]
        # the case split per obligation stays below ~100 paths (a parse under CrossHair's tracer costs ~0.3 s): one name
        # hole is a symbolic pick over all names, every other name hole takes a seeded fixed name; one obligation per choice
        # of the symbolic hole; the exhaustive product is swept concretely in addition (kw_product)
        nsym = 1
        for r in range(max(1, len(strs))):
            sym = {strs[(r + j) % len(strs)][1] for j in range(min(nsym, len(strs)))} if strs else set()
            if r and len(sym) == len(strs):
                break           # every name hole is symbolic already
            fixed = {h[1]: (run.seed + 3 * j + 1) % len(KW_NAMES) for j, h in enumerate(strs) if h[1] not in sym}
            ps, pre, names = [], [], []
            for h in sh["holes"]:
                if h[1] in fixed:
                    names.append(str(fixed[h[1]]))
                    continue
                ps.append(f"x{h[1]}: int")
                if h[0] == "#" and len(h[2]) > 3 and quick:
                    w0 = (3 * (i + r + run.seed)) % len(h[2])
                    win = tuple(sorted({(w0 + j) % len(h[2]) for j in range(3)}))
                    pre.append(f"x{h[1]} in {win!r}")       # quick: a rotating window of 3 operators per obligation
                else:
                    pre.append(f"0 <= x{h[1]} < {len(KW_NAMES) if h[0] == '$' else len(h[2])}")
                names.append(f"x{h[1]}")
            for mode, mname in ((0, "min"), (1, "full")):
                if quick and mode and r:
                    continue
                items.append(Item(f"kw{i}_{r}_{mname}", ", ".join(ps), " and ".join(pre) or "True",
                                  f"check_kw({i}, {mode}, ({', '.join(names)},))",
                                  describe={"form": sh["form"], "rendering": mname, "symbolic name holes": sorted(sym)},
                                  family="keyword-like-names:" + mname))
    for sh in SHAPES[:3]:
        run.sample({"skeleton": sh["skeleton"], "shape": sh["expr"]})
    header = "from verif.props.c05 import check, check_kw\n"
    run_items(run, header, items, per_condition_timeout=120 if quick else 600,
              progress=bool(os.environ.get("VERIF_PROGRESS")))
    if not os.environ.get("VERIF_DEV_FAMILY") or "keyword" in os.environ["VERIF_DEV_FAMILY"]:
        kw_product(run, 20000 if quick else 400000)
    return run.finish()
