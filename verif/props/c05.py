"""C05 - the parser groups operators exactly as the OData precedence table dictates.

Engine B.  Per tree skeleton the operator at every internal node is a symbolic index (13 binary
operators, `in` with a list right operand, 2 unary operators).  The harness renders the tree with
the independent reference printer (verif/refprint.py: spec table only; minimal, full and mixed
parenthesisation), sends the text through the REAL lexer and parser and compares the decoded AST
with the tree that was printed.  On every path the text is concrete; CrossHair/z3 enumerate the
operator assignments and certify exhaustion of the case split ("Confirmed over all paths" = every
assignment for that skeleton) - finite-domain symbolic execution, stated as such.
"""
from __future__ import annotations

import itertools
import os
from typing import Any, List

from odata_query import ast
from odata_query.grammar import ODataLexer, ODataParser

from .. import gen, refprint
from ..common import Run
from ..harness import Item, run_items

PID = "C05"
SHAPES: List[dict] = []
_LEX = ODataLexer()

LEAVES = [
    ("Id", "a", ()), ("Int", "1"), gen.path_shape(1, "b", ["c"]), ("Call", ("Id", "tolower", ()), [("Id", "x", ())]),
    ("List", [("Int", "1"), ("Int", "2")]),
    ("CLambda", ("Id", "items", ()), "Any", ("Lambda", ("Id", "i", ()), ("Compare", "Eq", gen.path_shape(1, "i", ["k"]), ("Int", "1")))),
    ("Str", "it's"), ("Bool", "true"), ("Null",), ("Id", "notes", ()), ("Id", "f", ("ns",)),
]
INLIST = ("List", [("Int", "1"), ("Id", "z", ())])


def _parse(text: str) -> Any:
    return ODataParser().parse(_LEX.tokenize(text))


def check(i: int, mode: int, args: tuple) -> bool:
    t = gen.build(SHAPES[i]["expr"], args)
    d = gen.decode(t)
    if mode == 0:
        text = refprint.render(d, full=False)
    elif mode == 1:
        text = refprint.render(d, full=True)
    else:
        text = "( " + refprint.render(d, full=True) + " )"   # explicit parentheses always win, BWS inside
    got = _parse(text)
    return gen.decode(got) == d


def skeletons(k: int) -> List[Any]:
    """all skeletons with exactly k operator nodes: B = binary (13 ops), I = `in`, U = unary; leaves = None."""
    if k == 0:
        return [None]
    out = []
    for s in skeletons(k - 1):
        out.append(("U", s))
        out.append(("I", s))
    for kl in range(k):
        for l, r in itertools.product(skeletons(kl), skeletons(k - 1 - kl)):
            out.append(("B", l, r))
    return out


def to_shape(sk: Any, leaf_iter, fixed_top=None) -> Any:
    if sk is None:
        return next(leaf_iter)
    if sk[0] == "U":
        return ("UnaryOp", ("#", None, gen.UN_OPS), to_shape(sk[1], leaf_iter))
    if sk[0] == "I":
        return ("Compare", "In", to_shape(sk[1], leaf_iter), INLIST)
    op = ("#", None, gen.ALL_BIN) if fixed_top is None else fixed_top
    return ("Bin", op, to_shape(sk[1], leaf_iter), to_shape(sk[2], leaf_iter))


def prepare(tier: str, seed: int) -> None:
    SHAPES[:] = []
    maxk = 2 if tier == "quick" else 3
    n = 0
    for k in range(1, maxk + 1):
        for sk in skeletons(k):
            nb = repr(sk).count("'B'")
            # split the case analysis of big skeletons by the top operator so that it parallelises
            tops = [None]
            if sk[0] == "B" and nb >= 2:
                tops = list(gen.ALL_BIN)
            for top in tops:
                n += 1
                li = itertools.cycle(LEAVES[(n + seed) % len(LEAVES):] + LEAVES[:(n + seed) % len(LEAVES)])
                sh, hs = gen.renumber(to_shape(sk, li, fixed_top=top))
                SHAPES.append({"expr": sh, "holes": hs, "skeleton": repr(sk), "k": k, "top": top})
            # unary operators next to `in`: also with numeric literal operands (a sign may be glued to / hoisted into a
            # number), independent of the leaf rotation
            if "'U'" in repr(sk) and "'I'" in repr(sk) and k <= 2:
                for leaf in (("Int", "1"), ("Float", "1.5"), ("Int", "-1")):
                    sh, hs = gen.renumber(to_shape(sk, itertools.cycle([leaf, ("Id", "a", ())])))
                    SHAPES.append({"expr": sh, "holes": hs, "skeleton": repr(sk) + f" leaf={leaf[1]}", "k": k, "top": None})


def main() -> int:
    run = Run(PID, "model_checking")
    run.encode("odata_query.grammar.ODataLexer (tokenize)", "odata_query.grammar.ODataParser (LALR tables from `precedence` + "
               "productions, all grammar actions reached)", "odata_query.ast")
    prepare(run.tier, run.seed)
    quick = run.tier == "quick"
    run.bounds = {"operator nodes per tree": "<= 2 (quick) / <= 3 (thorough), every skeleton of binary / unary / in nodes",
                  "operators": "every assignment of the 13 binary operators and 2 unary operators to the skeleton's nodes "
                               "(symbolic), `in` with a list right operand",
                  "renderings": ["minimal parentheses", "full parentheses", "full + outer parentheses with inner blanks"],
                  "leaves": "rotating (seeded) over identifier, integer, path, call, list, lambda, string with quote, boolean, "
                            "null, keyword-prefixed identifier, namespaced identifier", "skeleton conditions": len(SHAPES)}
    run.outside = ["trees with more operator nodes than the bound", "other leaf combinations than the rotation used"]
    run.assumptions = ["reference printer implements OData 4.01 section 5.1.1.14 (verif/refprint.py)",
                       "text is concrete on each path: the solver's contribution is completeness of the case split"]
    items = []
    for i, sh in enumerate(SHAPES):
        params, pre, names = gen.signature(sh["holes"])
        argt = f"({', '.join(names)},)" if names else "()"
        for mode, mname in ((0, "min"), (1, "full"), (2, "outer")):
            if mode == 2 and (quick and i % 4):
                continue
            items.append(Item(f"s{i}_{mname}", params, pre, f"check({i}, {mode}, {argt})",
                              describe={"skeleton": sh["skeleton"], "top": sh["top"], "rendering": mname},
                              family=f"k={sh['k']}:{mname}"))
    for sh in SHAPES[:3]:
        run.sample({"skeleton": sh["skeleton"], "shape": sh["expr"]})
    header = "from verif.props.c05 import check\n"
    run_items(run, header, items, per_condition_timeout=120 if quick else 600,
              progress=bool(os.environ.get("VERIF_PROGRESS")))
    return run.finish()
