"""C01 - the SQLite WHERE clause selects exactly the rows the OData filter denotes.

Engine C, interpreted mode (DESIGN.md sections 3 and 4).  Per generated filter the REAL pipeline
`AstToSqliteSqlVisitor().visit(ODataParser().parse(ODataLexer().tokenize(text)))` is run, the emitted text is parsed
by the independent SQL parser, and z3 decides over *every* row of t(id, a, b INT NULL; s, u TEXT NULL; f BOOL NULL)
(and every value of the filter's integer literals) whether the SQLite model of the text and the OData reference of
the intended tree agree.  `sat` is replayed on a real in-memory sqlite3 before it is reported.
"""
from __future__ import annotations

import os
import random
import sys
import time
from multiprocessing import get_context
from typing import Any, Dict, List, Tuple

from ..common import DISCHARGED, VIOLATION, Run
from ..sqlsmt import filtergen as G
from ..sqlsmt import regions, selftest, tv, validate
from ..sqlsmt import values as V
from ..sqlsmt.sqlite_model import MODELLED_FUNCTIONS

PID = "C01"
# The SQLite dialect renders round(x) as TRUNC(x + 0.5), wrong for every argument <= -1/2: known finding
# sqlite-round-trunc-negative (dynamic region in regions.py); round outside that region is still checked.
ROUND_IN_C01 = True
REPLAYS_PER_CLASS = 3


# ---------------------------------------------------------------------- programs
def build_items(tier: str, seed: int) -> Tuple[List[dict], Dict[str, Any]]:
    rng = random.Random(seed)
    quick = tier == "quick"
    items: List[dict] = []
    info: Dict[str, Any] = {}
    seen = set()

    def add(fam: str, term, mode: str = "abstract", full: bool = False, values=None):
        key = (repr(term), mode, full, tuple(values or ()))
        if key in seen:
            return
        seen.add(key)
        items.append({"name": f"p{len(items)}", "family": fam, "term": term, "mode": mode, "full": full,
                      "values": values})

    for fam, term in G.special_families():
        add(fam, term)
    for fam, term in G.same_field_chains():
        add(fam, term)
    for fam, term in G.real_family(with_round=ROUND_IN_C01):
        add(fam, term)
    before = len(items)
    for fam, term in G.deep_bool((2, 3, 4), G.bool_atoms(), rng, {4: 300} if quick else {}):
        add(fam, term)
    for fam, term in G.deep_arith((2, 3), rng, {3: 250} if quick else {}):
        add(fam, term)
    for it in items[before:]:
        it["extra_alphabet"] = "()"          # the string atoms contain parentheses
    n_special = len(items)
    reduced = G.Cfg(G.scalar_leaves(["a", "%"]))
    for n in (0, 1):
        for t in reduced.terms("bool", n):
            add(f"size{n}", t)
    info["exhaustive"] = {"size0": reduced.count("bool", 0), "size1": reduced.count("bool", 1),
                          "leaf_pool": "a b <int literal> | s u 'a' '%' | f true false"}
    size2 = reduced.terms("bool", 2)
    take2 = len(size2) if not quick else 1400
    for t in G.sample(size2, take2, rng):
        add("size2", t)
    info["size2"] = {"total": len(size2), "taken": min(take2, len(size2))}
    core = G.Cfg(G.scalar_leaves(G.STR_POOL_CORE))
    full_pool = G.Cfg(G.scalar_leaves(G.STR_POOL_FULL))
    plan = {3: 1200, 4: 500, 5: 200, 6: 60} if quick else {3: 30000, 4: 18000, 5: 9000, 6: 4000, 7: 1500}
    for n, cnt in plan.items():
        for i in range(cnt):
            cfg = core if i % 3 else full_pool
            try:
                add(f"size{n}", cfg.random_term(rng, "bool", n))
            except KeyError:
                continue
    info["sampled"] = plan
    # redundant parentheses (same tree, other text) and concrete integer literals on a sample
    pool = [it for it in items if it["family"] not in ("strlit",)]
    for it in G.sample(pool, 200 if quick else 8000, rng):
        add(it["family"] + "+fullparens", it["term"], full=True)
    with_ints = [it for it in items if G.int_slots(it["term"]) and not it["full"]]
    small = [0, 1, 2, -1, 3, -2, 8, -8]
    for it in G.sample(with_ints, 300 if quick else 8000, rng):
        k = G.int_slots(it["term"])
        add(it["family"] + "+concrete", it["term"], mode="concrete", values=[rng.choice(small) for _ in range(k)])
    info["special_families"] = n_special
    return items, info


# ---------------------------------------------------------------------- defect class labels (reporting only)
def classify(r: dict) -> str:
    f = set(r.get("features", []))
    sql = r.get("sql") or (r.get("witness") or {}).get("sql") or ""
    w = r.get("witness") or {}
    if "unary-minus" in f and "None" in str(w.get("sql", sql)):
        return "unary-minus-renders-None"
    if r.get("illformed_kind") == "unterminated-literal" or "like-literal-quote" in f:
        return "like-pattern-quote-not-doubled"
    if r.get("illformed_kind"):
        return "ill-formed:" + r["illformed_kind"]
    if "arith-needs-parens" in f:
        return "arithmetic-operand-not-parenthesised"
    if "indexof-as-arith-operand" in f:
        return "indexof-template-not-parenthesised"
    if "null-on-left" in f:
        return "null-literal-on-left"
    if "boolfunc-on-right-of-compare" in f:
        return "predicate-on-right-of-comparison-not-parenthesised"
    if "like-literal-wildcard" in f:
        return "like-literal-wildcard-not-escaped"
    if "not-as-compare-operand" in f:
        return "not-operand-of-comparison-not-parenthesised"
    row = w.get("row") or {}
    if "like-nonliteral-pattern" in f and any(isinstance(v, str) and ("%" in v or "_" in v) for v in row.values()):
        return "like-nonliteral-pattern-wildcards"
    if any(x in f for x in ("fn:contains", "fn:startswith", "fn:endswith")):
        return "sqlite-like-ascii-case-insensitive"
    return "other"


# ---------------------------------------------------------------------- main
def _work(item: dict) -> dict:
    if item.get("kind") == "validate":
        return {"kind": "validate", "result": validate.run_task(item["task"], item["seed"])}
    return tv.check_program(item)


def _clear_replays() -> None:
    from ..common import REPLAY_DIR
    d = REPLAY_DIR / PID
    if d.is_dir():
        for f in d.glob("*.json"):
            f.unlink()


def main() -> int:
    run = Run(PID, "translation_validation")
    _clear_replays()                      # replay files are regenerated by every run of this property
    quick = run.tier == "quick"
    progress = bool(os.environ.get("VERIF_PROGRESS"))
    run.encode("odata_query.grammar.ODataLexer.tokenize", "odata_query.grammar.ODataParser.parse",
               "odata_query.visitor.NodeVisitor.visit", "odata_query.sql.sqlite.AstToSqliteSqlVisitor.visit")
    try:
        from odata_query.sql import AstToSqliteSqlVisitor
        run.encode(*sorted(f"AstToSqliteSqlVisitor.{n}" for n in dir(AstToSqliteSqlVisitor)
                           if n.startswith(("visit_", "sqlfunc_", "_to_pattern"))))
    except Exception as e:                                     # noqa: BLE001
        print(f"[{PID}] cannot import the SQLite dialect: {e}")
        run.notes.append(f"import failed: {e}")
        return run.finish()

    # ---- known findings: replay the witness first, honour the region only if it still fails
    active: List[str] = []
    for entry in run.known:
        rid = entry.get("id", "")
        if rid not in regions.DYNAMIC and rid not in regions.STATIC:
            run.notes.append(f"known finding {rid!r}: no region predicate implemented, nothing excluded")
            continue
        try:
            still, what = tv.replay_known_witness(entry["witness"])
        except Exception as e:                                 # noqa: BLE001
            still, what = False, f"witness could not be replayed: {type(e).__name__}: {e}"
        if still:
            run.known_finding(entry, what, name=f"known-witness:{rid}", family="known")
            active.append(rid)
        else:
            run.notes.append(f"known finding {rid!r} no longer reproduces ({what}); its region is NOT excluded")

    items, info = build_items(run.tier, run.seed)
    # adaptive alphabet: characters the live visitor introduces itself (e.g. a non-alphabet ESCAPE character) are added
    # to the value alphabet of an extra family of programs whose needles contain them
    extra = tv.discover_extra_alphabet(("sqlite",))
    info["adaptive_alphabet"] = extra
    for fam, term in G.adaptive_family(extra):
        items.append({"name": f"p{len(items)}", "family": fam, "term": term, "mode": "abstract", "full": False,
                      "values": None, "extra_alphabet": extra})
    timeout_ms = 10000 if quick else 60000
    for it in items:
        it["regions"] = active
        it["timeout_ms"] = timeout_ms
    vtasks = [{"kind": "validate", "task": t, "seed": run.seed} for t in validate.tasks()]
    # self-test mutants of the visitor (in memory): the machinery must report each of them
    mut_items = [{"name": f"m{i}", "family": "selftest", "term": term, "mutant": mname, "regions": [],
                  "timeout_ms": timeout_ms}
                 for i, (mname, term) in enumerate(selftest.FILTERS) if mname in selftest.C01_MUTANTS]
    mut_items += [dict(it, name=it["name"] + "b", mutant=None) for it in mut_items]     # unmutated twin must pass
    run.bounds = {
        "table": "t(id INT PK, a INT NULL, b INT NULL, s TEXT NULL, u TEXT NULL, f BOOL NULL), 1 row slot, every cell symbolic",
        "integers": f"cells and filter literals in [{V.INT_LO}, {V.INT_HI}] (literals symbolic via sentinels), 16-bit "
                    "intermediates with no-overflow side conditions",
        "strings": f"cells: length <= {V.CELL_CAP} over {V.ALPH!r}; literals <= 2 characters over the same alphabet; "
                   "intermediates up to the sum of their parts",
        "filters": info, "programs": len(items), "z3_timeout_ms": timeout_ms,
    }
    run.outside = ["floats, date/time, round/floor/ceiling, geo, lambdas, navigation (not in the scalar fragment)",
                   "division / modulo by zero", "substring start outside [0, length] or negative count",
                   "strings longer than 3 or outside the alphabet, integers outside [-8, 8] or overflowing 16 bits",
                   "null inside in-lists", "filters larger than the sampled sizes"]
    run.assumptions = [
        "reference semantics: three-valued logic, only true rows kept; comparisons with a null operand are unknown, "
        "except the literal tests `x eq null`, `x ne null`, `null eq x`",
        "integer `div` truncates toward zero and `mod` takes the sign of the dividend (OData integer semantics)",
        "divisor != 0 (SQLite yields NULL; OData leaves it open)",
        "substring(s, i[, n]): 0 <= i <= length(s), n >= 0",
        "no 16-bit overflow in any intermediate (real engines use 64 bits; values are in [-8, 8])",
        "the visitor copies integer literals opaquely (spot-checked per program by rendering with two sentinel "
        "families; programs failing the check are verified with concrete literals instead)",
        "OData string comparison is ordinal (code-point order), `in` is a disjunction of `eq`",
        "SQLite model validated against the real sqlite3 on every run (see model_validation)",
    ]

    # ---- run everything in the pool
    counts: Dict[str, int] = {}
    outside_reasons: Dict[str, int] = {}
    refused: Dict[str, int] = {}
    classes: Dict[str, List[dict]] = {}
    val_rows = val_tasks = 0
    val_ops: set = set()
    nproc = min(16, os.cpu_count() or 4)
    t0 = time.time()
    ctx = get_context("fork")
    results: List[dict] = []
    with ctx.Pool(nproc) as pool:
        work = vtasks + mut_items + items
        for i, r in enumerate(pool.imap_unordered(_work, work, chunksize=4)):
            results.append(r)
            if progress and i % 200 == 0:
                print(f"[{PID}] {i}/{len(work)} {time.time() - t0:.0f}s", file=sys.stderr, flush=True)
    results.sort(key=lambda r: (r.get("kind", ""), r.get("name", "")[:1], int("".join(ch for ch in r.get("name", "p0") if ch.isdigit()) or 0)))

    for r in results:
        if r.get("kind") == "validate":
            v = r["result"]
            val_tasks += 1
            val_rows += v["rows"]
            val_ops.update(v.get("ops", []))
            if v["mismatches"]:
                run.harness_error(f"model-validation:{v['expr']}", "model-validation", v["mismatches"][:3])
            continue
        st = r["status"]
        if r.get("family") == "selftest":
            mname = r.get("mutant")
            nm = f"selftest:{mname or 'unmutated'}:{r.get('filter')}"
            if mname and st == "violation":
                run.discharged(nm, "selftest", r["solver_s"], detail={"mutant_sql": r["witness"].get("sql"),
                                                                       "row": r["witness"].get("row")}, nontrivial=False)
            elif not mname and st == "discharged":
                run.discharged(nm, "selftest", r["solver_s"], nontrivial=False)
            else:
                run.harness_error(nm, "selftest", f"self-test expected {'a violation' if mname else 'unsat'}, got {st}: "
                                                  f"{r.get('why') or r.get('what')}")
            continue
        counts[st] = counts.get(st, 0) + 1
        name = f"{r['name']}:{r.get('filter', '?')}"
        fam = r.get("family", "")
        if "reuse" in r:
            if r["reuse"] is None:
                run.discharged(name + ":reuse", "instance-reuse(call-history sweep)", nontrivial=False)
            else:
                wr = r["reuse"]
                lst = classes.setdefault("visitor-instance-reuse", [])
                lst.append({"witness": wr, "what": "reused visitor differs"})
                what = (f"[visitor-instance-reuse] a visitor instance that had translated {wr['calls_before']} other filters "
                        f"renders {wr['filter']!r} as {wr['reused_visitor'][1]!r}, a fresh one as {wr['fresh_visitor'][1]!r}")
                if len(lst) <= REPLAYS_PER_CLASS:
                    run.violation(name + ":reuse", wr, what, "instance-reuse(call-history sweep)")
                else:
                    run.add(name + ":reuse", VIOLATION, "instance-reuse(call-history sweep)", {"what": what})
        if st == "discharged":
            run.discharged(name, fam, r["solver_s"], detail={"sql": r.get("sql"), "modulo": r.get("modulo")})
        elif st == "known":
            entry = next(e for e in run.known if e.get("id") == r["known_id"])
            run.known_finding(entry, f"program inside region {r['known_id']}", name=name, family=fam,
                              detail={"sql": r.get("sql")})
        elif st == "violation":
            cls = classify(r)
            r["class"] = cls
            lst = classes.setdefault(cls, [])
            lst.append(r)
            r["witness"]["defect_class"] = cls
            if len(lst) <= REPLAYS_PER_CLASS:
                run.violation(name, r["witness"], f"[{cls}] {r['what']}", fam, r["solver_s"])
            else:
                run.add(name, VIOLATION, fam, {"what": f"[{cls}] {r['what']}", "witness": r["witness"]}, r["solver_s"])
        elif st == "inconclusive":
            run.inconclusive(name, fam, r.get("why"), r["solver_s"])
        elif st == "harness_error":
            run.harness_error(name, fam, {"why": r.get("why"), "witness": r.get("witness"), "sql": r.get("sql")})
        elif st == "outside":
            why = (r.get("why") or "").split(":")[0][:80]
            outside_reasons[r.get("why", "?")[:100]] = outside_reasons.get(r.get("why", "?")[:100], 0) + 1
        elif st in ("refused", "parser_rejected", "crash", "parser_crash"):
            key = f"{st}: {(r.get('why') or '').split(':')[0]}"
            refused[key] = refused.get(key, 0) + 1
            if st in ("crash", "parser_crash", "parser_rejected") and len(run.notes) < 30:
                run.notes.append(f"{st}: {r.get('filter')!r}: {r.get('why')}")
        if st in ("discharged", "violation") and r.get("filter"):
            run.sample({"filter": r["filter"], "sql": r.get("sql"), "verdict": st}, cap=12)

    for cls, lst in sorted(classes.items()):
        if len(lst) > REPLAYS_PER_CLASS:
            print(f"  ... {len(lst) - REPLAYS_PER_CLASS} more replayed violations of class [{cls}] (see evidence)", flush=True)

    pinned = validate.validate_parser_on_pinned(str(run_repo()))
    if pinned["broken"]:
        run.harness_error("parser-roundtrip-on-pinned-sql", "model-validation", pinned["broken"][:3])
    run.traces_validated = val_rows
    run.programs = len(items)
    run.disagreements_checked = counts.get("violation", 0) + counts.get("harness_error", 0)
    minimal = {}
    for cls, lst in classes.items():
        best = min(lst, key=lambda r: (len(r["witness"]["filter"]), r["witness"]["filter"]))
        minimal[cls] = {"count": len(lst), "filter": best["witness"]["filter"], "sql": best["witness"].get("sql", best["witness"].get("reused_visitor")),
                        "row": best["witness"].get("row"), "what": best["what"],
                        "more_filters": sorted({r["witness"]["filter"] for r in lst}, key=lambda x: (len(x), x))[1:25]}
    run.extra.update({
        "rule": "one evaluation = one program (filter text through the live pipeline) decided by one z3 query over "
                "all rows and literal values; distinct = distinct filter texts",
        "program_verdicts": counts,
        "sat_replayed": counts.get("violation", 0), "unsat": counts.get("discharged", 0),
        "refused_by_dialect": refused, "outside_encoded_fragment": sum(outside_reasons.values()),
        "outside_reasons": dict(sorted(outside_reasons.items(), key=lambda kv: -kv[1])[:15]),
        "violation_classes": minimal,
        "known_regions_active": active,
        "model_validation": {"expressions": val_tasks, "rows_compared_with_sqlite3_or_python": val_rows,
                             "sqlite_operators_validated": sorted(val_ops),
                             "sqlite_functions_modelled": MODELLED_FUNCTIONS,
                             "parser_on_pinned_sql": {"parsed_and_roundtripped": pinned["ok"],
                                                      "rejected": pinned["rejected"]}},
    })
    print(f"[{PID}] programs={len(items)} " + " ".join(f"{k}={v}" for k, v in sorted(counts.items())) +
          f" validation_rows={val_rows}", flush=True)
    return run.finish()


def run_repo():
    from ..common import REPO
    return REPO


def replay(data: dict) -> int:
    """Re-run one replay file (as written by Run.violation) on the live code and the real sqlite3.
    Returns 1 if the counterexample still reproduces, 0 if not."""
    w = data["witness"]
    if "history" in w:
        res = tv.replay_history(w["history"], w["dialect"], w.get("alias"))
        print(("REPRODUCED: " if res["reproduced"] else "not reproduced: ") + f"after {len(w['history']) - 1} earlier calls the "
              f"instance renders {w['filter']!r} as {res['last']}, a fresh visitor as {res['fresh']}")
        return 1 if res["reproduced"] else 0
    still, what = tv.replay_known_witness(w)
    print(("REPRODUCED: " if still else "not reproduced: ") + what)
    return 1 if still else 0
