"""C19 - whitespace layout and keyword case do not change the meaning of a filter.

This module currently holds the *lexer layer* (Engine A, z3 over symbolic characters) and the token-action layer
(Engine B, CrossHair); the parser / backend layers are added by `main` later.

lexer_layer(run):
  (a) ASCII case-flip invariance of lex1 = (kind, extent) over two coupled symbolic texts;
  (b) for every operator keyword and all white-space runs w1, w2 of 1..3 characters (every white-space character of the
      working alphabet): lex1(w1.op.w2.x) = (OP, |w1|+|op|+|w2|) for every non-space x; `not`.w; a leading white-space run
      is the WS token of exactly the maximal run (or the start of an operator token);
  (c) token actions give equal values for spellings that differ in letter case where the property demands it.
"""
from __future__ import annotations

import os
import re
from typing import List, Optional

from .. import lexspec as ls
from .. import rexcirc as rx
from ..common import REPO, Run
from ..harness import Item, run_items
from . import c06 as _v

PID = "C19"
N_CASE = 16
N_WS = 16
# thorough tier: lex1-level case flip at N = 24, per-rule case-flip lemmas at N = 44, white-space runs 1..4 at N = 20
N_CASE_T, N_LEMMA_T, N_WS_T = 24, 44, 20


def tier_bounds(tier: str):
    return (N_CASE, None, N_WS, 3) if tier == "quick" else (N_CASE_T, N_LEMMA_T, N_WS_T, 4)


def lexer_obligations(sess: rx.Session, tier: str) -> List[rx.Obligation]:
    obs: List[rx.Obligation] = []
    layout = ls.layout_chars(sess.alphabet.chars)
    n_case, n_lemma, n_ws, runs = tier_bounds(tier)
    n_case = n_case if n_case in sess.engines else min(sess.engines)
    n_ws = n_ws if n_ws in sess.engines else min(sess.engines)
    obs.append(rx.ob_caseflip(sess, f"caseflip:lex1[N={n_case}]", "case", n_case))
    if n_lemma is not None and n_lemma in sess.engines:
        for nm in sess.engines[n_lemma].names:
            obs.append(rx.ob_caseflip_rule(sess, f"caseflip-lemma[N={n_lemma}]:{nm}", "case-lemma(per rule)", n_lemma, nm))
    for op, kind in ls.BINARY_OPERATORS.items():
        obs.append(rx.ob_operator(sess, f"layout:{op}", "whitespace", n_ws, op, kind, layout, runs, layout=layout))
    for op, kind in ls.PREFIX_OPERATORS.items():
        obs.append(rx.ob_operator(sess, f"layout:{op}", "whitespace", n_ws, op, kind, layout, runs, leading_ws=False, layout=layout))
    # a literal / lambda keyword directly followed by each character that may legally follow it is the keyword token
    after_literal = layout + "),"
    for word, kind in (("true", "BOOLEAN"), ("false", "BOOLEAN"), ("null", "NULL")):
        obs.append(rx.ob_accept(sess, f"keyword-delimiter:{word}", "keyword-delimiter", n_ws, kind, word, after_literal))
    for word, kind in (("any", "ANY"), ("all", "ALL")):
        obs.append(rx.ob_accept(sess, f"keyword-delimiter:{word}", "keyword-delimiter", n_ws, kind, word, "("))
    obs.append(rx.ob_ws_token(sess, "layout:WS-maximal-run", "whitespace", n_ws, "WS", layout,
                              also=list(ls.BINARY_OPERATORS.values())))
    obs.sort(key=lambda o: -o.N)
    return obs


MUTANTS = [
    rx.Mutant("drop re.IGNORECASE", lambda sp: rx.respec(sp, flags=sp.flags & ~re.I), ["caseflip:"]),
    rx.Mutant("eq with literal spaces", rx.edit_replace(r"\s+eq\s+", " eq "), ["layout:eq"]),
    rx.Mutant("not with one literal space", rx.edit_replace(r"not\s+", "not "), ["layout:not"]),
    rx.Mutant("WS rule matches a single character", rx.edit_replace(r"(?P<WS>\s+)", r"(?P<WS>\s)"), ["layout:WS"]),
]


def lexer_layer(run: Run, sess: Optional[rx.Session] = None, progress: bool = False) -> Optional[rx.Session]:
    """Adds the Engine A obligations of C19 to `run`.  Returns the session (None when the lexer is not encodable)."""
    tier = run.tier
    if sess is None:
        try:
            sess = rx.Session(run, {b for b in tier_bounds(tier)[:3] if b})
            sess.fill(run)
            sess.validate(run, str(REPO / "tests"), 400 if tier == "quick" else 4000)
        except rx.NotEncodable as e:
            print(f"[{run.pid}] the current lexer cannot be encoded: {e}", flush=True)
            run.inconclusive("encode-lexer", "encode", f"not encodable: {e}")
            return None
    layout = ls.layout_chars(sess.alphabet.chars)
    n_case, n_lemma, n_ws, runs = tier_bounds(tier)
    run.bounds.update({"lexer_text_length_N": {"case flip of lex1": n_case, "per-rule case-flip lemmas": n_lemma, "white space": n_ws},
                       "whitespace_run_length": f"1..{runs} on each side of an operator",
                       "whitespace_characters": [f"U+{ord(c):04X}" for c in layout],
                       "case_flips": "any subset of ASCII letter positions (two coupled symbolic texts)"})
    run.outside += [f"texts longer than {n_case} characters for the lex1-level case-flip obligation (thorough tier: the per-rule "
                    "lemmas, which together imply it, reach N = 44)",
                    f"white-space runs longer than {runs} next to an operator (the WS-maximal-run obligation covers runs up to {n_ws})"]
    sess.drive(lexer_obligations(sess, tier), timeout=120 if tier == "quick" else 600, progress=progress)
    # white-space runs are unbounded in the reference (RWS = 1*(SP / HTAB ...)): a counted repeat {m,n} with n beyond the text
    # bound in an operator / WS rule is replayed with n + 1 white-space characters (structure + replay, not a solver verdict)
    ws_refs = {kind: (r"\s+" + op + r"\s+", re.I) for op, kind in ls.BINARY_OPERATORS.items()}
    ws_refs.update({kind: (op + r"\s+", re.I) for op, kind in ls.PREFIX_OPERATORS.items()})
    ws_refs["WS"] = (r"\s+", 0)
    rx.check_repeat_caps(run, sess, n_ws if n_ws in sess.engines else min(sess.engines), list(ws_refs), {}, ws_refs)
    if tier == "thorough" or os.environ.get("VERIF_SELFTEST"):
        rx.selftest(run, sess.spec, MUTANTS, {N_CASE, N_WS}, [], lambda s2: lexer_obligations(s2, "quick"), timeout=120, progress=progress)
    return sess


# ====================================================================================================
# (c) Engine B: token actions on case variants
# ====================================================================================================
def c_boolean(word: int, mask: int) -> bool:
    w = ("true", "false")[word]
    return _v.action("BOOLEAN", _v.spell(w, mask)).value.py_val is _v.action("BOOLEAN", w).value.py_val


def c_null(mask: int) -> bool:
    return _v.action("NULL", _v.spell("null", mask)).value == _v.action("NULL", "null").value


DUR_BODY = "P1Y2M3DT4H5M6.5S"


def c_duration_prefix(mask: int) -> bool:
    a = _v.action("DURATION", _v.spell("duration", mask) + "'" + DUR_BODY + "'").value
    b = _v.action("DURATION", "duration'" + DUR_BODY + "'").value
    return a == b and a.py_val == b.py_val and a.unpack() == b.unpack()


def c_duration_designators(sign: int, mask: int) -> bool:
    body = ("", "+", "-")[sign] + DUR_BODY
    k = 0
    out = []
    for ch in body:
        if ch.isalpha():
            out.append(ch.lower() if (mask >> k) & 1 else ch)
            k += 1
        else:
            out.append(ch)
    a = _v.action("DURATION", "duration'" + "".join(out) + "'").value
    b = _v.action("DURATION", "duration'" + body + "'").value
    return a == b and a.py_val == b.py_val and a.unpack() == b.unpack()


FLOATS = ("1e3", "1.5e3", "2e-2", "0.25e+1", "12e0")


def c_exponent(i: int) -> bool:
    lo = _v.action("DECIMAL", FLOATS[i]).value
    up = _v.action("DECIMAL", FLOATS[i].upper()).value
    return lo.py_val == up.py_val and type(up) is type(lo)


DATETIMES = ("2020-02-29T10:00:00Z", "2020-02-29T10:00Z", "2020-02-29T23:59:59.123456Z", "2020-02-29T10:00:00+05:30",
             "2020-02-29T10:00:00",
             # 7..12 fractional digits (more than Python's microseconds): with Z, with an offset, without a zone
             "2020-02-29T23:59:58.1234567Z", "2020-02-29T23:59:58.123456789Z", "2020-02-29T23:59:58.123456789012Z",
             "2020-02-29T23:59:58.1234567+05:30", "2020-02-29T23:59:58.123456789012-23:59", "2020-02-29T23:59:58.1234567",
             "2020-02-29T23:59:58.12345678901")


def c_datetime(i: int, tcase: int, zcase: int) -> bool:
    s = DATETIMES[i]
    v = s.replace("T", "t") if tcase else s
    v = v.replace("Z", "z") if zcase else v
    na, nb = _v.action("DATETIME", v).value, _v.action("DATETIME", s).value
    a, b = na.py_val, nb.py_val
    # equal value, and equal literal text up to the case of the designators (the text is what the SQL backends emit)
    return a == b and a.utcoffset() == b.utcoffset() and _v.same_str(nb.val.upper(), na.val.upper())


GUID_TXT = "abcdefab-cdef-abcd-efab-cdefabcdefab"


def c_guid(mask: int) -> bool:
    """the case of (a symbolic choice of) 8 hex letters does not change GUID.py_val"""
    pos = (0, 5, 9, 14, 19, 24, 30, 35)
    chars = list(GUID_TXT)
    for k, p in enumerate(pos):
        if (mask >> k) & 1:
            chars[p] = chars[p].upper()
    return _v.action("GUID", "".join(chars)).value.py_val == _v.action("GUID", GUID_TXT).value.py_val


def c_operator(kind_i: int, mask: int) -> bool:
    """operator / lambda keyword tokens carry the same AST value for every case spelling"""
    word, kind = OPERATOR_WORDS[kind_i]
    lex = (" " if kind not in ("NOT", "ANY", "ALL") else "") + _v.spell(word, mask) + (" " if kind not in ("ANY", "ALL") else "")
    ref = (" " if kind not in ("NOT", "ANY", "ALL") else "") + word + (" " if kind not in ("ANY", "ALL") else "")
    a, b = _v.action(kind, lex), _v.action(kind, ref)
    return a.type == b.type == kind and a.value == b.value


OPERATOR_WORDS = list(ls.BINARY_OPERATORS.items()) + list(ls.PREFIX_OPERATORS.items()) + [("any", "ANY"), ("all", "ALL")]


def case_items(tier: str) -> List[Item]:
    it: List[Item] = []
    for word in range(2):
        it.append(Item(f"case_boolean_{('true', 'false')[word]}", "x0: int", f"0 <= x0 <= {(15, 31)[word]}", f"c_boolean({word}, x0)",
                       family="case-value", describe="Boolean.py_val identical for every case spelling (TRUE/True/true ...)"))
    it.append(Item("case_null", "x0: int", "0 <= x0 <= 15", "c_null(x0)", family="case-value", describe="NULL in any case is ast.Null()"))
    for hi in range(4):
        it.append(Item(f"case_duration_prefix_{hi}", "x0: int", "0 <= x0 <= 63", f"c_duration_prefix(x0 | ({hi} << 6))",
                       family="case-value", describe="duration prefix in every case spelling: equal node, unpack and py_val"))
    for sign in range(3):
        for hi in range(4 if tier != "quick" or sign == 0 else 1):
            it.append(Item(f"case_duration_designators_s{sign}_{hi}", "x0: int", "0 <= x0 <= 63",
                           f"c_duration_designators({sign}, x0 | ({hi} << 6))", family="case-value",
                           describe="duration designators P Y M D T H M S in every lower/upper combination: equal node, unpack, py_val"
                                    + ("" if tier != "quick" or sign == 0 else " (signed: P and Y M D T H fixed subset)")))
    it.append(Item("case_exponent", "x0: int", f"0 <= x0 < {len(FLOATS)}", "c_exponent(x0)", family="case-value",
                   describe=f"exponent e / E: equal Float.py_val for {FLOATS}"))
    it.append(Item("case_datetime_TZ", "x0: int, x1: int, x2: int", f"0 <= x0 < {len(DATETIMES)} and 0 <= x1 <= 1 and 0 <= x2 <= 1",
                   "c_datetime(x0, x1, x2)", family="case-value", describe="T/t and Z/z: equal DateTime.py_val and utcoffset"))
    for hi in range(4):
        it.append(Item(f"case_guid_{hi}", "x0: int", "0 <= x0 <= 63", f"c_guid(x0 | ({hi} << 6))", family="case-value",
                       describe="hex letter case does not change GUID.py_val (8 symbolic positions)"))
    for i, (word, kind) in enumerate(OPERATOR_WORDS):
        it.append(Item(f"case_op_{word}", "x0: int", f"0 <= x0 < {2 ** len(word)}", f"c_operator({i}, x0)", family="case-value",
                       describe=f"token {kind}: same AST value for every case spelling of {word!r}"))
    return it


CASE_HEADER = "from verif.props.c19 import *  # noqa\n"


def action_layer(run: Run, progress: bool = False) -> None:
    items = case_items(run.tier)
    run.encode("odata_query.grammar.ODataLexer token actions (via _token_funcs) on case variants",
               "odata_query.ast.Boolean.py_val", "odata_query.ast.Duration.unpack/py_val", "odata_query.ast.Float.py_val",
               "odata_query.ast.DateTime.py_val", "odata_query.ast.GUID.py_val")
    _v.reachability(run, CASE_HEADER, items)
    run_items(run, CASE_HEADER, items, per_condition_timeout=60 if run.tier == "quick" else 300, progress=progress)


# ====================================================================================================
# parser level: layout sites and keyword case on canonical filter shapes (Engine B; text concrete per path)
# ====================================================================================================
from odata_query import ast as _ast                                   # noqa: E402
from odata_query.grammar import ODataLexer as _Lexer, ODataParser as _Parser   # noqa: E402

RWS_RUNS = (" ", "  ", "\t", "\n", " \t\n")
CASES = ("lower", "UPPER", "Title")


def O() -> tuple:              # optional white-space site (BWS of the ABNF): "" or " "
    return ("O",)


def R() -> tuple:              # required white-space site (RWS): one of RWS_RUNS
    return ("R",)


def K(word: str) -> tuple:     # keyword whose letter case may vary
    return ("K", word)


def _op(word: str) -> list:
    return [R(), K(word), R()]


def _templates() -> List[dict]:
    t: List[dict] = []

    def add(name: str, parts: list) -> None:
        t.append({"name": name, "parts": parts})

    for op in ("add", "sub", "mul", "div", "mod"):
        add(f"arith-{op}", ["a"] + _op(op) + ["1"])
    for op in ("eq", "ne", "lt", "le", "gt", "ge"):
        add(f"cmp-{op}", ["a"] + _op(op) + ["'x'"])
    for op in ("and", "or"):
        add(f"bool-{op}", ["a"] + _op("eq") + ["1"] + _op(op) + ["b"] + _op("ne") + ["2"])
    add("not", [K("not"), R(), "a"])
    add("not-paren", [K("not"), R(), "(", O(), "a"] + _op("eq") + ["1", O(), ")"])
    add("neg", ["-", O(), "a"])
    add("neg-paren", ["-", O(), "(", O(), "a"] + _op("add") + ["1", O(), ")"])
    add("paren-mul", ["(", O(), "a"] + _op("add") + ["1", O(), ")"] + _op("mul") + ["2"])
    add("in-list", ["a"] + _op("in") + ["(", O(), "1", O(), ",", O(), "2", O(), ",", O(), "3", O(), ")"])
    add("in-single-list", ["a"] + _op("in") + ["(", O(), "1", O(), ",", O(), ")"])
    add("list-of-lists", ["(", O(), "(", O(), "1", O(), ",", O(), ")", O(), ",", O(), "a", O(), ")"])
    add("call-0", ["now(", O(), ")"])
    add("call-1", ["length(", O(), "a", O(), ")"])
    add("call-2", ["concat(", O(), "a", O(), ",", O(), "'b'", O(), ")"])
    add("call-3", ["substring(", O(), "a", O(), ",", O(), "1", O(), ",", O(), "2", O(), ")"])
    add("call-geo", ["geo.distance(", O(), "p", O(), ",", O(), "geography'SRID=0;Point(1 2)'", O(), ")"] + _op("lt") + ["5"])
    add("call-nested", ["tolower(", O(), "trim(", O(), "a", O(), ")", O(), ")"] + _op("eq") + ["'x'"])
    add("named-1", ["ns.f(", O(), "p=1", O(), ")"])
    add("named-3", ["ns.f(", O(), "p=1", O(), ",", O(), "q='s'", O(), ",", O(), "r=a", O(), ")"])
    add("any-empty", ["a/", K("any"), "(", O(), ")"])
    add("any-lambda", ["a/", K("any"), "(", O(), "x", O(), ":", O(), "x/k"] + _op("eq") + ["1", O(), ")"])
    add("all-lambda", ["a/b/", K("all"), "(", O(), "x", O(), ":", O(), K("not"), R(), "x/k"] + _op("in") + ["(1,2)", O(), ")"])
    add("kw-in-list", ["f"] + _op("in") + ["(", O(), K("true"), O(), ",", O(), K("false"), O(), ",", O(), K("null"), O(), ")"])
    add("kw-call-args", ["ns.g(", O(), K("null"), O(), ",", O(), "name", O(), ",", O(), K("true"), O(), ")"])
    add("kw-call-1", ["length(", O(), K("null"), O(), ")"])
    add("kw-named", ["ns.f(", O(), "a=", K("true"), O(), ",", O(), "b=", K("null"), O(), ",", O(), "c=", K("false"), O(), ")"])
    add("kw-paren", ["(", O(), K("true"), O(), ")"] + _op("or") + ["(", O(), K("null"), O(), ")"])
    add("kw-lambda", ["a/", K("any"), "(", O(), "x", O(), ":", O(), K("true"), O(), ")"])
    # literal CONTENT must survive every re-layout / re-casing of the text around it
    add("str-inner-ws", ["name"] + _op("eq") + ["'a  b'"])
    add("str-edge-ws", ["contains(", O(), "name", O(), ",", O(), "'  x '", O(), ")"] + _op("eq") + [K("true")])
    add("str-keywords", ["name"] + _op("eq") + ["'NOT  Null and TRUE'"] + _op("and") + ["b"] + _op("ne") + [K("null")])
    add("geo-inner-ws", ["geo.length(", O(), K("geography"), "'SRID=0;LineString(1  2, 3 4)'", O(), ")"] + _op("gt") + ["1"])
    add("lit-true", ["a"] + _op("eq") + [K("true")])
    add("lit-false", [K("false")] + _op("ne") + ["a"])
    add("lit-null", ["a"] + _op("eq") + [K("null")])
    add("lit-duration", ["a"] + _op("add") + [K("duration"), "'", K("p"), "1", K("d"), K("t"), "2", K("h"), "'"])
    add("lit-datetime", ["a"] + _op("gt") + ["2020-02-29", K("t"), "10:00:00", K("z")])
    add("lit-datetime-frac7-Z", ["a"] + _op("gt") + ["2020-02-29", K("t"), "23:59:58.1234567", K("z")])
    add("lit-datetime-frac12-Z", ["a"] + _op("lt") + ["2020-02-29", K("t"), "23:59:58.123456789012", K("z")])
    add("lit-datetime-frac9-offset", ["a"] + _op("ge") + ["2020-02-29", K("t"), "23:59:58.123456789+05:30"])
    add("lit-datetime-frac7-nozone", ["a"] + _op("le") + ["2020-02-29", K("t"), "23:59:58.1234567"])
    add("lit-datetime-frac-in-list", ["a"] + _op("in") + ["(", O(), "2020-02-29", K("t"), "23:59:58.1234567", K("z"), O(), ",", O(),
                                                          "2020-02-29", K("t"), "10:00:00.12345678", K("z"), O(), ")"])
    add("lit-exponent", ["a"] + _op("lt") + ["1.5", K("e"), "3"])
    add("lit-guid", ["a"] + _op("eq") + [K("abcdefab"), "-", K("cdef"), "-1234-5678-", K("abcdefabcdef")])
    add("lit-geography", ["geo.length(", O(), K("geography"), "'SRID=0;LineString(1 2,3 4)'", O(), ")"] + _op("gt") + ["1"])
    return t


TEMPLATES: List[dict] = _templates()
CANON: List[tuple] = []


def _case(word: str, c: int) -> str:
    return word.lower() if c == 0 else (word.upper() if c == 1 else word[:1].upper() + word[1:].lower())


def _run(r: int) -> str:
    """explicit branching: indexing a tuple with a symbolic int would give CrossHair a symbolic string, and the text must be
    concrete on every path (its regex engine cannot run the SLY master pattern)"""
    for i in range(len(RWS_RUNS)):
        if r == i:
            return RWS_RUNS[i]
    return RWS_RUNS[0]


def lay_out(ti: int, opts: tuple, rws: tuple, kws: tuple) -> str:
    out = []
    io = ir = ik = 0
    for part in TEMPLATES[ti]["parts"]:
        if isinstance(part, str):
            out.append(part)
        elif part[0] == "O":
            out.append(" " if opts[io] else "")
            io += 1
        elif part[0] == "R":
            out.append(_run(rws[ir]))
            ir += 1
        else:
            out.append(_case(part[1], kws[ik]))
            ik += 1
    return "".join(out)


def sites(ti: int) -> tuple:
    parts = TEMPLATES[ti]["parts"]
    return (sum(1 for p_ in parts if not isinstance(p_, str) and p_[0] == "O"),
            sum(1 for p_ in parts if not isinstance(p_, str) and p_[0] == "R"),
            sum(1 for p_ in parts if not isinstance(p_, str) and p_[0] == "K"))


try:
    from crosshair.core import deep_realize as _realize
except Exception:  # pragma: no cover - CrossHair is part of the overlay venv
    def _realize(x):
        return x


def _value_key(v) -> object:
    """plain-data description of a literal's Python value (no str()/isoformat(): CrossHair's datetime model cannot format
    a datetime that carries a dateutil tzinfo)"""
    import datetime as dt
    import uuid
    if isinstance(v, dt.datetime):
        off = v.utcoffset()
        return ["datetime", v.year, v.month, v.day, v.hour, v.minute, v.second, v.microsecond,
                None if off is None else off.days * 86400 + off.seconds]
    if isinstance(v, dt.date):
        return ["date", v.year, v.month, v.day]
    if isinstance(v, dt.time):
        return ["time", v.hour, v.minute, v.second, v.microsecond]
    if isinstance(v, dt.timedelta):
        return ["timedelta", v.days, v.seconds, v.microseconds]
    if isinstance(v, float):
        return ["float", v.hex()]
    if isinstance(v, uuid.UUID):
        return ["uuid", v.int]
    if isinstance(v, (bool, int, str)) or v is None:
        return [type(v).__name__, v]
    return ["?", type(v).__name__]


def meaning(node) -> object:
    """decoded AST with literal *values* instead of spellings (TRUE and true, T and t, e and E mean the same)"""
    if node is None:
        return None
    if isinstance(node, list):
        return ["list"] + [meaning(n) for n in node]
    if isinstance(node, _ast.List):
        return ("List", ["items"] + [meaning(n) for n in node.val])
    if isinstance(node, _ast.Geography):
        return ("Geography", node.val)
    if isinstance(node, _ast.Null):
        return ("Null",)
    if isinstance(node, _ast._Literal):
        # the lexeme comes out of the regex engine as a CrossHair string proxy; C-implemented parsers (dateutil, datetime)
        # reject proxies with TypeError, so the literal is rebuilt on the realised text before its value is taken
        text = _realize(node.val)
        v = type(node)(text).py_val
        # value and the literal's text up to letter case (the SQL dialects emit the text); strings keep their exact content
        return (type(node).__name__, type(v).__name__, _value_key(v), text if isinstance(node, _ast.String) else text.lower())
    if isinstance(node, _ast.Identifier):
        return ("Identifier", node.name, ["ns"] + list(node.namespace))
    if isinstance(node, _ast.Attribute):
        return ("Attribute", meaning(node.owner), node.attr)
    if isinstance(node, (_ast.BinOp, _ast.BoolOp)):
        return (type(node).__name__, type(node.op).__name__, meaning(node.left), meaning(node.right))
    if isinstance(node, _ast.Compare):
        return ("Compare", type(node.comparator).__name__, meaning(node.left), meaning(node.right))
    if isinstance(node, _ast.UnaryOp):
        return ("UnaryOp", type(node.op).__name__, meaning(node.operand))
    if isinstance(node, _ast.Call):
        return ("Call", meaning(node.func), ["args"] + [meaning(a) for a in node.args])
    if isinstance(node, _ast.NamedParam):
        return ("NamedParam", meaning(node.name), meaning(node.param))
    if isinstance(node, _ast.Lambda):
        return ("Lambda", meaning(node.identifier), meaning(node.expression))
    if isinstance(node, _ast.CollectionLambda):
        return ("CollectionLambda", meaning(node.owner), type(node.operator).__name__, meaning(node.lambda_))
    return ("?", type(node).__name__)


def _parse_meaning(text: str) -> tuple:
    try:
        return ("node", meaning(_Parser().parse(_Lexer().tokenize(text))))
    except Exception as e:  # noqa: BLE001 - the class name is the outcome
        return ("exc", type(e).__name__)


def _same(a, b) -> bool:
    if isinstance(a, str) or isinstance(b, str):
        return isinstance(a, str) and isinstance(b, str) and _v.same_str(a, b)
    if isinstance(a, (tuple, list)):
        if type(a) is not type(b) or len(a) != len(b):
            return False
        for x, y in zip(a, b):
            if not _same(x, y):
                return False
        return True
    return a == b


def canon(ti: int) -> tuple:
    no, nr, nk = sites(ti)
    return _parse_meaning(lay_out(ti, (0,) * no, (0,) * nr, (0,) * nk))


def layout(ti: int, opts: tuple, rws: tuple, kws: tuple) -> bool:
    want = CANON[ti]
    return want[0] == "node" and _same(want, _parse_meaning(lay_out(ti, opts, rws, kws)))


def _precompute_canon() -> None:
    CANON[:] = [canon(i) for i in range(len(TEMPLATES))]


_precompute_canon()
LAYOUT_HEADER = "from verif.props.c19 import layout  # noqa\n"


def layout_items(tier: str) -> List[Item]:
    """per template four conditions: (opt) every optional-white-space site independently; (rws) every required run independently
    (quick: 1-2 independent sites, further sites follow the last one); (case) every keyword's case independently (quick: at most 2);
    (mixed) all optional sites together x one run for all required sites x one case for all keywords."""
    items: List[Item] = []
    cap_r, cap_k, cap_o = (1, 2, 4) if tier == "quick" else (4, 5, 8)
    for ti, tpl in enumerate(TEMPLATES):
        no, nr, nk = sites(ti)
        zo, zr, zk = "(" + "0, " * no + ")", "(" + "0, " * nr + ")", "(" + "0, " * nk + ")"
        nm = tpl["name"].replace("-", "_")
        canon_text = lay_out(ti, (0,) * no, (0,) * nr, (0,) * nk)
        if no:
            k = min(no, cap_o)
            params = ", ".join(f"o{i}: bool" for i in range(k))
            tup = "(" + "".join(f"o{min(i, k - 1)}, " for i in range(no)) + ")"
            items.append(Item(f"lay_opt_{nm}", params, "True", f"layout({ti}, {tup}, {zr}, {zk})", family="parser-layout:optional-ws",
                              describe=f"{canon_text!r}: {no} optional white-space sites, each independently '' or ' '"))
        if nr:
            k = min(nr, cap_r)
            if tier == "quick" and tpl["name"] in ("arith-add", "cmp-eq", "bool-and", "all-lambda", "kw-in-list"):
                k = min(nr, 2)     # quick tier: two independent runs on a few templates, one elsewhere (the per-operator
                #                    white-space behaviour itself is the lexer layer's obligation layout:<op>)
            params = ", ".join(f"r{i}: int" for i in range(k))
            pre = " and ".join(f"0 <= r{i} < {len(RWS_RUNS)}" for i in range(k))
            tup = "(" + "".join(f"r{min(i, k - 1)}, " for i in range(nr)) + ")"
            items.append(Item(f"lay_rws_{nm}", params, pre, f"layout({ti}, {zo}, {tup}, {zk})", family="parser-layout:required-ws",
                              describe=f"{canon_text!r}: {nr} required white-space runs from {RWS_RUNS!r} ({k} independent)"))
        if nk:
            k = min(nk, cap_k)
            params = ", ".join(f"k{i}: int" for i in range(k))
            pre = " and ".join(f"0 <= k{i} < 3" for i in range(k))
            tup = "(" + "".join(f"k{min(i, k - 1)}, " for i in range(nk)) + ")"
            items.append(Item(f"lay_case_{nm}", params, pre, f"layout({ti}, {zo}, {zr}, {tup})", family="parser-layout:keyword-case",
                              describe=f"{canon_text!r}: {nk} keywords, each lower / UPPER / Title ({k} independent)"))
        if (no > 0) + (nr > 0) + (nk > 0) >= 2 and (tier != "quick" or no > 0 or nk > 1):
            tup_o = "(" + "o, " * no + ")"
            tup_r = "(" + "r, " * nr + ")"
            tup_k = "(" + "k, " * nk + ")"
            rpre = f"0 <= r < {len(RWS_RUNS)}" if tier != "quick" else f"(r == 0 or r == {len(RWS_RUNS) - 1})"
            items.append(Item(f"lay_mixed_{nm}", "o: bool, r: int, k: int", f"{rpre} and 0 <= k < 3",
                              f"layout({ti}, {tup_o}, {tup_r}, {tup_k})", family="parser-layout:mixed",
                              describe=f"{canon_text!r}: all optional sites on/off x one run for all required sites x one case for all keywords"))
    return items


def parser_layer(run: Run, progress: bool = False) -> None:
    """Adds the parser-level layout obligations of C19 to `run`."""
    items = layout_items(run.tier)
    run.encode("odata_query.grammar.ODataLexer.tokenize + ODataParser.parse on laid-out texts (BWS / RWS productions, keyword tokens)",
               "py_val of every literal class (value comparison where spellings legitimately differ)")
    run.bounds["parser_layout"] = {"templates": [lay_out(i, (0,) * sites(i)[0], (0,) * sites(i)[1], (0,) * sites(i)[2]) for i in range(len(TEMPLATES))],
                                   "optional_site": ["", " "], "required_runs": list(RWS_RUNS), "keyword_case": list(CASES)}
    bad = [TEMPLATES[i]["name"] for i, c in enumerate(CANON) if c[0] != "node"]
    for nm in bad:
        run.harness_error(f"parser-layout:canonical:{nm}", "parser-layout", "the canonical text of this template does not parse")
    _v.reachability(run, LAYOUT_HEADER, items)

    def what(it: Item, args: tuple, outcome_: str) -> str:
        return f"{it.describe}: choices {args!r} -> {_explain(it, args)}"

    run_items(run, LAYOUT_HEADER, items, per_condition_timeout=90 if run.tier == "quick" else 400, progress=progress, what=what)


def _explain(it: Item, args: tuple) -> str:
    """the laid-out text of a counterexample and what the real parser does with it (for the violation message)"""
    try:
        ti = int(it.call[len("layout("):].split(",")[0])
        env = {}
        names = [p_.split(":")[0].strip() for p_ in it.params.split(",")]
        env.update(dict(zip(names, args)))
        tuples = eval("[" + it.call[it.call.index(",") + 1:-1] + "]", {}, env)  # noqa: S307 - our own tuple literals
        text = lay_out(ti, *tuples)
        return f"text {text!r} parses to {_parse_meaning(text)!r}; canonical {lay_out(ti, (0,) * len(tuples[0]), (0,) * len(tuples[1]), (0,) * len(tuples[2]))!r} parses to {CANON[ti]!r}"
    except Exception as e:  # noqa: BLE001
        return f"(could not render the witness: {e!r})"


def _engine_b(run: Run, progress: bool) -> None:
    action_layer(run, progress)
    parser_layer(run, progress)
    from . import c19_backends
    c19_backends.backend_layer(run, progress)


def main() -> int:
    run = Run(PID, "model_checking")
    progress = bool(os.environ.get("VERIF_PROGRESS"))
    sub = _v.SubRun(run, lambda r: _engine_b(r, progress))
    sess = lexer_layer(run, progress=progress)
    sub.join()
    run.assumptions.append("layers: lexer (z3), token actions, parser layout, backends (CrossHair); the backend layer compares each backend's "
                           "output for every case re-spelling of 10 filter templates with the canonical spelling")
    rx.attach_results(run)
    code = run.finish()
    # a replayed violation (1) or a harness error (3) found by the other layers outranks "lexer not encodable" (2)
    return code if (code in (1, 3) or sess is not None) else 2


def replay(data: dict) -> int:
    """vt replay: backends-layer witnesses call c19_backends.check, everything else is evaluated in this module."""
    w = data["witness"]
    call = w.get("call")
    if not call:
        print("replay file has no harness call; see its 'what' field:", data.get("what"))
        return 2
    if call.startswith("check("):
        from . import c19_backends as mod
        mod.prepare()
        env = dict(vars(mod))
    else:
        env = dict(globals())
    for i, a in enumerate(w.get("args", [])):
        env[f"x{i}"] = a
    if w.get("arg_names"):
        env.update(dict(zip(w["arg_names"], w["args"])))
    try:
        res = eval(call, env)  # noqa: S307
        outcome, bad = f"returned {res!r}", res is not True
    except Exception as e:  # noqa: BLE001
        outcome, bad = f"raised {type(e).__name__}: {e}", True
    print(f"property=C19 harness={w.get('harness')} call={call} args={w.get('args')!r} -> {outcome}")
    print("REPRODUCED" if bad else "NOT REPRODUCED (property holds on this input now)")
    return 1 if bad else 0
