"""C19 - whitespace layout and keyword case do not change the meaning of a filter.

This module currently holds the *lexer layer* (Engine A, z3 over symbolic characters) and the token-action layer
(Engine B, CrossHair); the parser / backend layers are added by `main` later.

lexer_layer(run):
  (a) ASCII case-flip invariance of lex1 = (kind, extent) over two coupled symbolic texts;
  (b) for every operator keyword and all white-space runs w1, w2 of 1..3 characters (every white-space character of the
      working alphabet): lex1(w1.op.w2.x) = (OP, |w1|+|op|+|w2|) for every non-space x; `not`.w; a leading white-space run
      is the WS token of exactly the maximal run (or the start of an operator token);
  (c) token actions give equal values for spellings that differ in letter case where the property demands it.
"""
from __future__ import annotations

import os
import re
from typing import List, Optional

from .. import lexspec as ls
from .. import rexcirc as rx
from ..common import REPO, Run
from ..harness import Item, run_items
from . import c06 as _v

PID = "C19"
N_CASE = 16
N_WS = 16
# thorough tier: lex1-level case flip at N = 24, per-rule case-flip lemmas at N = 44, white-space runs 1..4 at N = 20
N_CASE_T, N_LEMMA_T, N_WS_T = 24, 44, 20


def tier_bounds(tier: str):
    return (N_CASE, None, N_WS, 3) if tier == "quick" else (N_CASE_T, N_LEMMA_T, N_WS_T, 4)


def lexer_obligations(sess: rx.Session, tier: str) -> List[rx.Obligation]:
    obs: List[rx.Obligation] = []
    layout = ls.layout_chars(sess.alphabet.chars)
    n_case, n_lemma, n_ws, runs = tier_bounds(tier)
    n_case = n_case if n_case in sess.engines else min(sess.engines)
    n_ws = n_ws if n_ws in sess.engines else min(sess.engines)
    obs.append(rx.ob_caseflip(sess, f"caseflip:lex1[N={n_case}]", "case", n_case))
    if n_lemma is not None and n_lemma in sess.engines:
        for nm in sess.engines[n_lemma].names:
            obs.append(rx.ob_caseflip_rule(sess, f"caseflip-lemma[N={n_lemma}]:{nm}", "case-lemma(per rule)", n_lemma, nm))
    for op, kind in ls.BINARY_OPERATORS.items():
        obs.append(rx.ob_operator(sess, f"layout:{op}", "whitespace", n_ws, op, kind, layout, runs, layout=layout))
    for op, kind in ls.PREFIX_OPERATORS.items():
        obs.append(rx.ob_operator(sess, f"layout:{op}", "whitespace", n_ws, op, kind, layout, runs, leading_ws=False, layout=layout))
    obs.append(rx.ob_ws_token(sess, "layout:WS-maximal-run", "whitespace", n_ws, "WS", layout,
                              also=list(ls.BINARY_OPERATORS.values())))
    obs.sort(key=lambda o: -o.N)
    return obs


MUTANTS = [
    rx.Mutant("drop re.IGNORECASE", lambda sp: rx.respec(sp, flags=sp.flags & ~re.I), ["caseflip:"]),
    rx.Mutant("eq with literal spaces", rx.edit_replace(r"\s+eq\s+", " eq "), ["layout:eq"]),
    rx.Mutant("not with one literal space", rx.edit_replace(r"not\s+", "not "), ["layout:not"]),
    rx.Mutant("WS rule matches a single character", rx.edit_replace(r"(?P<WS>\s+)", r"(?P<WS>\s)"), ["layout:WS"]),
]


def lexer_layer(run: Run, sess: Optional[rx.Session] = None, progress: bool = False) -> Optional[rx.Session]:
    """Adds the Engine A obligations of C19 to `run`.  Returns the session (None when the lexer is not encodable)."""
    tier = run.tier
    if sess is None:
        try:
            sess = rx.Session(run, {b for b in tier_bounds(tier)[:3] if b})
            sess.fill(run)
            sess.validate(run, str(REPO / "tests"), 400 if tier == "quick" else 4000)
        except rx.NotEncodable as e:
            print(f"[{run.pid}] the current lexer cannot be encoded: {e}", flush=True)
            run.inconclusive("encode-lexer", "encode", f"not encodable: {e}")
            return None
    layout = ls.layout_chars(sess.alphabet.chars)
    n_case, n_lemma, n_ws, runs = tier_bounds(tier)
    run.bounds.update({"lexer_text_length_N": {"case flip of lex1": n_case, "per-rule case-flip lemmas": n_lemma, "white space": n_ws},
                       "whitespace_run_length": f"1..{runs} on each side of an operator",
                       "whitespace_characters": [f"U+{ord(c):04X}" for c in layout],
                       "case_flips": "any subset of ASCII letter positions (two coupled symbolic texts)"})
    run.outside += [f"texts longer than {n_case} characters for the lex1-level case-flip obligation (thorough tier: the per-rule "
                    "lemmas, which together imply it, reach N = 44)",
                    f"white-space runs longer than {runs} next to an operator (the WS-maximal-run obligation covers runs up to {n_ws})"]
    sess.drive(lexer_obligations(sess, tier), timeout=120 if tier == "quick" else 600, progress=progress)
    if tier == "thorough" or os.environ.get("VERIF_SELFTEST"):
        rx.selftest(run, sess.spec, MUTANTS, {N_CASE, N_WS}, [], lambda s2: lexer_obligations(s2, "quick"), timeout=120, progress=progress)
    return sess


# ====================================================================================================
# (c) Engine B: token actions on case variants
# ====================================================================================================
def c_boolean(word: int, mask: int) -> bool:
    w = ("true", "false")[word]
    return _v.action("BOOLEAN", _v.spell(w, mask)).value.py_val is _v.action("BOOLEAN", w).value.py_val


def c_null(mask: int) -> bool:
    return _v.action("NULL", _v.spell("null", mask)).value == _v.action("NULL", "null").value


DUR_BODY = "P1Y2M3DT4H5M6.5S"


def c_duration_prefix(mask: int) -> bool:
    a = _v.action("DURATION", _v.spell("duration", mask) + "'" + DUR_BODY + "'").value
    b = _v.action("DURATION", "duration'" + DUR_BODY + "'").value
    return a == b and a.py_val == b.py_val and a.unpack() == b.unpack()


def c_duration_designators(sign: int, mask: int) -> bool:
    body = ("", "+", "-")[sign] + DUR_BODY
    k = 0
    out = []
    for ch in body:
        if ch.isalpha():
            out.append(ch.lower() if (mask >> k) & 1 else ch)
            k += 1
        else:
            out.append(ch)
    a = _v.action("DURATION", "duration'" + "".join(out) + "'").value
    b = _v.action("DURATION", "duration'" + body + "'").value
    return a == b and a.py_val == b.py_val and a.unpack() == b.unpack()


FLOATS = ("1e3", "1.5e3", "2e-2", "0.25e+1", "12e0")


def c_exponent(i: int) -> bool:
    lo = _v.action("DECIMAL", FLOATS[i]).value
    up = _v.action("DECIMAL", FLOATS[i].upper()).value
    return lo.py_val == up.py_val and type(up) is type(lo)


DATETIMES = ("2020-02-29T10:00:00Z", "2020-02-29T10:00Z", "2020-02-29T23:59:59.123456Z", "2020-02-29T10:00:00+05:30",
             "2020-02-29T10:00:00")


def c_datetime(i: int, tcase: int, zcase: int) -> bool:
    s = DATETIMES[i]
    v = s.replace("T", "t") if tcase else s
    v = v.replace("Z", "z") if zcase else v
    a = _v.action("DATETIME", v).value.py_val
    b = _v.action("DATETIME", s).value.py_val
    return a == b and a.utcoffset() == b.utcoffset()


GUID_TXT = "abcdefab-cdef-abcd-efab-cdefabcdefab"


def c_guid(mask: int) -> bool:
    """the case of (a symbolic choice of) 8 hex letters does not change GUID.py_val"""
    pos = (0, 5, 9, 14, 19, 24, 30, 35)
    chars = list(GUID_TXT)
    for k, p in enumerate(pos):
        if (mask >> k) & 1:
            chars[p] = chars[p].upper()
    return _v.action("GUID", "".join(chars)).value.py_val == _v.action("GUID", GUID_TXT).value.py_val


def c_operator(kind_i: int, mask: int) -> bool:
    """operator / lambda keyword tokens carry the same AST value for every case spelling"""
    word, kind = OPERATOR_WORDS[kind_i]
    lex = (" " if kind not in ("NOT", "ANY", "ALL") else "") + _v.spell(word, mask) + (" " if kind not in ("ANY", "ALL") else "")
    ref = (" " if kind not in ("NOT", "ANY", "ALL") else "") + word + (" " if kind not in ("ANY", "ALL") else "")
    a, b = _v.action(kind, lex), _v.action(kind, ref)
    return a.type == b.type == kind and a.value == b.value


OPERATOR_WORDS = list(ls.BINARY_OPERATORS.items()) + list(ls.PREFIX_OPERATORS.items()) + [("any", "ANY"), ("all", "ALL")]


def case_items(tier: str) -> List[Item]:
    it: List[Item] = []
    for word in range(2):
        it.append(Item(f"case_boolean_{('true', 'false')[word]}", "x0: int", f"0 <= x0 <= {(15, 31)[word]}", f"c_boolean({word}, x0)",
                       family="case-value", describe="Boolean.py_val identical for every case spelling (TRUE/True/true ...)"))
    it.append(Item("case_null", "x0: int", "0 <= x0 <= 15", "c_null(x0)", family="case-value", describe="NULL in any case is ast.Null()"))
    for hi in range(4):
        it.append(Item(f"case_duration_prefix_{hi}", "x0: int", "0 <= x0 <= 63", f"c_duration_prefix(x0 | ({hi} << 6))",
                       family="case-value", describe="duration prefix in every case spelling: equal node, unpack and py_val"))
    for sign in range(3):
        for hi in range(4 if tier != "quick" or sign == 0 else 1):
            it.append(Item(f"case_duration_designators_s{sign}_{hi}", "x0: int", "0 <= x0 <= 63",
                           f"c_duration_designators({sign}, x0 | ({hi} << 6))", family="case-value",
                           describe="duration designators P Y M D T H M S in every lower/upper combination: equal node, unpack, py_val"
                                    + ("" if tier != "quick" or sign == 0 else " (signed: P and Y M D T H fixed subset)")))
    it.append(Item("case_exponent", "x0: int", f"0 <= x0 < {len(FLOATS)}", "c_exponent(x0)", family="case-value",
                   describe=f"exponent e / E: equal Float.py_val for {FLOATS}"))
    it.append(Item("case_datetime_TZ", "x0: int, x1: int, x2: int", f"0 <= x0 < {len(DATETIMES)} and 0 <= x1 <= 1 and 0 <= x2 <= 1",
                   "c_datetime(x0, x1, x2)", family="case-value", describe="T/t and Z/z: equal DateTime.py_val and utcoffset"))
    for hi in range(4):
        it.append(Item(f"case_guid_{hi}", "x0: int", "0 <= x0 <= 63", f"c_guid(x0 | ({hi} << 6))", family="case-value",
                       describe="hex letter case does not change GUID.py_val (8 symbolic positions)"))
    for i, (word, kind) in enumerate(OPERATOR_WORDS):
        it.append(Item(f"case_op_{word}", "x0: int", f"0 <= x0 < {2 ** len(word)}", f"c_operator({i}, x0)", family="case-value",
                       describe=f"token {kind}: same AST value for every case spelling of {word!r}"))
    return it


CASE_HEADER = "from verif.props.c19 import *  # noqa\n"


def action_layer(run: Run, progress: bool = False) -> None:
    items = case_items(run.tier)
    run.encode("odata_query.grammar.ODataLexer token actions (via _token_funcs) on case variants",
               "odata_query.ast.Boolean.py_val", "odata_query.ast.Duration.unpack/py_val", "odata_query.ast.Float.py_val",
               "odata_query.ast.DateTime.py_val", "odata_query.ast.GUID.py_val")
    _v.reachability(run, CASE_HEADER, items)
    run_items(run, CASE_HEADER, items, per_condition_timeout=60 if run.tier == "quick" else 300, progress=progress)


def main() -> int:
    run = Run(PID, "model_checking")
    progress = bool(os.environ.get("VERIF_PROGRESS"))
    sub = _v.SubRun(run, lambda r: action_layer(r, progress))
    sess = lexer_layer(run, progress=progress)
    sub.join()
    run.assumptions.append("this run covers the lexer and token-action layers of C19 only (parser layouts and backends are separate layers)")
    rx.attach_results(run)
    code = run.finish()
    return 2 if sess is None else code
