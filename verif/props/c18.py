"""C18 - type inference never reports a wrong type.

Engine B: the real `odata_query.typing.infer_type / infer_return_type / typecheck` run under
CrossHair.  Symbolic: the function name as a free str (<= 18 chars; the code tests it with
`in (tuple)` / `==`, which fork cleanly), the geo-namespace flag, string-literal contents, and - for
nested expressions - the *choice of producer* at every inner node (symbolic index into the typed
grammar's producers of the required type).  Oracle: an independent table of OData 4.01 built-in
return types (written from the specification, section 5.1.1.5 ff) and the generator's own
knowledge of each term's type.
"""
from __future__ import annotations

import os
from typing import Any, List, Optional, Tuple

from odata_query import ast, exceptions
from odata_query.typing import infer_type, typecheck

from ..common import Run
from ..gen import pick as gen_pick
from ..harness import Item, run_items

PID = "C18"

# ---------------------------------------------------------------- independent OData return types
S, I, F, B, D, DT, T, DU, G, L, GUID_, NUL = ("String", "Integer", "Float", "Boolean", "Date", "DateTime", "Time",
                                               "Duration", "Geography", "List", "GUID", "Null")
# (full name, return type or 'ARG0' = type of the first argument, [allowed argument type tuples])
SPEC: Tuple[Tuple[str, str, tuple], ...] = (
    ("concat", "ARG0", ((S, S), (L, L))), ("contains", B, ((S, S),)), ("endswith", B, ((S, S),)),
    ("startswith", B, ((S, S),)), ("indexof", I, ((S, S),)), ("length", I, ((S,), (L,))),
    ("substring", "ARG0", ((S, I), (S, I, I), (L, I), (L, I, I))), ("matchesPattern", B, ((S, S),)),
    ("tolower", S, ((S,),)), ("toupper", S, ((S,),)), ("trim", S, ((S,),)),
    ("year", I, ((D,), (DT,))), ("month", I, ((D,), (DT,))), ("day", I, ((D,), (DT,))),
    ("hour", I, ((DT,), (T,))), ("minute", I, ((DT,), (T,))), ("second", I, ((DT,), (T,))),
    ("fractionalseconds", F, ((DT,), (T,))), ("totalseconds", F, ((DU,),)), ("date", D, ((DT,),)),
    ("time", T, ((DT,),)), ("totaloffsetminutes", I, ((DT,),)), ("mindatetime", DT, ((),)),
    ("maxdatetime", DT, ((),)), ("now", DT, ((),)), ("round", F, ((F,),)), ("floor", F, ((F,),)),
    ("ceiling", F, ((F,),)), ("geo.distance", F, ((G, G),)), ("geo.length", F, ((G,),)),
    ("geo.intersects", B, ((G, G),)), ("hassubset", B, ((L, L),)), ("hassubsequence", B, ((L, L),)),
)
CLS = {S: ast.String, I: ast.Integer, F: ast.Float, B: ast.Boolean, D: ast.Date, DT: ast.DateTime, T: ast.Time,
       DU: ast.Duration, G: ast.Geography, L: ast.List, GUID_: ast.GUID, NUL: ast.Null}
SAMPLE = {I: "7", F: "1.5", B: "true", D: "2020-02-29", DT: "2020-01-01T10:00:00Z", T: "23:59:59", DU: "P1D",
          G: "POINT(1 2)", GUID_: "11111111-2222-3333-4444-555555555555"}


def lit(t: str, sval: str = "s") -> Any:
    if t == S:
        return ast.String(sval)
    if t == L:
        return ast.List([ast.String(sval), ast.String("b")])
    if t == NUL:
        return ast.Null()
    return CLS[t](SAMPLE[t])


def field(t: str) -> Any:
    return ast.Identifier("fld_" + t)


def spec_lookup(full: str) -> Optional[tuple]:
    for row in SPEC:          # linear == scan: no hashing of a possibly symbolic name
        if row[0] == full:
            return row
    return None


# ---------------------------------------------------------------- typed generator (independent)
def producers(t: str) -> List[tuple]:
    """ways to produce an expression of type t: ('lit',), ('field',), ('call', name, argtypes), ('cmp',), ('bool',)"""
    out: List[tuple] = [("lit",), ("field",)]
    for name, ret, sigs in SPEC:
        for sig in sigs:
            rt = sig[0] if ret == "ARG0" else ret
            if rt == t:
                out.append(("call", name, sig))
    if t == B:
        out += [("cmp", I), ("cmp", S), ("bool",), ("in", I)]
    # arithmetic (OData 5.1.1.2): numeric op numeric; date-time +/- duration; date-time - date-time = duration
    for op, res, l, r in (("Add", I, I, I), ("Mult", F, F, F), ("Mod", I, I, I), ("Sub", DU, D, D), ("Sub", DU, DT, DT),
                          ("Add", DT, DT, DU), ("Sub", D, D, DU), ("Add", DU, DU, DU), ("Sub", F, F, I)):
        if res == t:
            out.append(("arith", op, l, r))
    return out


def gen_typed(t: str, depth: int, picks: list, sval: str) -> Any:
    """build an expression of type t; every inner choice consumes one pick (symbolic int)."""
    prods = producers(t) if depth > 0 else producers(t)[:2]
    p = gen_pick(prods, picks.pop(0) % len(prods)) if picks else prods[0]
    if p[0] == "lit":
        return lit(t, sval)
    if p[0] == "field":
        return field(t)
    if p[0] == "call":
        ns, _, nm = p[1].rpartition(".")
        return ast.Call(ast.Identifier(nm, (ns,) if ns else ()), [gen_typed(a, depth - 1, picks, sval) for a in p[2]])
    if p[0] == "arith":
        return ast.BinOp(getattr(ast, p[1])(), gen_typed(p[2], depth - 1, picks, sval), gen_typed(p[3], depth - 1, picks, sval))
    if p[0] == "cmp":
        return ast.Compare(ast.LtE(), gen_typed(p[1], depth - 1, picks, sval), gen_typed(p[1], depth - 1, picks, sval))
    if p[0] == "in":
        return ast.Compare(ast.In(), gen_typed(p[1], depth - 1, picks, sval), ast.List([lit(p[1]), lit(p[1])]))
    return ast.BoolOp(ast.Or(), gen_typed(B, depth - 1, picks, sval), gen_typed(B, depth - 1, picks, sval))


TYPES = (S, I, F, B, D, DT, T, DU, G, L)
ARG_TEMPLATES: List[Tuple[str, ...]] = [(), (S,), (S, S), (S, I), (S, I, I), (L, L), (L, I), (DT,), (D,), (T,), (DU,),
                                        (F,), (G, G), (G,), (I,), (B,), (L,)]


# ---------------------------------------------------------------- harness bodies
def check_name(name: str, geo: bool, k: int, leafkind: int, sval: str) -> bool:
    """symbolic function name: the inferred type is unknown or the specified return type."""
    tmpl = ARG_TEMPLATES[k]
    args = [(lit(t, sval) if leafkind == 0 else field(t) if leafkind == 1 else
             ast.Call(ast.Identifier("tolower"), [field(S)]) if t == S else lit(t, sval)) for t in tmpl]
    full = ("geo." + name) if geo else name
    node = ast.Call(ast.Identifier(name, ("geo",) if geo else ()), args)
    row = spec_lookup(full)
    if row is None or tmpl not in row[2]:
        return True            # not a well-typed built-in call: nothing is claimed (the parser rejects these)
    got = infer_type(node)
    want = CLS[tmpl[0]] if row[1] == "ARG0" else CLS[row[1]]
    if got is None:
        return True
    if row[1] == "ARG0" and leafkind == 1:
        return False           # fields have no known type: nothing but 'unknown' can be inferred
    return got is want


def check_nested(ti: int, p0: int, p1: int, p2: int, p3: int, p4: int, p5: int, sval: str) -> bool:
    """typed expression of depth <= 3 with symbolic producer choices: inferred in {unknown, actual type}."""
    t = TYPES[ti]
    e = gen_typed(t, 3, [p0, p1, p2, p3, p4, p5], sval)
    got = infer_type(e)
    return got is None or got is CLS[t]


ARG0_FUNCS = [("concat", 2), ("substring", 2), ("substring", 3)]


def _arg0_call(fi: int, t: str, picks: list, sval: str) -> Any:
    name, n = ARG0_FUNCS[fi]
    first = gen_typed(t, 2, picks, sval)
    if name == "concat":
        return ast.Call(ast.Identifier("concat"), [first, gen_typed(t, 1, picks, sval)])
    return ast.Call(ast.Identifier("substring"), [first] + [ast.Integer("1")] * (n - 1))


def check_nested_pair(fi: int, p0: int, p1: int, p2: int, q0: int, q1: int, q2: int, sval: str) -> bool:
    """inference has no memory: the same argument-derived function applied first to a String-typed and then to a
    List-typed argument expression (inner producers symbolic), and to the first one again, gives unknown or the own type
    each time - also on the other order."""
    e1 = _arg0_call(fi, S, [p0, p1, p2], sval)
    e2 = _arg0_call(fi, L, [q0, q1, q2], sval)
    for e, t in ((e1, S), (e2, L), (e1, S)):
        got = infer_type(e)
        if not (got is None or got is CLS[t]):
            return False
    return True


SITE: dict = {}


def _site_setup() -> None:
    from ..models import setup as msetup
    from ..models import sa as samodels
    dj = msetup.django_setup()
    from odata_query.django.django_q import AstToDjangoQVisitor
    from odata_query.sqlalchemy.core import AstToSqlAlchemyCoreVisitor
    from odata_query.sqlalchemy.orm import AstToSqlAlchemyOrmVisitor
    SITE["td"] = _td_visitors()
    SITE["vis"] = [lambda: AstToDjangoQVisitor(dj.Item), lambda: AstToSqlAlchemyOrmVisitor(samodels.Item),
                   lambda: AstToSqlAlchemyCoreVisitor(samodels.Item.__table__)]


BAD_FIRST = [I, F, B, D, DT, T, DU, L]      # literal kinds that are not a string (nor a field)
PATTERNS = ["a", "", "%", "_", "/", "a%", "\\", "it's"]


def check_callsite(bi: int, fn: int, kind: int, pat: int, second_bad: bool) -> bool:
    """the backends' use of the type check for contains / startswith / endswith: a first argument that is a literal of a
    non-string kind - or a second argument that is - is refused with ArgumentTypeException, whatever the other argument
    looks like (wildcards included); a well-typed call is accepted."""
    name = gen_pick(("contains", "startswith", "endswith"), fn)
    first = lit(gen_pick(BAD_FIRST, kind % len(BAD_FIRST))) if not second_bad else ast.Identifier("name")
    second = ast.String(gen_pick(PATTERNS, pat)) if not second_bad else lit(gen_pick(BAD_FIRST, kind % len(BAD_FIRST)))
    node = ast.Call(ast.Identifier(name), [first, second])
    try:
        SITE["vis"][bi]().visit(node)
    except exceptions.ArgumentTypeException:
        return True
    except exceptions.ODataException:
        return True          # another refusal by the library is acceptable too
    return False


def check_callsite_ok(bi: int, fn: int, pat: int) -> bool:
    name = gen_pick(("contains", "startswith", "endswith"), fn)
    node = ast.Call(ast.Identifier(name), [ast.Identifier("name"), ast.String(gen_pick(PATTERNS, pat))])
    try:
        SITE["vis"][bi]().visit(node)
    except exceptions.ArgumentTypeException:
        return False
    return True


# ---------------------------------------------------------------- type-directed renderings (SQL text dialects)
TD_FUNCS = [("length", 0), ("substring", 1), ("substring", 2)]


def _td_visitors():
    from odata_query.sql import AstToAthenaSqlVisitor, AstToSqliteSqlVisitor, AstToSqlVisitor
    return [AstToSqlVisitor, lambda: AstToSqliteSqlVisitor("t0"), AstToAthenaSqlVisitor]


def _td_head(di: int, node: Any) -> str:
    try:
        r = gen_pick(SITE["td"], di)().visit(node)
    except exceptions.ODataException as e:
        return "EXC " + type(e).__name__
    return r.split("(")[0] if isinstance(r, str) else "NON-STR"


def check_type_directed(di: int, fi: int, ti: int, p0: int, p1: int, p2: int, sval: str) -> bool:
    """length / substring render differently for strings and for lists (or refuse lists); the variant is chosen from the
    inferred type of the argument at the call site.  For an argument expression whose type the typed generator knows (String
    or List) and the library infers (not 'unknown'), the chosen variant is the one the dialect uses for a literal of that
    type - a call site that asks inference with its own fall-back must not turn a list into a string."""
    t = gen_pick((S, L), ti)
    fn, nextra = gen_pick(TD_FUNCS, fi)
    e = gen_typed(t, 2, [p0, p1, p2], sval)
    if infer_type(e) is None:
        return True
    extra = [ast.Integer("1")] * nextra
    got = _td_head(di, ast.Call(ast.Identifier(fn), [e] + extra))
    if got.startswith("EXC "):
        return True      # a refusal by the library is always acceptable (an inner part may be unsupported in this dialect)
    want = _td_head(di, ast.Call(ast.Identifier(fn), [lit(t, "s")] + extra))
    return got == want


EXPECTED_SETS = [(S,), (S, L), (I, F), (B,), (D, DT), (DT, T), (L,), (G,), (DU,)]


def check_typecheck(ti: int, ei: int, as_tuple: bool, p0: int, p1: int, p2: int, sval: str) -> bool:
    """typecheck never rejects a well-typed argument, and rejects a literal of a kind outside the set."""
    t = TYPES[ti]
    exp_names = EXPECTED_SETS[ei]
    if not as_tuple and len(exp_names) != 1:
        return True
    expected = tuple(CLS[n] for n in exp_names) if as_tuple else CLS[exp_names[0]]
    e = gen_typed(t, 2, [p0, p1, p2], sval)
    raised = None
    try:
        r = typecheck(e, expected, "arg")
        if r is not None:
            return False
    except exceptions.ArgumentTypeException as ex:
        raised = ex
    if t in exp_names:
        return raised is None                      # well-typed: never rejected
    if isinstance(e, ast._Literal):
        if raised is None:
            return False                           # literal of a kind outside the allowed set: rejected
        return raised.function_name == "arg" and raised.actual_type == CLS[t].__name__
    return True                                    # ill-typed non-literal: either outcome allowed


def check_substr_family(fi: int, p0: int, p1: int, sval: str, bad: int) -> bool:
    """the way the backends use typecheck for contains/startswith/endswith: (field|String, String)."""
    first = gen_typed(S, 2, [p0, p1], sval)
    second = lit(S, sval) if bad == 0 else lit(gen_pick(TYPES, bad % len(TYPES)), sval)
    ok_second = bad == 0 or gen_pick(TYPES, bad % len(TYPES)) == S
    try:
        typecheck(first, (ast.Identifier, ast.String), "field")
        typecheck(second, ast.String, "substring")
        return ok_second
    except exceptions.ArgumentTypeException:
        return not ok_second


def main() -> int:
    run = Run(PID, "model_checking")
    run.encode("odata_query.typing.infer_type", "odata_query.typing.infer_return_type", "odata_query.typing.typecheck",
               "odata_query.ast.Identifier.full_name")
    quick = run.tier == "quick"
    run.bounds = {"function name": "free symbolic str, len <= 18, with/without geo namespace",
                  "argument templates": [list(a) for a in ARG_TEMPLATES], "argument leaf kinds": "literal / field / nested call",
                  "nested": "typed expressions of depth <= 3; every inner producer choice is a symbolic int",
                  "string literal contents": "symbolic str, len <= 2"}
    run.bounds["type-directed rendering"] = "length / substring over typed String / List argument expressions of depth <= 2 (producer choices symbolic) in the 3 SQL text dialects"
    run.outside = ["function names longer than 18 characters", "expressions nested deeper than 3",
                   "ill-typed expressions (nothing is claimed about them)"]
    run.assumptions = ["OData built-in return types transcribed from the 4.01 specification (SPEC table in this module)",
                       "fields have no statically known type, so only 'unknown' may be inferred for them"]
    items: List[Item] = []
    for k in range(len(ARG_TEMPLATES)):
        for leafkind in (0, 1, 2):
            if leafkind == 2 and S not in ARG_TEMPLATES[k]:
                continue
            items.append(Item(f"name_{k}_{leafkind}", "name: str, geo: bool, sval: str",
                              "len(name) <= 18 and len(sval) <= 2",
                              f"check_name(name, geo, {k}, {leafkind}, sval)",
                              describe={"args": list(ARG_TEMPLATES[k]), "leaf": ("literal", "field", "call")[leafkind]},
                              family="symbolic-function-name"))
    rng = "0 <= p0 < 12 and 0 <= p1 < 12 and 0 <= p2 < 12"
    for ti, t in enumerate(TYPES):
        n0 = len(producers(t))
        for first in range(n0):   # outermost producer enumerated (one obligation each), inner choices symbolic
            items.append(Item(f"nest_{t}_{first}", "p1: int, p2: int, p3: int, sval: str",
                              "0 <= p1 < 10 and 0 <= p2 < 10 and 0 <= p3 < 6 and len(sval) <= 1",
                              f"check_nested({ti}, {first}, p1, p2, p3, 0, 1, sval)",
                              describe={"type": t, "outer": producers(t)[first]}, family="typed-nesting"))
    for fi in range(len(ARG0_FUNCS)):
        for p0 in range(len(producers(S))):
            items.append(Item(f"pair_{fi}_{p0}", "p1: int, p2: int, q0: int, q1: int, q2: int, sval: str",
                              "0 <= p1 < 4 and 0 <= p2 < 2 and 0 <= q0 < 5 and 0 <= q1 < 3 and 0 <= q2 < 2 and len(sval) <= 1",
                              f"check_nested_pair({fi}, {p0}, p1, p2, q0, q1, q2, sval)",
                              describe={"function": list(ARG0_FUNCS[fi]), "first argument producer (String)": str(producers(S)[p0])},
                              family="inference-sequence"))
    _site_setup()
    for bi, bn in enumerate(("django", "sa_orm", "sa_core")):
        items.append(Item(f"site_{bn}", "fn: int, kind: int, pat: int, second_bad: bool",
                          f"0 <= fn < 3 and 0 <= kind < {len(BAD_FIRST)} and 0 <= pat < {len(PATTERNS)}",
                          f"check_callsite({bi}, fn, kind, pat, second_bad)", describe={"backend": bn, "patterns": PATTERNS},
                          family="typecheck-call-sites", isolate=True))
        items.append(Item(f"siteok_{bn}", "fn: int, pat: int", f"0 <= fn < 3 and 0 <= pat < {len(PATTERNS)}",
                          f"check_callsite_ok({bi}, fn, pat)", describe={"backend": bn}, family="typecheck-call-sites", isolate=True))
    k = 0
    for fi in range(len(TD_FUNCS)):
        for ti, t in enumerate((S, L)):
            for p0 in range(len(producers(t))):      # outermost producer enumerated (one obligation each), inner choices symbolic
                k += 1
                for di, dn in enumerate(("sql", "sqlite", "athena")):
                    if quick and (k + run.seed) % 3 != di:
                        continue                     # quick: each (function, type, producer) on one dialect, rotating
                    items.append(Item(f"td_{dn}_{fi}_{t}_{p0}", "p1: int, p2: int",
                                      "0 <= p1 < 6 and 0 <= p2 < 6",
                                      f"check_type_directed({di}, {fi}, {ti}, {p0}, p1, p2, 'q')",
                                      describe={"dialect": dn, "function": list(TD_FUNCS[fi]), "argument type": t,
                                                "outer producer": str(producers(t)[p0])}, family="type-directed-rendering"))
    for ti, t in enumerate(TYPES):
        for ei in range(len(EXPECTED_SETS)):
            if quick and (ti + ei) % 2:
                continue
            items.append(Item(f"tc_{t}_{ei}", "as_tuple: bool, p0: int, p1: int, sval: str",
                              "0 <= p0 < 12 and 0 <= p1 < 10 and len(sval) <= 1",
                              f"check_typecheck({ti}, {ei}, as_tuple, p0, p1, 0, sval)",
                              describe={"type": t, "expected": list(EXPECTED_SETS[ei])}, family="typecheck"))
    for fi in range(1):
        items.append(Item(f"substr_{fi}", "p0: int, p1: int, sval: str, bad: int",
                          "0 <= p0 < 8 and 0 <= p1 < 8 and len(sval) <= 1 and 0 <= bad < 10",
                          f"check_substr_family({fi}, p0, p1, sval, bad)", describe="contains/startswith/endswith typecheck use",
                          family="typecheck"))
    for it in items[:4]:
        run.sample({"harness": it.name, "call": it.call, "describe": it.describe})
    header = ("from verif.props.c18 import check_name, check_nested, check_typecheck, check_substr_family, check_nested_pair, "
              "check_callsite, check_callsite_ok, check_type_directed\n")
    run_items(run, header, items, per_condition_timeout=60 if quick else 200,
              progress=bool(os.environ.get("VERIF_PROGRESS")))
    return run.finish()
