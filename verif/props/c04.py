"""C04 - navigation paths and any/all lambdas mean what OData says on the ORM back ends.

Engine C, relational mode (DESIGN.md section 4 C04).  Symbolic database: 2 Parent, 3 Child, 2 Tag slots and 3
many-to-many link rows, each with a symbolic `present` flag, symbolic nullable cells and nullable foreign keys that,
when set, reference a present row (referential integrity assumed).  Per filter (roots Parent and Child) the Django and
the SQLAlchemy ORM statements are produced by the live shorthands, parsed, given SQLite-model semantics (joins and
EXISTS unrolled over the slots) and compared by z3 with the relational reference (relref.py):
  ref/django, ref/sa_select   statement returns exactly the root rows the filter keeps, for every database
  agree                       Django and SQLAlchemy return the same set of root keys
Counterexample databases are loaded into a real in-memory SQLite through each ORM and the real queries are run.
"""
from __future__ import annotations

from typing import List

from ..common import Run
from ..sqlsmt import ormrel, ormrun, relgen, selftest_orm
from ..sqlsmt import values as V
from ..sqlsmt.ormclass import classify
from .c02 import _has_region, _known

PID = "C04"
BACKENDS = ["django", "sa_select"]


def _replay_known(w: dict):
    try:
        return ormrel.replay_rel_witness(w)
    except Exception as e:                                     # noqa: BLE001
        return False, f"witness could not be replayed: {type(e).__name__}: {e}"


def main() -> int:
    run = Run(PID, "translation_validation")
    ormrun.clear_replays(PID)
    quick = run.tier == "quick"
    try:
        from odata_query.django import django_q
        from odata_query.sqlalchemy import orm as saorm
        run.encode("AstToDjangoQVisitor.visit_Attribute", "AstToDjangoQVisitor.visit_CollectionLambda",
                   "odata_query.django.utils.reverse_relationship", "AstToSqlAlchemyOrmVisitor.visit_Attribute",
                   "AstToSqlAlchemyOrmVisitor.visit_CollectionLambda", "AstToSqlAlchemyOrmVisitor._maybe_sub_relationship_with_foreign_key",
                   "odata_query.sqlalchemy.shorthand.apply_odata_query (join loop)", "odata_query.django.shorthand.apply_odata_query",
                   "odata_query.utils.expression_relative_to_identifier", "odata_query.grammar.ODataParser (paths, lambdas)")
    except Exception as e:                                     # noqa: BLE001
        print(f"[{PID}] cannot import the ORM backends: {e}")
        run.notes.append(f"import failed: {e}")
        return run.finish()
    items, info = relgen.programs(run.tier, run.seed)
    timeout_ms = 20000 if quick else 90000
    for it in items:
        if it["model"] == "Ticket":      # second schema exists for SQLAlchemy only
            it.update(backends=["sa_select"], agree=False, timeout_ms=timeout_ms)
        else:
            it.update(backends=BACKENDS, agree=True, timeout_ms=timeout_ms)
    pre = [(_replay_known, (e["witness"],)) for e in run.known if _has_region(e)]
    muts = selftest_orm.rel_items(BACKENDS, timeout_ms)
    active: List[str] = []

    def after_pre(pre_out):
        active.extend(_known(run, pre_out))
        for it in items:
            it["regions"] = list(active)

    _, chunks = ormrun.run_pool(ormrel.check_relational, muts + items, PID, pre, after_pre)
    results = [r for ch in chunks for r in ch]
    selftest_orm.ingest(run, [r for r in results if r.get("family") == "selftest"])
    results = [r for r in results if r.get("family") != "selftest"]
    run.bounds = {
        "database": "vt_parent x2, vt_child x3, vt_tag x2, vt_parent_tags x3 row slots; every slot has a symbolic "
                    "present flag; primary keys symbolic, distinct, in [1, 8]; foreign keys NULL or the key of a present "
                    "row; all other cells symbolic and nullable",
        "integers": f"[{V.INT_LO}, {V.INT_HI}], literals symbolic (sentinels)",
        "strings": f"length <= {ormrel.STR_CAP} over {V.ALPH!r}", "filters": info, "z3_timeout_ms": timeout_ms}
    run.outside = ["more than 2 parents / 3 children / 2 tags / 3 links", "lambdas nested deeper than 2, paths deeper than 3",
                   "data violating referential integrity or the unique (parent, tag) link constraint",
                   "lambda bodies that evaluate to null for a member (the property quantifies over non-null child data)",
                   "duplicates in the result list (join fan-out): compared as sets, duplicates are noted on the witness"]
    run.assumptions = [
        "to-one navigation through a NULL key yields null; any(x: p) = some member makes p true; all(x: p) = every member "
        "makes p true, true on an empty collection; any() = non-empty; each root row is matched on its own related rows",
        "a to-one relationship compared as a value (boss eq null) denotes its foreign key",
        "referential integrity; unique many-to-many links; scalar assumptions of C01 (3VL, divisor != 0, no overflow)",
        "the statement's FROM / JOIN / WHERE decides which root keys come back (set semantics)"]
    stats = ormrun.ingest(run, results, classify,
                          lambda r: f"{r['ob']}:{r.get('backend')}:{r.get('model')}:{r.get('filter')}")
    v = stats["obligation_verdicts"]
    run.programs = sum(sum(c.values()) for k, c in v.items() if k.startswith(("ref/", "accept/")))
    run.disagreements_checked = sum(c.get("violation", 0) + c.get("harness_error", 0) for c in v.values())
    run.extra.update(stats)
    run.extra.update({"rule": "one evaluation = one obligation (ref per ORM, agree) of one filter, decided by one z3 "
                              "query over all databases within the bound", "known_regions_active": active})
    print(f"[{PID}] filters={len(items)} " + " ".join(f"{k}:{'/'.join(f'{a}={b}' for a, b in sorted(c.items()))}"
                                                      for k, c in sorted(v.items())), flush=True)
    return run.finish()


def replay(data: dict) -> int:
    still, what = ormrel.replay_rel_witness(data["witness"])
    print(("REPRODUCED: " if still else "not reproduced: ") + what)
    return 1 if still else 0
