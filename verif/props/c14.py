"""C14 - alias rewriting is exact substitution on field references only.

Engine B.  The real `AliasRewriter.visit` (visit_Identifier / visit_Attribute + NodeTransformer)
runs under CrossHair with *all names symbolic* (alias keys, alias targets, fields, function
names, named-parameter names, lambda variables: 1 arbitrary code point each, so every equality
pattern among them - alias == function name, == parameter name, == lambda variable - is inside the
quantifier).  The rewriter looks nodes up in `self.replacements`; a Python dict hashes its keys
and a symbolic str never closes under hashing (DESIGN.md section 3), so the alias map is handed
to the real rewriter as a hash-free `Mapping` whose lookups are linear `==` scans (same
observable semantics as a dict for frozen dataclasses; stated as an assumption).  The
text-parsing constructor is exercised separately with symbolic *picks* of concrete texts.
"""
from __future__ import annotations

import os
from collections.abc import Mapping
from typing import Any, List

from odata_query import ast
from odata_query.grammar import ODataLexer, ODataParser
from odata_query.rewrite import AliasRewriter

from .. import gen
from ..common import Run
from ..harness import Item, run_items

PID = "C14"
SHAPES: List[dict] = []
MAPS: List[dict] = []


class EqMap(Mapping):
    """dict-like without hashing: first key that compares equal wins."""

    def __init__(self, pairs):
        self._pairs = list(pairs)

    def __getitem__(self, k):
        for kk, v in self._pairs:
            if kk == k:
                return v
        raise KeyError(k)

    def __contains__(self, k):
        for kk, _ in self._pairs:
            if kk == k:
                return True
        return False

    def __iter__(self):
        return iter([k for k, _ in self._pairs])

    def __len__(self):
        return len(self._pairs)

    def get(self, k, default=None):
        for kk, v in self._pairs:
            if kk == k:
                return v
        return default


# ---------------------------------------------------------------- independent substitution oracle
def _root(d):
    while d[0] == "Attribute":
        d = d[1]
    return d


def _same_ident(a, b):
    return a[0] == "Identifier" and b[0] == "Identifier" and a[1] == b[1] and a[2] == b[2]


def ref_subst(d: Any, pairs: list, bound: list) -> Any:
    """pairs: [(decoded key, decoded target)], bound: decoded identifiers bound by enclosing lambdas."""
    tag = d[0]
    if tag == "Identifier":
        for b in bound:
            if _same_ident(d, b):
                return d
        for k, v in pairs:
            if k == d:
                return v
        return d
    if tag == "Attribute":
        r = _root(d)
        if r[0] == "Identifier":
            for b in bound:
                if _same_ident(r, b):
                    return d
        for k, v in pairs:
            if k == d:
                return v
        return ("Attribute", ref_subst(d[1], pairs, bound), d[2])
    if tag == "Call":
        return ("Call", d[1], ("args",) + tuple(ref_subst(a, pairs, bound) for a in d[2][1:]))
    if tag == "NamedParam":
        return ("NamedParam", d[1], ref_subst(d[2], pairs, bound))
    if tag == "Lambda":
        return ("Lambda", d[1], ref_subst(d[2], pairs, bound + [d[1]]))
    if tag == "CollectionLambda":
        return ("CollectionLambda", ref_subst(d[1], pairs, bound), d[2],
                None if d[3] is None else ref_subst(d[3], pairs, bound))
    if tag == "List":
        return ("List", ("items",) + tuple(ref_subst(a, pairs, bound) for a in d[1][1:]))
    if tag in ("BinOp", "BoolOp", "Compare"):
        return (tag, d[1], ref_subst(d[2], pairs, bound), ref_subst(d[3], pairs, bound))
    if tag == "UnaryOp":
        return (tag, d[1], ref_subst(d[2], pairs, bound))
    return d  # literals


def _rewriter(pairs):
    rw = AliasRewriter({})
    rw.replacements = EqMap(pairs)
    return rw


def check_subst(i: int, m: int, args: tuple) -> bool:
    sh, mp = SHAPES[i], MAPS[m]
    n = sh["n"]
    t = gen.build(sh["expr"], args[:n])
    margs = args[n:]
    keys = [gen.build(k, margs) for k, _ in mp["pairs"]]
    tgts = [gen.build(v, margs) for _, v in mp["pairs"]]
    before = gen.decode(t)
    got = _rewriter(list(zip(keys, tgts))).visit(t)
    dpairs = [(gen.decode(k), gen.decode(v)) for k, v in zip(keys, tgts)]
    want = ref_subst(before, dpairs, [])
    return gen.decode(got) == want and gen.decode(t) == before


def check_identity(i: int, args: tuple) -> bool:
    """empty map and a map whose keys occur nowhere are the identity."""
    t = gen.build(SHAPES[i]["expr"], args)
    before = gen.decode(t)
    r0 = _rewriter([]).visit(t)
    if gen.decode(r0) != before:
        return False
    far = [(ast.Identifier("__nokey__"), ast.Identifier("zz")),
           (ast.Attribute(ast.Identifier("__nokey__"), "__p__"), ast.Identifier("yy"))]
    r1 = _rewriter(far).visit(t)
    return gen.decode(r1) == before and gen.decode(t) == before and r0 == t


def _fresh(name):
    return "__fresh__" + name


def check_bijection(i: int, args: tuple) -> bool:
    """rename every field name with a fresh-name bijection, then apply the inverse: original restored."""
    sh = SHAPES[i]
    t = gen.build(sh["expr"], args)
    before = gen.decode(t)
    names = [args[h[1]] for h in sh["holes"] if h[0] == "$"]
    fwd, inv = [], []
    for nm in names:   # duplicates are harmless: the first equal key wins
        fwd.append((ast.Identifier(nm), ast.Identifier(_fresh(nm))))
        inv.append((ast.Identifier(_fresh(nm)), ast.Identifier(nm)))
    mid = _rewriter(fwd).visit(t)
    back = _rewriter(inv).visit(mid)
    return gen.decode(back) == before and gen.decode(t) == before


# constructor: text -> replacements
CTOR_TEXTS = [("a", ("Id", "a", ())), ("date", ("Id", "date", ())), ("a/b", gen.path_shape(1, "a", ["b"])),
              ("x/y/z", gen.path_shape(2, "x", ["y", "z"])), ("length(a)", ("Call", ("Id", "length", ()), [("Id", "a", ())])),
              ("tolower(b/c)", ("Call", ("Id", "tolower", ()), [gen.path_shape(1, "b", ["c"])])),
              ("ns.f", ("Id", "f", ("ns",)))]


def check_ctor(k1: int, v1: int, shared: bool) -> bool:
    """AliasRewriter(map[, lexer, parser]).replacements == {parse(k): parse(v)} for picked texts."""
    k2 = (k1 + 1) % 4
    v2 = (v1 + 3) % len(CTOR_TEXTS)
    keys = [CTOR_TEXTS[k1][0], CTOR_TEXTS[k2][0]]
    m = {keys[0]: CTOR_TEXTS[v1][0]}
    m[keys[1]] = CTOR_TEXTS[v2][0]
    if shared:
        lx, ps = ODataLexer(), ODataParser()
        try:
            ps.parse(lx.tokenize("a eq"))  # leave the shared instances in a post-error state
        except Exception:
            pass
        rw = AliasRewriter(m, lx, ps)
    else:
        rw = AliasRewriter(m)
    want = {}
    want[gen.build(CTOR_TEXTS[k1][1])] = gen.build(CTOR_TEXTS[v1][1])
    want[gen.build(CTOR_TEXTS[k2][1])] = gen.build(CTOR_TEXTS[v2][1])
    if len(rw.replacements) != len(want):
        return False
    for k, v in want.items():
        if gen.decode(rw.replacements.get(k)) != gen.decode(v):
            return False
    return True


# ---------------------------------------------------------------- shapes
def _maps() -> List[dict]:
    N = gen.NEW
    I, P1, P2 = ("Id", N, ()), gen.path_shape(1), gen.path_shape(2)
    call = ("Call", ("Id", N, ()), [("Id", N, ())])
    raw = [[(I, I)], [(I, P2)], [(P1, I)], [(I, call)], [(P2, call)], [(I, I), (P1, P1)], [(I, P1), (I, I)],
           [(P1, I), (P2, I)]]
    out = []
    for pairs in raw:
        sh, hs = gen.renumber(("m", [list(p) for p in pairs]))
        out.append({"pairs": [tuple(p) for p in sh[1]], "holes": hs, "n": len(hs)})
    return out


def _shapes(tier: str, seed: int) -> List[dict]:
    N = gen.NEW
    I = ("Id", N, ())
    leaves = [I, gen.path_shape(1), gen.path_shape(2), gen.path_shape(3), ("Id", N, (N,)), ("Str", N), ("Int", "1")]
    core = [
        ("Call", ("Id", N, ()), [I]),                                   # alias == function name
        ("Call", ("Id", N, ()), [gen.path_shape(1), I]),
        ("Call", ("Id", N, ("ns",)), [("NamedParam", ("Id", N, ()), I)]),  # alias == parameter name
        ("Call", ("Id", N, ("ns",)), [("NamedParam", ("Id", N, ()), I), ("NamedParam", ("Id", N, ()), gen.path_shape(1))]),
        ("CLambda", I, "Any", ("Lambda", ("Id", N, ()), ("Compare", "Eq", gen.path_shape(1), I))),  # alias == lambda var
        ("CLambda", gen.path_shape(1), "All", ("Lambda", ("Id", N, ()), ("Compare", "Eq", I, ("Int", "1")))),
        ("CLambda", I, "Any", None),
        ("CLambda", gen.path_shape(2), "Any", None),
        # long paths inside a lambda: a multi-segment alias key whose root coincides with the lambda variable names the
        # variable's own members there, not a field (every prefix of the path is rooted at the variable)
        # (segment names below the root are the fixed letters p / q / r: the alias key's segments are symbolic and can meet them)
        ("CLambda", I, "Any", ("Lambda", ("Id", N, ()), ("Compare", "Eq", gen.path_shape(2, N, ["p", "q"]), gen.path_shape(3, N, ["p", "q", "r"])))),
        ("CLambda", gen.path_shape(1, N, ["p"]), "All", ("Lambda", ("Id", N, ()), ("Call", ("Id", "f", ()), [gen.path_shape(3, N, ["p", "q", "r"]), gen.path_shape(1, N, ["q"])]))),
        ("List", [I, ("List", [gen.path_shape(1)]), ("Str", N)]),
        ("Compare", "In", I, ("List", [I, ("Int", "1")])),
        ("UnaryOp", "Not", ("Compare", "Eq", gen.path_shape(2), I)),
        ("BinOp", "Add", I, ("BinOp", "Mult", I, I)),                    # every occurrence replaced
        ("CLambda", I, "Any", ("Lambda", ("Id", N, ()),
                               ("CLambda", I, "All", ("Lambda", ("Id", N, ()), ("Compare", "Eq", gen.path_shape(1), I))))),
        # the outer lambda variable is used again AFTER an inner lambda closed (scoping must be a stack: the inner
        # variable may be the same name)
        ("CLambda", I, "Any", ("Lambda", ("Id", ("$", 0), ()),
                               ("BoolOp", "And", ("CLambda", gen.path_shape(1, root=("$", 0)), "Any",
                                                  ("Lambda", ("Id", N, ()), ("Compare", "Eq", I, ("Int", "1")))),
                                ("Compare", "Lt", gen.path_shape(1, root=("$", 0)), I)))),
        # the same name outside the lambda, after it, is a field again
        ("BoolOp", "Or", ("CLambda", I, "Any", ("Lambda", ("Id", N, ()), ("Compare", "Eq", I, ("Int", "1")))),
         ("Compare", "Eq", I, I)),
    ]
    d1 = list(gen.expr_shapes(1, leaves[:5], named=True, sym_ops=True))
    d2 = list(gen.expr_shapes(2, [I, gen.path_shape(1), gen.path_shape(2)], named=True, sym_ops=False))
    if tier == "quick":
        exprs = leaves + core + gen.sample(d1, 24, seed) + gen.sample(d2, 12, seed + 1)
    else:
        exprs = leaves + core + d1 + gen.sample(d2, 120, seed + 1)
    out, seen = [], set()
    for e in exprs:
        sh, hs = gen.renumber(e)
        if repr(sh) in seen:
            continue
        seen.add(repr(sh))
        out.append({"expr": sh, "holes": hs, "n": len(hs), "core": e in core})
    return out


def _shift(hs, off):
    return [(h[0], h[1] + off) + tuple(h[2:]) for h in hs]


def _lambda_var_holes(shape) -> List[int]:
    found = []

    def walk(x):
        if isinstance(x, tuple):
            if x and x[0] == "Lambda" and isinstance(x[1][1], tuple) and x[1][1][0] == "$":
                found.append(x[1][1][1])
            for y in x:
                walk(y)
        elif isinstance(x, list):
            for y in x:
                walk(y)

    walk(shape)
    return found


def prepare(tier: str, seed: int) -> None:
    SHAPES[:] = _shapes(tier, seed)
    MAPS[:] = _maps()


def main() -> int:
    run = Run(PID, "model_checking")
    run.encode("odata_query.rewrite.AliasRewriter.visit_Identifier", "odata_query.rewrite.AliasRewriter.visit_Attribute",
               "odata_query.rewrite.AliasRewriter.__init__", "odata_query.visitor.NodeTransformer.generic_visit",
               "odata_query.visitor.NodeVisitor.visit")
    prepare(run.tier, run.seed)
    run.bounds = {"names": "alias keys, targets, fields, function names, parameter names, lambda variables, namespace "
                           "segments: symbolic str, len == 1 (one arbitrary code point) - all equality patterns covered",
                  "alias maps": "8 map shapes: 1-2 keys; key in {identifier, path/1, path/2}; target in {identifier, "
                                "path, call}; the core shapes meet all 8, every other shape 2 (quick) / 4 (thorough) of them in "
                                "rotation", "tree shapes": len(SHAPES),
                  "constructor": f"symbolic picks among {len(CTOR_TEXTS)} concrete alias texts, fresh vs caller-supplied lexer/parser"}
    run.outside = ["names longer than one character", "maps with more than 2 keys", "nesting deeper than 2"]
    run.assumptions = ["the alias map is given to the real rewriter as a hash-free Mapping (linear == scan) - equivalent to a "
                       "dict for frozen dataclasses with consistent __eq__/__hash__ (C16 checks __eq__)",
                       "symbolic text cannot go through the lexer: the text-parsing constructor is checked on picked texts"]
    items = []
    nm = len(MAPS)
    for i, sh in enumerate(SHAPES):
        params, pre, names = gen.signature(sh["holes"])
        argt = f"({', '.join(names)},)" if names else "()"
        d = {"expr": sh["expr"]}
        items.append(Item(f"id{i}", params, pre, f"check_identity({i}, {argt})", describe=d, family="identity"))
        big = run.tier == "quick" and sh["n"] > 6       # quick: the largest shapes get fewer companion obligations
        if sh["n"] and not big:
            items.append(Item(f"bij{i}", params, pre, f"check_bijection({i}, {argt})", describe=d, family="bijection-inverse"))
        which = range(nm) if sh.get("core") else \
            ([(i + j) % nm for j in range(4)] if run.tier == "thorough" else [(i * 2) % nm, (i * 2 + 1) % nm])
        if big:
            which = [0, 2, 5] if sh.get("core") else [(i * 2) % nm]
        if sh.get("core") and "'Lambda'" in repr(sh["expr"]) and repr(sh["expr"]).count("'Attr'") >= 4:
            which = sorted(set(which) | {4, 7})       # long paths under a lambda: also the maps with 3-segment keys
        for m in which:
            mp = MAPS[m]
            mh = _shift(mp["holes"], sh["n"])
            p2, pre2, n2 = gen.signature(mh)
            allp = ", ".join(x for x in (params, p2) if x)
            allpre = " and ".join(x for x in (pre, pre2) if x and x != "True") or "True"
            # two identifier keys must differ (a dict has one value per key)
            kinds = [k[0] for k, _ in mp["pairs"]]
            if len(kinds) == 2 and kinds[0] == kinds[1] == "Id":
                k0 = mp["pairs"][0][0][1][1] + sh["n"]
                k1 = mp["pairs"][1][0][1][1] + sh["n"]
                allpre += f" and x{k0} != x{k1}"
            items.append(Item(f"sub{i}_{m}", allp, allpre,
                              f"check_subst({i}, {m}, ({', '.join(names + n2)},))",
                              describe={"expr": sh["expr"], "map": mp["pairs"]}, family="substitution"))
        run.sample(d, cap=4)
    nt = len(CTOR_TEXTS)
    for k1 in range(4):
        for sh_ in (False, True):
            items.append(Item(f"ctor{k1}_{int(sh_)}", "v1: int", f"0 <= v1 < {nt}", f"check_ctor({k1}, v1, {sh_})",
                              describe="constructor parses alias texts", family="constructor"))
    header = "from verif.props.c14 import check_subst, check_identity, check_bijection, check_ctor\n"
    run_items(run, header, items, per_condition_timeout=40 if run.tier == "quick" else 150,
              progress=bool(os.environ.get("VERIF_PROGRESS")))
    return run.finish()
