"""C10, layer 1 (lexer step) - `lexer_layer(run)` adds these obligations to a Run owned by the caller.

What is decided by which engine:

  z3 (Engine A, symbolic text of <= N characters over the working alphabet)
    rule-extents  N=44  every token rule, tried on its own at the start of any text (even if shadowed by an earlier rule,
                        even on the empty text), either does not match or matches >= 1 characters: no rule matches
                        the empty string.  lex1's extent is one of these rule extents, 1 for a `literals` character, or
                        ERROR, so this already implies progress of the scan.
    no-exponential-backtracking  N=16, one obligation per unbounded repeat (`*`, `+`, `{m,}` and counted repeats that cannot be
                        exhausted within N) of every rule: there is no string that the repeat consumes, from loop head back
                        to loop head, along two different NFA paths (one iteration vs. several, or two ways through the body) -
                        the classical criterion (EDA) for exponential backtracking of CPython's matcher.  sat => the witness is
                        pumped (prefix + w*n + failing suffix) and the real `_master_re.match` is timed in a child process:
                        measured exponential growth is a VIOLATION (the scan does not terminate in practice), otherwise
                        informational.  Polynomial blow-up (e.g. two adjacent loops over the same class) is not covered.
    progress      N=16  the same statement on the composed step: forall non-empty text, lex1 is ERROR, a `literals`
                        character with extent 1, or a rule match with 1 <= extent <= |text|
  CrossHair (Engine B, the real Python)
    error-hook          for every token built from symbolic picks out of pools of values / indexes / line numbers (the message
                        formats the token, so free symbolic values would be realised one by one and never close):
                        ODataLexer.error raises TokenizingException, a subclass of ODataSyntaxError and ODataException
    action:<KIND>       forall strings x of <= 6 arbitrary code points - a *superset* of the token's language restricted to
                        that length - the live token action returns the token, of the same type, whose .value is an
                        ast._Node, and raises nothing.  A counterexample only counts if the real lexer hands x to this very
                        action (`lex1(x) == (KIND, |x|)` on the real regex), and is then replayed through
                        `ODataLexer().tokenize(x)`; otherwise the over-approximation was too coarse: inconclusive.
  concrete execution on solver-produced inputs (not counted as decided obligations; evidence key `lexeme_witnesses`)
    for every token rule the solver produces whole-text lexemes (shortest, one of length >= N-4, one containing a
    non-ASCII character where the rule admits one); each is run through the real `tokenize`: exactly one token of that
    kind, value an ast._Node (WS: the text), no exception.  A rule without any such lexeme is reported as unreachable.

Composition (assume/guarantee, stated for the caller's evidence): tokenize = iterate lex1; progress gives termination of
the scan for texts of any length (each step consumes >= 1 character or raises), the error hook gives the exception class,
the action obligations give "no foreign exception and node values" per step.
"""
from __future__ import annotations

import os
from typing import Dict, List, Optional

import z3

from odata_query import ast as _ast
from odata_query import exceptions as _exc
from odata_query.grammar import ODataLexer as _OL
from sly.lex import Token as _Token

from .. import chx
from .. import rexcirc as rx
from ..common import REPO, Run
from ..harness import Item, source
from . import c06 as _v

N_LEX = 44     # per-rule extents and the solver-produced lexemes
N_STEP = 16    # the composed lex1 step (priority chain over all rules)
ACTION_LENS = (6, 3, 2, 1)     # a token action is tried on all strings of <= 6 code points; if CrossHair cannot close that
ACTION_LEN = ACTION_LENS[0]  # (e.g. str.upper() forks per character) the bound is lowered to 3, then 2, and reported
ERR_VALUES = ("", "x", "'", "''", "\x00", "\n", "a b", "é", "\ud800", "\U0001d7d8", "%" * 40, "{}", "%s", "\\")
ERR_INDEX = (0, 1, 65535)
ERR_LINENO = (1, 1000)
_LEXER = _OL()


# ------------------------------------------------------------------ harness bodies (run under CrossHair)
def t_action(kind: str, x: str) -> bool:
    tok = _Token()
    tok.type, tok.value, tok.lineno, tok.index = kind, x, 1, 0
    out = _OL._token_funcs[kind](_LEXER, tok)
    return out is tok and out.type == kind and isinstance(out.value, _ast._Node)


def t_error(iv: int, ii: int, il: int) -> bool:
    """symbolic picks from pools (the exception text formats the token, which makes CrossHair realise free values)"""
    tok = _Token()
    tok.type, tok.value, tok.lineno, tok.index = "ERROR", ERR_VALUES[iv], ERR_LINENO[il], ERR_INDEX[ii]
    try:
        r = _LEXER.error(tok)
    except _exc.TokenizingException as e:
        return (isinstance(e, _exc.ODataSyntaxError) and isinstance(e, _exc.ODataException) and e.token is tok
                and not isinstance(e, (AttributeError, IndexError, KeyError, TypeError, ValueError)))
    del r
    return False    # the hook returned: tokenize would yield / skip instead of raising


HEADER = "from verif.props.c10_lexer import t_action, t_error\n"


def _tokenize_outcome(text: str) -> str:
    try:
        toks = list(_OL().tokenize(text))
    except _exc.ODataException as e:
        return f"library exception {type(e).__name__}"
    except Exception as e:  # noqa: BLE001
        return f"FOREIGN {type(e).__name__}: {e}"
    bad = [t for t in toks if t.type in _OL._token_funcs and not isinstance(t.value, _ast._Node)]
    if bad:
        return f"NON-NODE value {bad[0].value!r} in token {bad[0].type}"
    return "tokens " + " ".join(t.type for t in toks)


def _action_layer(run: Run, progress: bool) -> None:
    spec = rx.LexSpec.live()
    kinds = sorted(_OL._token_funcs)
    err = Item("error_hook", "x0: int, x1: int, x2: int",
               f"0 <= x0 < {len(ERR_VALUES)} and 0 <= x1 < {len(ERR_INDEX)} and 0 <= x2 < {len(ERR_LINENO)}",
               "t_error(x0, x1, x2)", family="lexer-step:error-hook",
               describe=f"ODataLexer.error raises TokenizingException (an ODataException) for every token from the pools "
                        f"value x index x lineno = {len(ERR_VALUES)} x {ERR_INDEX} x {ERR_LINENO}")

    def action_item(k: str, n: int) -> Item:
        return Item(f"action_{k}_{n}", "x0: str", f"len(x0) <= {n}", f"t_action({k!r}, x0)", family="lexer-step:action",
                    describe=f"token action {k}: value is an ast._Node, nothing raised, for every string of <= {n} "
                             "code points (superset of the token's language)")

    run.encode("odata_query.grammar.ODataLexer.error", "odata_query.exceptions.TokenizingException",
               "every function in odata_query.grammar.ODataLexer._token_funcs (" + ", ".join(kinds) + ")")
    timeout = 25 if run.tier == "quick" else 300
    per_kind = {k: [action_item(k, n) for n in ACTION_LENS] for k in kinds}
    items: List[Item] = [err] + [i for k in kinds for i in per_kind[k]]
    _v.reachability(run, HEADER, [err] + [per_kind[k][0] for k in kinds])
    with chx.HarnessModule(source(HEADER, items)) as hm:
        res = hm.run([i.name for i in items], per_condition_timeout=timeout, progress=progress)

        def counterexample(itm: Item, r, kind: Optional[str]) -> None:
            oname = f"{itm.name}:{itm.describe}"
            hm.replay(r)
            if not r.reproduced:
                run.harness_error(oname, itm.family, {"message": r.message, "replay": r.replay_outcome}, r.seconds)
                return
            if kind is None:
                run.violation(oname, {"harness": "t_error", "args": list(r.args), "concrete_replay": r.replay_outcome},
                              f"ODataLexer.error on token value {ERR_VALUES[r.args[0]]!r}: {r.replay_outcome}", itm.family, r.seconds)
                return
            x = r.args[0]
            real = spec.real_lex1(x) if x else ("EOF", 0)
            if real != (kind, len(x)):
                run.inconclusive(oname, itm.family, {"why": "the action fails on a string outside the token's language; the "
                                                            "over-approximation by arbitrary strings is too coarse to decide",
                                                     "string": x, "outcome": r.replay_outcome, "real_lex1": list(real)}, r.seconds)
                return
            outcome = _tokenize_outcome(x)
            if outcome.startswith(("FOREIGN", "NON-NODE")):
                run.violation(oname, {"text": x, "tokenize_outcome": outcome, "action_replay": r.replay_outcome,
                                      "how_to_replay": "list(odata_query.grammar.ODataLexer().tokenize(text))"},
                              f"tokenize({x!r}): {outcome}", itm.family, r.seconds)
            else:
                run.harness_error(oname, itm.family, {"string": x, "action": r.replay_outcome, "tokenize": outcome}, r.seconds)

        r = res[err.name]
        if r.state == chx.CONFIRMED:
            run.discharged(f"{err.name}:{err.describe}", err.family, r.seconds)
        elif r.state in (chx.POST_FAIL, chx.EXEC_ERR):
            counterexample(err, r, None)
        else:
            run.inconclusive(f"{err.name}:{err.describe}", err.family, {"state": r.state, "message": r.message[:300]}, r.seconds)
        for k in kinds:
            # the same action at three string-length bounds, analysed side by side: the largest decided bound is reported
            failed = next((i for i in per_kind[k] if res[i.name].state in (chx.POST_FAIL, chx.EXEC_ERR)), None)
            if failed is not None:
                counterexample(failed, res[failed.name], k)
                continue
            ok = next((i for i in per_kind[k] if res[i.name].state == chx.CONFIRMED), None)
            spent = sum(res[i.name].seconds for i in per_kind[k])
            if ok is not None:
                run.discharged(f"{ok.name}:{ok.describe}", ok.family, spent)
            else:
                last = per_kind[k][-1]
                run.inconclusive(f"{last.name}:{last.describe}", last.family,
                                 {"state": res[last.name].state, "message": res[last.name].message[:300]}, spent)


def _lexeme_witnesses(run: Run, sess: rx.Session, N: int, progress: bool) -> None:
    """Solver-produced whole-text lexemes per rule, executed through the real tokenizer."""
    eng, txt = sess.engines[N], sess.texts[N]
    nonascii = eng.alphabet.idx(eng.alphabet.chars[128:])
    pool = rx.Pool()

    def mk(kind: str, mode: str):
        def build() -> rx.Query:
            k, e = txt.lex1()
            pre = [txt.L >= 1, k == eng.kind_index(kind), e == txt.L]
            if mode == "long":
                pre.append(txt.L >= N - 4)
            if mode == "nonascii":
                pre.append(z3.Or([txt.at(i, nonascii) for i in range(N)]))
            return rx.Query(f"lexeme:{kind}:{mode}", pre, [], {"t": txt}, {}, minimise=txt.L if mode == "short" else None)
        return build

    for kind in eng.names:
        for mode in ("short", "long", "nonascii"):
            pool.submit((kind, mode), mk(kind, mode), 30.0, False, f"lexeme:{kind}:{mode}")
    found: Dict[str, List[str]] = {}
    unreachable: List[str] = []
    executed = 0
    for (kind, mode), out in pool.drain():
        if out.status == "unsat":
            if mode == "short":
                unreachable.append(kind)
            continue
        if out.status != "sat":
            continue
        wt = out.witness["texts"]["t"]
        ok, real, why = sess.check_lex1(wt)
        if not ok:
            run.harness_error(f"lexeme:{kind}:{mode}", "lexer-step:lexeme-witness", why)
            continue
        text = wt["text"]
        found.setdefault(kind, []).append(text)
        outcome = _tokenize_outcome(text)
        executed += 1
        if outcome.startswith(("FOREIGN", "NON-NODE")):
            run.violation(f"lexeme:{kind}:{mode}", {"text": text, "tokenize_outcome": outcome,
                                                    "how_to_replay": "list(odata_query.grammar.ODataLexer().tokenize(text))"},
                          f"tokenize({text!r}): {outcome}", "lexer-step:lexeme-witness", out.seconds)
        elif outcome != f"tokens {kind}":
            run.harness_error(f"lexeme:{kind}:{mode}", "lexer-step:lexeme-witness",
                              f"the circuit says {text!r} is one {kind} token; tokenize gives: {outcome}")
    run.traces_validated += executed
    run.extra["lexeme_witnesses"] = {"executed_through_tokenize": executed, "per_rule": {k: v[:3] for k, v in found.items()},
                                     "rules_without_a_whole_text_lexeme_within_N": unreachable}
    for k in unreachable:
        run.notes.append(f"token rule {k} has no lexeme of <= {N} characters that is lexed as {k}: unreachable (shadowed) within the bound")


MUTANTS = [
    rx.Mutant("NULL rule may match nothing", rx.edit_optional("NULL"), ["lexer-step:rule-extent:NULL", "lexer-step:progress"]),
    rx.Mutant("WS rule may match nothing", rx.edit_replace(r"(?P<WS>\s+)", r"(?P<WS>\s*)"), ["lexer-step:rule-extent:WS", "lexer-step:progress"]),
]


def _step_obligations(sess: rx.Session, N: int, n_step: int) -> List[rx.Obligation]:
    obs = [rx.ob_rule_extents(sess, f"lexer-step:rule-extent:{nm}", "lexer-step:rule-extents", N, nm)
           for nm in sess.engines[N].names]
    obs.append(rx.ob_progress(sess, "lexer-step:progress", "lexer-step", n_step))
    # termination in practice: no unbounded repeat of any rule is exponentially ambiguous (catastrophic backtracking)
    for li, lp in enumerate(sess.engines[n_step].nfa.loops):
        obs.append(rx.ob_no_eda(sess, f"lexer-step:no-exponential-backtracking:{lp['rule']}#loop{li}", "lexer-step:backtracking",
                                n_step, li))
    return obs


def lexer_layer(run: Run, sess: Optional[rx.Session] = None, progress: Optional[bool] = None) -> Optional[rx.Session]:
    """Adds the lexer-step obligations of C10 to `run`.  Returns the session, or None if the lexer is not encodable
    (an inconclusive obligation is recorded then; the caller should exit with code 2)."""
    if progress is None:
        progress = bool(os.environ.get("VERIF_PROGRESS"))
    try:
        rx.LexSpec.live()
    except rx.NotEncodable as e:
        print(f"[{run.pid}] the current lexer cannot be encoded: {e}", flush=True)
        run.inconclusive("lexer-step:encode", "lexer-step", f"not encodable: {e}")
        return None
    actions = _v.SubRun(run, lambda r: _action_layer(r, progress))   # CrossHair part, overlaps with the z3 part
    if sess is None:
        try:
            sess = rx.Session(run, {N_LEX, N_STEP})
            sess.fill(run)
            sess.validate(run, str(REPO / "tests"), 400 if run.tier == "quick" else 4000)
        except rx.NotEncodable as e:
            print(f"[{run.pid}] the current lexer cannot be encoded: {e}", flush=True)
            run.inconclusive("lexer-step:encode", "lexer-step", f"not encodable: {e}")
            actions.join()
            return None
    N = N_LEX if N_LEX in sess.engines else max(sess.engines)
    n_step = N_STEP if N_STEP in sess.engines else min(sess.engines)
    run.bounds.update({"lexer_step_text_length_N": N, "token_action_string_length": f"{ACTION_LENS[0]} (lowered to 3 / 2 per action "
                       "when CrossHair cannot close; the bound reached is in the obligation name)",
                       "error_hook": "symbolic picks from pools of token values / indexes / line numbers"})
    run.outside.append(f"texts longer than {N} characters for the lexer-step obligations (lex1 is stateless, so one step from an "
                       "arbitrary suffix is an inductive step; rule matches longer than N are outside)")
    sess.drive(_step_obligations(sess, N, n_step), timeout=120 if run.tier == "quick" else 600, progress=progress)
    if run.tier == "thorough" or os.environ.get("VERIF_SELFTEST"):
        rx.selftest(run, sess.spec, MUTANTS, {N, n_step}, [], lambda s2: _step_obligations(s2, N, n_step), timeout=120,
                    progress=progress)
    _lexeme_witnesses(run, sess, N, progress)
    actions.join()
    return sess


def main() -> int:
    """Stand-alone run of this layer (for development; the C10 check composes it with the other layers)."""
    run = Run("C10", "model_checking")
    sess = lexer_layer(run)
    code = run.finish()
    return 2 if sess is None else code
