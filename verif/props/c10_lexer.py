"""C10, layer 1 (lexer step) - `lexer_layer(run)` adds these obligations to a Run owned by the caller.

What is decided by which engine:

  z3 (Engine A, symbolic text of <= N characters over the working alphabet)
    progress            forall non-empty text: one step of SLY's tokenize loop is ERROR, a `literals` character with
                        extent 1, or a rule match with 1 <= extent <= |text|  (no empty match => no endless loop)
    no-empty-rule       no token rule, tried on its own (even if shadowed by an earlier rule, even at the end of the text),
                        matches the empty string
  CrossHair (Engine B, the real Python)
    error-hook          forall tokens (symbolic text <= 3 characters, symbolic index / lineno): ODataLexer.error raises
                        TokenizingException, a subclass of ODataSyntaxError and ODataException, carrying the token
    action:<KIND>       forall strings x of <= 6 arbitrary code points - a *superset* of the token's language restricted to
                        that length - the live token action returns the token, of the same type, whose .value is an
                        ast._Node, and raises nothing.  A counterexample only counts if the real lexer hands x to this very
                        action (`lex1(x) == (KIND, |x|)` on the real regex), and is then replayed through
                        `ODataLexer().tokenize(x)`; otherwise the over-approximation was too coarse: inconclusive.
  concrete execution on solver-produced inputs (not counted as decided obligations; evidence key `lexeme_witnesses`)
    for every token rule the solver produces whole-text lexemes (shortest, one of length >= N-4, one containing a
    non-ASCII character where the rule admits one); each is run through the real `tokenize`: exactly one token of that
    kind, value an ast._Node (WS: the text), no exception.  A rule without any such lexeme is reported as unreachable.

Composition (assume/guarantee, stated for the caller's evidence): tokenize = iterate lex1; progress gives termination of
the scan for texts of any length (each step consumes >= 1 character or raises), the error hook gives the exception class,
the action obligations give "no foreign exception and node values" per step.
"""
from __future__ import annotations

import os
from typing import Dict, List, Optional

import z3

from odata_query import ast as _ast
from odata_query import exceptions as _exc
from odata_query.grammar import ODataLexer as _OL
from sly.lex import Token as _Token

from .. import chx
from .. import rexcirc as rx
from ..common import REPO, Run
from ..harness import Item, source
from . import c06 as _v

N_LEX = 16
ACTION_LEN = 6
_LEXER = _OL()


# ------------------------------------------------------------------ harness bodies (run under CrossHair)
def t_action(kind: str, x: str) -> bool:
    tok = _Token()
    tok.type, tok.value, tok.lineno, tok.index = kind, x, 1, 0
    out = _OL._token_funcs[kind](_LEXER, tok)
    return out is tok and out.type == kind and isinstance(out.value, _ast._Node)


def t_error(x: str, index: int, lineno: int) -> bool:
    tok = _Token()
    tok.type, tok.value, tok.lineno, tok.index = "ERROR", x, lineno, index
    try:
        r = _LEXER.error(tok)
    except _exc.TokenizingException as e:
        return (isinstance(e, _exc.ODataSyntaxError) and isinstance(e, _exc.ODataException) and e.token is tok
                and not isinstance(e, (AttributeError, IndexError, KeyError, TypeError, ValueError)))
    del r
    return False    # the hook returned: tokenize would yield / skip instead of raising


HEADER = "from verif.props.c10_lexer import t_action, t_error\n"


def _tokenize_outcome(text: str) -> str:
    try:
        toks = list(_OL().tokenize(text))
    except _exc.ODataException as e:
        return f"library exception {type(e).__name__}"
    except Exception as e:  # noqa: BLE001
        return f"FOREIGN {type(e).__name__}: {e}"
    bad = [t for t in toks if t.type in _OL._token_funcs and not isinstance(t.value, _ast._Node)]
    if bad:
        return f"NON-NODE value {bad[0].value!r} in token {bad[0].type}"
    return "tokens " + " ".join(t.type for t in toks)


def _action_layer(run: Run, sess: rx.Session, progress: bool) -> None:
    kinds = sorted(_OL._token_funcs)
    items: List[Item] = [Item("error_hook", "x0: str, x1: int, x2: int", "len(x0) <= 3 and 0 <= x1 <= 70000 and 1 <= x2 <= 1000",
                              "t_error(x0, x1, x2)", family="lexer-step:error-hook",
                              describe="ODataLexer.error raises TokenizingException (an ODataException) for any token")]
    for k in kinds:
        items.append(Item(f"action_{k}", "x0: str", f"len(x0) <= {ACTION_LEN}", f"t_action({k!r}, x0)", family="lexer-step:action",
                          describe=f"token action {k}: value is an ast._Node, nothing raised, for every string of <= {ACTION_LEN} "
                                   "code points (superset of the token's language)"))
    run.encode("odata_query.grammar.ODataLexer.error", "odata_query.exceptions.TokenizingException",
               "every function in odata_query.grammar.ODataLexer._token_funcs (" + ", ".join(kinds) + ")")
    _v.reachability(run, HEADER, items)
    timeout = 60 if run.tier == "quick" else 300
    with chx.HarnessModule(source(HEADER, items)) as hm:
        res = hm.run([i.name for i in items], per_condition_timeout=timeout, progress=progress)
        for itm in items:
            r = res[itm.name]
            oname = f"{itm.name}:{itm.describe}"
            if r.state == chx.CONFIRMED:
                run.discharged(oname, itm.family, r.seconds)
                continue
            if r.state not in (chx.POST_FAIL, chx.EXEC_ERR):
                run.inconclusive(oname, itm.family, {"state": r.state, "message": r.message[:300]}, r.seconds)
                continue
            hm.replay(r)
            if not r.reproduced:
                run.harness_error(oname, itm.family, {"message": r.message, "replay": r.replay_outcome}, r.seconds)
                continue
            if itm.name == "error_hook":
                run.violation(oname, {"harness": "t_error", "args": list(r.args), "concrete_replay": r.replay_outcome},
                              f"ODataLexer.error on token value {r.args[0]!r}: {r.replay_outcome}", itm.family, r.seconds)
                continue
            kind = itm.name[len("action_"):]
            x = r.args[0]
            real = sess.spec.real_lex1(x) if x else ("EOF", 0)
            if real != (kind, len(x)):
                run.inconclusive(oname, itm.family, {"why": "the action fails on a string outside the token's language; the "
                                                            "over-approximation by arbitrary strings is too coarse to decide",
                                                     "string": x, "outcome": r.replay_outcome, "real_lex1": list(real)}, r.seconds)
                continue
            outcome = _tokenize_outcome(x)
            if outcome.startswith(("FOREIGN", "NON-NODE")):
                run.violation(oname, {"text": x, "tokenize_outcome": outcome, "action_replay": r.replay_outcome,
                                      "how_to_replay": "list(odata_query.grammar.ODataLexer().tokenize(text))"},
                              f"tokenize({x!r}): {outcome}", itm.family, r.seconds)
            else:
                run.harness_error(oname, itm.family, {"string": x, "action": r.replay_outcome, "tokenize": outcome}, r.seconds)


def _lexeme_witnesses(run: Run, sess: rx.Session, N: int, progress: bool) -> None:
    """Solver-produced whole-text lexemes per rule, executed through the real tokenizer."""
    eng, txt = sess.engines[N], sess.texts[N]
    nonascii = eng.alphabet.idx(eng.alphabet.chars[128:])
    pool = rx.Pool()

    def mk(kind: str, mode: str):
        def build() -> rx.Query:
            k, e = txt.lex1()
            pre = [txt.L >= 1, k == eng.kind_index(kind), e == txt.L]
            if mode == "long":
                pre.append(txt.L >= N - 4)
            if mode == "nonascii":
                pre.append(z3.Or([txt.at(i, nonascii) for i in range(N)]))
            return rx.Query(f"lexeme:{kind}:{mode}", pre, [], {"t": txt}, {}, minimise=txt.L if mode == "short" else None)
        return build

    for kind in eng.names:
        for mode in ("short", "long", "nonascii"):
            pool.submit((kind, mode), mk(kind, mode), 30.0, False, f"lexeme:{kind}:{mode}")
    found: Dict[str, List[str]] = {}
    unreachable: List[str] = []
    executed = 0
    for (kind, mode), out in pool.drain():
        if out.status == "unsat":
            if mode == "short":
                unreachable.append(kind)
            continue
        if out.status != "sat":
            continue
        wt = out.witness["texts"]["t"]
        ok, real, why = sess.check_lex1(wt)
        if not ok:
            run.harness_error(f"lexeme:{kind}:{mode}", "lexer-step:lexeme-witness", why)
            continue
        text = wt["text"]
        found.setdefault(kind, []).append(text)
        outcome = _tokenize_outcome(text)
        executed += 1
        if outcome.startswith(("FOREIGN", "NON-NODE")):
            run.violation(f"lexeme:{kind}:{mode}", {"text": text, "tokenize_outcome": outcome,
                                                    "how_to_replay": "list(odata_query.grammar.ODataLexer().tokenize(text))"},
                          f"tokenize({text!r}): {outcome}", "lexer-step:lexeme-witness", out.seconds)
        elif outcome != f"tokens {kind}":
            run.harness_error(f"lexeme:{kind}:{mode}", "lexer-step:lexeme-witness",
                              f"the circuit says {text!r} is one {kind} token; tokenize gives: {outcome}")
    run.traces_validated += executed
    run.extra["lexeme_witnesses"] = {"executed_through_tokenize": executed, "per_rule": {k: v[:3] for k, v in found.items()},
                                     "rules_without_a_whole_text_lexeme_within_N": unreachable}
    for k in unreachable:
        run.notes.append(f"token rule {k} has no lexeme of <= {N} characters that is lexed as {k}: unreachable (shadowed) within the bound")


def lexer_layer(run: Run, sess: Optional[rx.Session] = None, progress: Optional[bool] = None) -> Optional[rx.Session]:
    """Adds the lexer-step obligations of C10 to `run`.  Returns the session, or None if the lexer is not encodable
    (an inconclusive obligation is recorded then; the caller should exit with code 2)."""
    if progress is None:
        progress = bool(os.environ.get("VERIF_PROGRESS"))
    if sess is None:
        try:
            sess = rx.Session(run, {N_LEX})
        except rx.NotEncodable as e:
            print(f"[{run.pid}] the current lexer cannot be encoded: {e}", flush=True)
            run.inconclusive("lexer-step:encode", "lexer-step", f"not encodable: {e}")
            return None
        sess.fill(run)
        sess.validate(run, str(REPO / "tests"), 400 if run.tier == "quick" else 4000)
    N = N_LEX if N_LEX in sess.engines else max(sess.engines)
    run.bounds.update({"lexer_step_text_length_N": N, "token_action_string_length": ACTION_LEN,
                       "error_hook_token_text_length": 3})
    run.outside.append(f"texts longer than {N} characters for the lexer-step obligations (lex1 is stateless, so one step from an "
                       "arbitrary suffix is an inductive step; rule matches longer than N are outside)")
    actions = _v.SubRun(run, lambda r: _action_layer(r, sess, progress))
    obs = [rx.ob_progress(sess, "lexer-step:progress", "lexer-step", N),
           rx.ob_no_empty_rule(sess, "lexer-step:no-rule-matches-empty", "lexer-step", N)]
    sess.drive(obs, timeout=120 if run.tier == "quick" else 600, progress=progress)
    _lexeme_witnesses(run, sess, N, progress)
    actions.join()
    return sess


def main() -> int:
    """Stand-alone run of this layer (for development; the C10 check composes it with the other layers)."""
    run = Run("C10", "model_checking")
    sess = lexer_layer(run)
    code = run.finish()
    return 2 if sess is None else code
