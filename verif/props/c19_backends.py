"""C19 backends layer: every backend translates two spellings of the same filter to the same result.

Engine B: per filter template the letter case of every keyword / case-insensitive literal part (operators, true/false/null,
duration prefix and designators, T / Z of date-times, exponent e) is a symbolic choice (lower / UPPER); the filter text
goes through the REAL lexer and parser and then through each backend; the result must equal the result for the
canonical (lower-case keywords, upper-case T/Z/designators) spelling:
  raw SQL dialects   identical SQL text;
  Django             identical SQL template and parameters (Query.sql_with_params());
  SQLAlchemy ORM/Core identical clause-tree signature and bind values (the compiler is not executable under CrossHair).
Text is concrete on each path; the solver contributes completeness of the case split (2^k spellings per template).
"""
from __future__ import annotations

from typing import Any, Dict, List

from odata_query import exceptions
from odata_query.grammar import ODataLexer, ODataParser
from odata_query.sql import AstToAthenaSqlVisitor, AstToSqliteSqlVisitor, AstToSqlVisitor

from ..common import Run
from ..harness import Item, run_items
from .. import sqllex
from . import c08

# template parts: plain str, or ("kw", canonical) whose case is a symbolic choice
TEMPLATES: List[dict] = []
CANON: Dict[tuple, Any] = {}
_LEX = ODataLexer()
BACKENDS = ["sql", "sqlite", "athena", "django", "sa_orm", "sa_core"]


def kw(w):
    return ("kw", w)


def _templates() -> List[dict]:
    T = []

    def add(name, parts, model="Item", backends=None):
        T.append({"name": name, "parts": parts, "n": sum(1 for p in parts if isinstance(p, tuple)), "model": model,
                  "backends": backends})

    add("bool-ops", ["n", kw(" gt "), "1", kw(" and "), kw("not "), "(m", kw(" le "), "2", kw(" or "), "flag", kw(" eq "), kw("true"), ")"])
    add("null-in", ["name", kw(" ne "), kw("null"), kw(" and "), "n", kw(" in "), "(1, 2)"])
    add("false-left", [kw("false"), kw(" eq "), "flag", kw(" or "), "n", kw(" mod "), "2", kw(" eq "), "1"])
    add("arith", ["n", kw(" add "), "1", kw(" mul "), "2", kw(" sub "), "m", kw(" div "), "3", kw(" ge "), "0"])
    add("datetime", ["name", kw(" lt "), "2020-02-29", kw("T"), "10:00:00", kw("Z")])
    add("datetime-offset", ["name", kw(" ge "), "2020-02-29", kw("T"), "10:00:00.5+02:00"])
    add("duration", ["n", kw(" eq "), kw("duration"), "'", kw("P"), "1", kw("D"), kw("T"), "2", kw("H"), "3", kw("M"), "4.5", kw("S"), "'"])
    add("exponent", ["n", kw(" lt "), "1.5", kw("e"), "3"])
    add("datetime-frac7", ["name", kw(" gt "), "2020-02-29", kw("T"), "23:59:58.1234567", kw("Z")])
    add("datetime-frac12", ["name", kw(" lt "), "2020-02-29", kw("T"), "23:59:58.123456789012", kw("Z")])
    add("datetime-frac-offset", ["name", kw(" ge "), "2020-02-29", kw("T"), "23:59:58.123456789+05:30"])
    add("function-bool", ["contains(name, 'a')", kw(" eq "), kw("true"), kw(" and "), "startswith(title, 'b')"])
    add("time-date", ["name", kw(" eq "), "10:30:00", kw(" or "), "title", kw(" eq "), "2020-01-31"])
    # collection lambdas (relationship models; the ORM backends only - the text dialects and Core have no lambdas)
    orm = ("django", "sa_orm")
    add("lambda-all-bool", ["children/", kw("all"), "(c: contains(c/label, 'a')", kw(" eq "), kw("true"), ")"], "Parent", orm)
    add("lambda-any-null", ["children/", kw("any"), "(c: c/k", kw(" gt "), "1", kw(" or "), "c/label", kw(" ne "), kw("null"), ")"], "Parent", orm)
    add("lambda-not-all-false", [kw("not "), "tags/", kw("all"), "(t: t/t", kw(" eq "), "'a'", kw(" and "), kw("false"), kw(" ne "),
                                 "endswith(t/t, 'b'))"], "Parent", orm)
    add("lambda-all-ne-true", ["n", kw(" lt "), "3", kw(" and "), "owned/", kw("all"), "(o: startswith(o/label, 'x')", kw(" ne "), kw("true"), ")"],
        "Parent", orm)
    return T


def render(ti: int, mask: int) -> str:
    out = []
    j = 0
    for p in TEMPLATES[ti]["parts"]:
        if isinstance(p, tuple):
            w = p[1]
            canon_upper = w in ("T", "Z", "P", "D", "H", "M", "S")
            flip = (mask >> j) & 1
            j += 1
            if canon_upper:
                out.append(w.lower() if flip else w)
            else:
                out.append(w.upper() if flip else w)
        else:
            out.append(p)
    return "".join(out)


def _norm_sql(sql: str) -> tuple:
    """SQL keywords and numeric literals are case-insensitive (1.5E3 == 1.5e3): compare token sequences with everything
    but string literals and quoted identifiers lower-cased."""
    return tuple((k, t if k in ("str", "qid") else t.lower()) for k, t in sqllex.scan(sql))


def _dj_sql(model, tree) -> tuple:
    v = c08.DJ["Visitor"](model)
    q = v.visit(tree)
    qs = model.objects.all()
    if v.queryset_annotations:
        qs = qs.annotate(**v.queryset_annotations)
    return qs.filter(q).query.sql_with_params()


def translate(bi: int, text: str, model: str = "Item"):
    tree = ODataParser().parse(_LEX.tokenize(text))
    b = BACKENDS[bi]
    try:
        if model != "Item":
            if b == "django":
                sql, params = _dj_sql(MODELS["django"][model], tree)
                return ("ok", sql, tuple(params))
            sig, binds, _ = c08.clause_profile(c08.SA["Orm"](MODELS["sa"][model]).visit(tree))
            return ("ok", tuple(sig), tuple(binds))
        if b == "sql":
            return ("ok", _norm_sql(AstToSqlVisitor().visit(tree)))
        if b == "sqlite":
            return ("ok", _norm_sql(AstToSqliteSqlVisitor("t0").visit(tree)))
        if b == "athena":
            return ("ok", _norm_sql(AstToAthenaSqlVisitor().visit(tree)))
        if b == "django":
            sql, params = c08.dj_sql(tree)
            return ("ok", sql, tuple(params))
        sig, binds, _ = c08.clause_profile(c08.sa_clause(0 if b == "sa_orm" else 1, tree))
        return ("ok", tuple(sig), tuple(binds))
    except exceptions.ODataException as e:
        return ("refused", type(e).__name__)
    except ValueError as e:      # Django's own refusal of tz-aware datetimes with USE_TZ=False
        return ("refused", "ValueError")


def canon(ti: int, bi: int):
    key = (ti, bi)
    if key not in CANON:
        CANON[key] = translate(bi, render(ti, 0), TEMPLATES[ti]["model"])
    return CANON[key]


def check(ti: int, bi: int, mask: int) -> bool:
    return translate(bi, render(ti, mask), TEMPLATES[ti]["model"]) == canon(ti, bi)


MODELS: Dict[str, Any] = {}


def prepare() -> None:
    c08.prepare("quick", 0)
    from ..models import setup as msetup
    from ..models import sa as samodels
    dj = msetup.django_setup()
    MODELS["django"] = {"Parent": dj.Parent}
    MODELS["sa"] = {"Parent": samodels.Parent}
    TEMPLATES[:] = _templates()
    for ti, t in enumerate(TEMPLATES):
        for bi, b in enumerate(BACKENDS):
            if t["backends"] is None or b in t["backends"]:
                canon(ti, bi)


def backend_layer(run: Run, progress: bool = False) -> None:
    prepare()
    quick = run.tier == "quick"
    run.encode("odata_query.sql.* / django_q / sqlalchemy visitors on re-spelled filters (through the real lexer and parser)")
    run.bounds["backend layer"] = {"templates": [t["name"] for t in TEMPLATES], "backends": BACKENDS,
                                   "case choices": "every subset of the keyword occurrences flipped (symbolic bit mask)"}
    items: List[Item] = []
    for ti, t in enumerate(TEMPLATES):
        for bi, b in enumerate(BACKENDS):
            if t["backends"] is not None and b not in t["backends"]:
                continue
            if quick and (ti + bi + run.seed) % 2 and b == "sa_core":
                continue     # quick: Core alternates (it shares every visitor method with the ORM visitor)
            n = t["n"]
            if t["model"] != "Item" and b == "sa_orm":
                # SQLAlchemy's relationship comparators (.any() / .has()) do not execute under CrossHair's tracer: every
                # spelling of these templates is enumerated concretely instead (2^n <= 64 texts), labelled as such
                badm = [m for m in range(2 ** n) if not check(ti, bi, m)]
                oname = f"be_{t['name']}_{b}:all {2 ** n} case assignments of {render(ti, 0)!r}"
                if badm:
                    text = render(ti, badm[0])
                    run.violation(oname, {"call": f"check({ti}, {bi}, {badm[0]})", "args": [], "harness": "backends-concrete", "text": text,
                                          "canonical": render(ti, 0)},
                                  f"{b}: {text!r} translates differently from {render(ti, 0)!r}", "backends:" + b + "(concrete enumeration)")
                else:
                    run.discharged(oname, "backends:" + b + "(concrete enumeration)", nontrivial=False)
                continue
            cap = min(n, (7 if b in ("sql", "sqlite", "athena") else 5) if quick else 12)
            items.append(Item(f"be_{t['name'].replace('-', '_')}_{b}", "mask: int", f"0 <= mask < {2 ** cap}",
                              f"check({ti}, {bi}, mask)", describe={"template": render(ti, 0), "backend": b, "keywords": n},
                              family="backends:" + b, isolate=b in ("sa_orm", "sa_core", "django")))

    def what(it, args, outc):
        ti = [t["name"].replace("-", "_") for t in TEMPLATES].index(it.name[3:].rsplit("_" + it.describe["backend"], 1)[0])
        bi = BACKENDS.index(it.describe["backend"])
        text = render(ti, args[0])
        return (f"{it.describe['backend']}: {text!r} -> {translate(bi, text, TEMPLATES[ti]['model'])!r}; canonical {render(ti, 0)!r} -> {canon(ti, bi)!r}")[:600]

    header = "from verif.props.c19_backends import check\n"
    run_items(run, header, items, per_condition_timeout=90 if quick else 300, what=what, progress=progress)
