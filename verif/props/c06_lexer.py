"""C06, additional lexer-layer obligations (Engine A) and the concrete boundary replay for the identifier length limit.

  blank-before:<shape>   forall blank runs w (1..3 white-space characters of the alphabet), lexemes s of the shape, delimiters d:
                         lex1(w.s.d.rest) = (WS, |w|).  No token rule that owns its surrounding white space (and, or, eq ...)
                         may bite into an identifier or literal that follows a blank: `x in (a, order_id)`, `concat(a, origin)`,
                         `items/any(i: order_id eq i/order)`.  lex1 is stateless, so this is the lexer step after `,` / `(` /
                         `:` + blank; the step on s itself is accept:<shape>, and "identifier followed by a blank run" is the
                         accept obligation with a white-space delimiter.
  identifier-length      concrete boundary replay (NOT a solver verdict): names with 127 / 128 identifier characters in 1..4
                         dot-separated parts must be one ODATA_IDENTIFIER token carrying exactly the parts; the limit is far
                         beyond the text bound of the circuit.  Reported as "bound moved out of the pattern" when the live
                         identifier rule has no counted repeat any more.
"""
from __future__ import annotations

from typing import List

from odata_query import ast as _ast
from odata_query.grammar import ODataLexer as _OL

from .. import lexspec as ls
from .. import rexcirc as rx
from ..common import Run

OPERATOR_WORDS = "|".join(list(ls.BINARY_OPERATORS) + list(ls.PREFIX_OPERATORS))


PREFIX_REGION = rx.Region("blank-then-operator-prefixed-identifier", r"\s+(?:" + OPERATOR_WORDS + r")[\s\S]+",
                          "an identifier that starts with an operator keyword (order_id, android, notes, inside ...) and follows a blank is "
                          "split: the operator rule takes the blank and the keyword prefix")


def blank_before_obligations(sess: rx.Session, tier: str) -> List[rx.Obligation]:
    layout = ls.layout_chars(sess.alphabet.chars)
    N = ls.BOUNDS["str"]
    obs = [
        # an identifier that is not itself an operator / literal keyword (those spell operators when blanks surround them)
        rx.ob_blank_before(sess, "blank-before:IDENTIFIER", "blank-before", N, "WS", layout, ls.IDENTIFIER, ls.DELIM_IDENT + layout,
                           not_in=[ls.RESERVED, OPERATOR_WORDS], regions=[PREFIX_REGION]),
        rx.ob_blank_before(sess, "blank-before:BOOLEAN|NULL", "blank-before", N, "WS", layout, ls.BOOLEAN + "|" + ls.NULL, ls.DELIM_LITERAL + layout),
        rx.ob_blank_before(sess, "blank-before:INTEGER|DECIMAL", "blank-before", ls.BOUNDS["num"], "WS", layout,
                           ls.INTEGER + "|" + ls.DECIMAL, ls.DELIM_LITERAL + layout),
        rx.ob_blank_before(sess, "blank-before:STRING", "blank-before", N, "WS", layout, ls.STRING, ls.DELIM_LITERAL + layout),
    ]
    return obs


def reference_patterns() -> List[tuple]:
    return [(PREFIX_REGION.pattern, PREFIX_REGION.flags), (OPERATOR_WORDS, rx.REF_FLAGS), (ls.BOOLEAN + "|" + ls.NULL, rx.REF_FLAGS), (ls.INTEGER + "|" + ls.DECIMAL, rx.REF_FLAGS)]


LIMIT = 128     # identifier characters of a whole (qualified) name, dots not counted: the documented limit of the library


def _names(total: int) -> List[str]:
    """names with `total` identifier characters split into 1..4 parts (equal parts, and one long + short parts)"""
    out = []
    for parts in (1, 2, 3, 4):
        base, rest = divmod(total, parts)
        sizes = [base + (1 if i < rest else 0) for i in range(parts)]
        out.append(".".join("abcd"[i] * sizes[i] for i in range(parts)))
        if parts > 1:
            sizes = [total - (parts - 1)] + [1] * (parts - 1)
            out.append(".".join("wxyz"[i] * sizes[i] for i in range(parts)))
    return out


def identifier_length_boundary(run: Run, sess: rx.Session, bound_in_pattern: bool) -> None:
    fam = "identifier-length(concrete boundary replay)"
    if not bound_in_pattern:
        run.notes.append("repeat-bounds: the identifier rule of the live pattern has no counted repeat {m,127}: the 128-character limit "
                         "has moved out of the pattern (or was dropped); it is exercised by the boundary replay only")
    bad = 0
    checked = 0
    for total in (LIMIT - 1, LIMIT):
        for name in _names(total):
            for text in (name, name + " eq 1", "f(" + name + ")"):
                checked += 1
                try:
                    toks = list(_OL().tokenize(text))
                    first = toks[0] if text.startswith(name) else toks[2]
                    parts = name.split(".")
                    ok = (first.type == "ODATA_IDENTIFIER" and type(first.value) is _ast.Identifier and first.value.name == parts[-1]
                          and first.value.namespace == tuple(parts[:-1]))
                    got = f"{first.type} {str(first.value)[:60]}"
                except Exception as e:  # noqa: BLE001
                    ok, got = False, f"{type(e).__name__}: {str(e)[:80]}"
                if not ok and bad < 4:
                    bad += 1
                    sizes = [len(p) for p in name.split(".")]
                    ctx = "alone" if text == name else ("before-blank" if text.startswith(name) else "as-argument")
                    run.violation(f"identifier-length:{sizes}:{ctx}",
                                  {"python": " + '.' + ".join(f"{p[0]!r}*{len(p)}" for p in name.split(".")), "context": text.replace(name, "<name>"),
                                   "identifier_characters": total, "length_with_dots": len(name), "outcome": got,
                                   "how_to_replay": "list(ODataLexer().tokenize(text))"},
                                  f"a name with {total} identifier characters in parts of {sizes} ({len(name)} characters with dots) is not one "
                                  f"identifier token: {got}", fam)
    if not bad:
        run.discharged(f"identifier-length: {checked} names with {LIMIT - 1} / {LIMIT} identifier characters in 1..4 parts, alone / before a blank / "
                       "as an argument: one ODATA_IDENTIFIER token with exactly these parts", fam, nontrivial=False)
