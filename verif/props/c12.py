"""C12 - a backend that cannot express a construct refuses it instead of mistranslating.

Engine B.  For every (backend, node kind, operand position) - enumerated from the node kinds the
parser can produce - the real visitor runs under CrossHair with the leaf contents symbolic (string
<= 2 code points, small int) and the choice of kind / position inside a chunk symbolic:
  * the outcome is a translation (non-None, of the backend's result type, no placeholder text) or a
    subclass of ODataException - or the documented NotImplementedError of SQLAlchemy Core for paths
    and lambdas; never another exception type, for ANY leaf content;
  * on the SQLAlchemy backends every name that is not a mapped column / relationship - symbolic pick
    from dir(Model) + table.c.keys() + fresh names - is reported as InvalidFieldException.
Completeness of an accepted translation (every field and literal represented) is decided on a
sentinel instantiation in a concrete pre-pass; by the non-interference results of C07 (SQL text) and
C08 (ORM) the output structure does not depend on literal contents, so it transfers to all contents.
Only combinations the typed table below marks well-typed are claimed.
"""
from __future__ import annotations

import os
from typing import Any, Callable, Dict, List, Optional, Tuple

from odata_query import ast, exceptions
from odata_query.grammar import ODATA_FUNCTIONS
from odata_query.roundtrip import AstToODataVisitor
from odata_query.sql import AstToAthenaSqlVisitor, AstToSqliteSqlVisitor, AstToSqlVisitor

from .. import sqllex
from ..common import Run
from ..gen import pick as gen_pick
from ..harness import Item, run_items

PID = "C12"

# ------------------------------------------------------------------ types
ANY_T = "any"
NUM, STR, BOOL, DATE_, TIME_, DT_, DUR, GUID_, GEO, LIST, UNK, NULL_ = ("num", "str", "bool", "date", "time", "dt", "dur",
                                                                           "guid", "geo", "list", "unk", "null")

I = ast.Identifier


def fld(name: str) -> Any:
    return I(name)


# kinds: (name, type, builder(s, n) -> node, root, tags)
#   root: which model the filter is relative to ('parent' | 'child'); tags: {'path', 'lambda', 'named', ...}
def _kinds() -> List[dict]:
    K: List[dict] = []

    def add(name, typ, build, root="parent", tags=(), sentinel=None, sentinel_text=None):
        K.append({"name": name, "type": typ, "build": build, "root": root, "tags": set(tags), "sentinel": sentinel,
                  "sentinel_text": sentinel_text})

    add("integer", NUM, lambda s, n: ast.Integer(str(n)), sentinel="7013")
    add("float", NUM, lambda s, n: ast.Float(str(n) + ".5"), sentinel="7013.5")
    add("boolean", BOOL, lambda s, n: ast.Boolean("true" if n % 2 else "false"))
    add("string", STR, lambda s, n: ast.String(s), sentinel="zqx")
    add("null", NULL_, lambda s, n: ast.Null())
    add("date", DATE_, lambda s, n: ast.Date("2031-07-19"), sentinel="2031-07-19")
    add("time", TIME_, lambda s, n: ast.Time("21:43:59"), sentinel="21:43:59")
    add("datetime", DT_, lambda s, n: ast.DateTime("2031-07-19T21:43:59Z"), sentinel="2031-07-19")
    add("datetime-min-offset", DT_, lambda s, n: ast.DateTime("0001-01-01T00:00:00+01:00"), sentinel="0001")
    add("datetime-max-offset", DT_, lambda s, n: ast.DateTime("9999-12-31T23:59:59.999999-01:00"), sentinel="9999")
    add("date-min", DATE_, lambda s, n: ast.Date("0001-01-01"), sentinel="0001")
    # more fractional digits than a Python datetime holds: the text dialects carry the literal verbatim (7 digits), the ORM
    # backends go through datetime (microseconds: the first 6 digits)
    add("datetime-frac7", DT_, lambda s, n: ast.DateTime("2031-07-19T21:43:59.1234567Z"), sentinel="123456", sentinel_text="1234567")
    add("time-frac7", TIME_, lambda s, n: ast.Time("21:43:59.1234567"), sentinel="123456", sentinel_text="1234567")
    add("datetime-leap-day", DT_, lambda s, n: ast.DateTime("2032-02-29T23:59:59.5-00:30"), sentinel="2032")
    add("duration", DUR, lambda s, n: ast.Duration("P41DT7H"), sentinel="41")
    add("guid", GUID_, lambda s, n: ast.GUID("6c0e37e3-e856-45ee-bd58-484b11882c67"), sentinel="6c0e37e3")
    add("geography", GEO, lambda s, n: ast.Geography("POINT(1 2)"))
    add("field", UNK, lambda s, n: fld("name"))
    add("bool-field", BOOL, lambda s, n: fld("flag"), root="item")
    add("not-bool-field", BOOL, lambda s, n: ast.UnaryOp(ast.Not(), fld("flag")), root="item")
    add("ne-of-negation", BOOL, lambda s, n: ast.Compare(ast.NotEq(), ast.UnaryOp(ast.Not(), ast.Boolean("true")), fld("flag")), root="item")
    add("ne-with-negation", BOOL, lambda s, n: ast.Compare(ast.NotEq(), ast.Boolean("false"), ast.UnaryOp(ast.Not(), fld("flag"))), root="item")
    add("neg-field", NUM, lambda s, n: ast.UnaryOp(ast.USub(), fld("n")))
    add("neg-literal", NUM, lambda s, n: ast.UnaryOp(ast.USub(), ast.Integer(str(n))))
    add("neg-expr", NUM, lambda s, n: ast.UnaryOp(ast.USub(), ast.BinOp(ast.Add(), fld("n"), ast.Integer(str(n)))))
    add("not-compare", BOOL, lambda s, n: ast.UnaryOp(ast.Not(), ast.Compare(ast.Eq(), fld("name"), ast.String(s))))
    add("arith", NUM, lambda s, n: ast.BinOp(ast.Mod(), fld("n"), ast.Integer(str(n))))
    add("compare", BOOL, lambda s, n: ast.Compare(ast.LtE(), fld("n"), ast.Integer(str(n))))
    add("in-list", BOOL, lambda s, n: ast.Compare(ast.In(), fld("name"), ast.List([ast.String(s), ast.String("b")])))
    add("list", LIST, lambda s, n: ast.List([ast.String(s), ast.String("b")]))
    add("list-singleton", LIST, lambda s, n: ast.List([ast.Integer(str(n))]))
    add("path", UNK, lambda s, n: ast.Attribute(fld("parent"), "name"), root="child", tags=("path",))
    add("path-through-column", UNK, lambda s, n: ast.Attribute(fld("label"), "x"), root="child", tags=("path",))
    add("path2", UNK, lambda s, n: ast.Attribute(ast.Attribute(fld("parent"), "boss"), "n"), root="child", tags=("path",))
    lam = lambda s, n: ast.Lambda(I("c"), ast.Compare(ast.Gt(), ast.Attribute(I("c"), "k"), ast.Integer(str(n))))  # noqa: E731
    add("any-empty", BOOL, lambda s, n: ast.CollectionLambda(fld("children"), ast.Any(), None), tags=("lambda",))
    add("any-lambda", BOOL, lambda s, n: ast.CollectionLambda(fld("children"), ast.Any(), lam(s, n)), tags=("lambda",))
    add("all-lambda", BOOL, lambda s, n: ast.CollectionLambda(fld("children"), ast.All(), lam(s, n)), tags=("lambda",))
    add("any-string-lambda", BOOL, lambda s, n: ast.CollectionLambda(
        fld("tags"), ast.Any(), ast.Lambda(I("t"), ast.Compare(ast.Eq(), ast.Attribute(I("t"), "t"), ast.String(s)))), tags=("lambda",))
    add("lambda-outer-column", BOOL, lambda s, n: ast.CollectionLambda(fld("children"), ast.Any(), ast.Lambda(
        I("c"), ast.Compare(ast.Gt(), ast.Attribute(I("c"), "k"), fld("n")))), tags=("lambda", "outer-column"))
    add("path-lambda", BOOL, lambda s, n: ast.CollectionLambda(ast.Attribute(fld("parent"), "children"), ast.Any(), lam(s, n)),
        root="child", tags=("lambda", "path"))
    add("path-lambda-rev", BOOL, lambda s, n: ast.CollectionLambda(ast.Attribute(fld("owner"), "minions"), ast.Any(), ast.Lambda(
        I("m"), ast.Compare(ast.Gt(), ast.Attribute(I("m"), "n"), ast.Integer(str(n))))), root="child", tags=("lambda", "path"))
    add("path2-lambda", BOOL, lambda s, n: ast.CollectionLambda(ast.Attribute(ast.Attribute(fld("parent"), "boss"), "tags"), ast.Any(), None),
        root="child", tags=("lambda", "path"))
    add("custom-call", UNK, lambda s, n: ast.Call(I("fn", ("ns",)), [fld("name"), ast.String(s)]), tags=("custom",))
    add("named-builtin", BOOL, lambda s, n: ast.Call(I("contains"), [ast.NamedParam(I("field"), fld("name")),
                                                                     ast.NamedParam(I("substr"), ast.String(s))]), tags=("named",))
    add("named-builtin-1", STR, lambda s, n: ast.Call(I("tolower"), [ast.NamedParam(I("field"), fld("name"))]), tags=("named",))
    add("named-params", UNK, lambda s, n: ast.Call(I("fn", ("ns",)), [ast.NamedParam(I("p"), ast.String(s)),
                                                                       ast.NamedParam(I("q"), ast.Integer(str(n)))]), tags=("custom", "named"))
    # every built-in function with typical (well-typed) arguments
    S_, N_ = (lambda s: ast.String(s)), (lambda n: ast.Integer(str(n)))
    sig = {
        "concat": (STR, lambda s, n: [fld("name"), S_(s)]), "contains": (BOOL, lambda s, n: [fld("name"), S_(s)]),
        "endswith": (BOOL, lambda s, n: [fld("name"), S_(s)]), "startswith": (BOOL, lambda s, n: [fld("name"), S_(s)]),
        "indexof": (NUM, lambda s, n: [fld("name"), S_(s)]), "length": (NUM, lambda s, n: [fld("name")]),
        "substring": (STR, lambda s, n: [fld("name"), N_(n)]), "matchesPattern": (BOOL, lambda s, n: [fld("name"), S_(s)]),
        "tolower": (STR, lambda s, n: [fld("name")]), "toupper": (STR, lambda s, n: [S_(s)]), "trim": (STR, lambda s, n: [fld("name")]),
        "year": (NUM, lambda s, n: [fld("n")]), "month": (NUM, lambda s, n: [fld("n")]), "day": (NUM, lambda s, n: [fld("n")]),
        "hour": (NUM, lambda s, n: [fld("n")]), "minute": (NUM, lambda s, n: [fld("n")]), "second": (NUM, lambda s, n: [fld("n")]),
        "fractionalseconds": (NUM, lambda s, n: [fld("n")]), "totalseconds": (NUM, lambda s, n: [ast.Duration("P1D")]),
        "date": (DATE_, lambda s, n: [fld("n")]), "time": (TIME_, lambda s, n: [fld("n")]),
        "totaloffsetminutes": (NUM, lambda s, n: [fld("n")]), "mindatetime": (DT_, lambda s, n: []),
        "maxdatetime": (DT_, lambda s, n: []), "now": (DT_, lambda s, n: []), "round": (NUM, lambda s, n: [fld("n")]),
        "floor": (NUM, lambda s, n: [fld("n")]), "ceiling": (NUM, lambda s, n: [fld("n")]),
        "geo.distance": (NUM, lambda s, n: [fld("name"), ast.Geography("POINT(1 2)")]), "geo.length": (NUM, lambda s, n: [fld("name")]),
        "geo.intersects": (BOOL, lambda s, n: [fld("name"), ast.Geography("POINT(1 2)")]),
        "hassubset": (BOOL, lambda s, n: [fld("name"), ast.List([S_(s), S_("b")])]),
        "hassubsequence": (BOOL, lambda s, n: [fld("name"), ast.List([S_(s)])]),
    }
    for full in ODATA_FUNCTIONS:
        if full not in sig:
            continue
        typ, mk = sig[full]
        ns, _, nm = full.rpartition(".")

        def b(s, n, nm=nm, ns=ns, mk=mk):
            return ast.Call(I(nm, (ns,) if ns else ()), mk(s, n))
        add("fn:" + full, typ, b, tags=("builtin", "geo") if ns == "geo" else ("builtin",))
    add("fn:substring/3", STR, lambda s, n: ast.Call(I("substring"), [fld("name"), N_(n), N_(2)]), tags=("builtin",))
    add("fn:length(list)", NUM, lambda s, n: ast.Call(I("length"), [ast.List([S_(s), S_("b")])]), tags=("builtin",))
    add("fn:concat(list)", LIST, lambda s, n: ast.Call(I("concat"), [ast.List([S_(s)]), ast.List([S_("b")])]), tags=("builtin",))
    add("fn:contains(path)", BOOL, lambda s, n: ast.Call(I("contains"), [fld("label"), ast.Attribute(fld("parent"), "name")]),
        root="child", tags=("builtin", "path"))
    return K


# positions: (name, accepted types, wrap(node) -> filter)
def _positions() -> List[dict]:
    P: List[dict] = []

    def add(name, accepts, wrap):
        P.append({"name": name, "accepts": accepts, "wrap": wrap})

    scalar = {NUM, STR, BOOL, DATE_, TIME_, DT_, DUR, GUID_, GEO, UNK, NULL_}
    add("top", {BOOL}, lambda x, r: x)
    add("cmp-right", scalar, lambda x, r: ast.Compare(ast.Eq(), fld(_f(r)), x))
    add("cmp-left", scalar, lambda x, r: ast.Compare(ast.NotEq(), x, fld(_f(r))))
    add("arith-left", {NUM, UNK, NULL_}, lambda x, r: ast.Compare(ast.Gt(), ast.BinOp(ast.Add(), x, ast.Integer("1")), ast.Integer("2")))
    add("arith-right", {NUM, UNK, NULL_}, lambda x, r: ast.Compare(ast.Gt(), ast.BinOp(ast.Mult(), fld(_n(r)), x), ast.Integer("2")))
    add("func-arg", {STR, UNK, NULL_}, lambda x, r: ast.Compare(ast.Eq(), ast.Call(I("tolower"), [x]), ast.String("v")))
    add("pattern-arg", {STR, UNK, NULL_}, lambda x, r: ast.Call(I("contains"), [fld(_f(r)), x]))
    add("pattern-arg-startswith", {STR, UNK, NULL_}, lambda x, r: ast.Compare(ast.Eq(), ast.Call(I("startswith"), [fld(_f(r)), x]), ast.Boolean("true")))
    add("pattern-subject", {STR, UNK, NULL_}, lambda x, r: ast.Call(I("endswith"), [x, ast.String("v")]))
    add("bool-left", {BOOL}, lambda x, r: ast.BoolOp(ast.And(), x, ast.Compare(ast.Gt(), fld(_n(r)), ast.Integer("1"))))
    add("bool-right", {BOOL}, lambda x, r: ast.BoolOp(ast.Or(), ast.Compare(ast.Gt(), fld(_n(r)), ast.Integer("1")), x))
    add("not-operand", {BOOL}, lambda x, r: ast.UnaryOp(ast.Not(), x))
    add("in-member", scalar, lambda x, r: ast.Compare(ast.In(), fld(_f(r)), ast.List([x, ast.Integer("1")])))
    add("in-left", scalar - {NULL_}, lambda x, r: ast.Compare(ast.In(), x, ast.List([ast.String("a"), ast.String("b")])))
    add("length-arg", {STR, LIST, UNK}, lambda x, r: ast.Compare(ast.Gt(), ast.Call(I("length"), [x]), ast.Integer("1")))
    return P


def _f(root: str) -> str:
    return "label" if root == "child" else "name"


def _n(root: str) -> str:
    return "k" if root == "child" else "n"


KINDS: List[dict] = []
POS: List[dict] = []
BACKENDS: List[dict] = []
COMPLETE: Dict[tuple, Any] = {}    # (backend, kind, pos) -> None (ok / not applicable) or a description of what is missing


def well_typed(k: dict, p: dict) -> bool:
    return k["type"] in p["accepts"]


# ------------------------------------------------------------------ backends
def _setup_backends() -> List[dict]:
    from ..models import setup as msetup
    dj = msetup.django_setup()
    from ..models import sa as samodels
    from odata_query.django.django_q import AstToDjangoQVisitor
    from odata_query.sqlalchemy.core import AstToSqlAlchemyCoreVisitor
    from odata_query.sqlalchemy.orm import AstToSqlAlchemyOrmVisitor
    from django.db.models import Q
    from django.db.models.expressions import Combinable
    from sqlalchemy.sql.expression import ClauseElement
    B = []
    for nm, cls in (("sql", AstToSqlVisitor), ("sqlite", AstToSqliteSqlVisitor), ("athena", AstToAthenaSqlVisitor)):
        B.append({"name": nm, "run": (lambda t, r, cls=cls: cls().visit(t)), "ok": (lambda o: isinstance(o, str)), "text": True})
    B.append({"name": "roundtrip", "run": (lambda t, r: AstToODataVisitor().visit(t)), "ok": (lambda o: isinstance(o, str)), "text": True})

    def run_dj(t, r):
        v = AstToDjangoQVisitor({"parent": dj.Parent, "child": dj.Child, "item": dj.Item}[r])
        return (v.visit(t), v.queryset_annotations)
    B.append({"name": "django", "run": run_dj, "ok": (lambda o: isinstance(o[0], (Q, Combinable)) or hasattr(o[0], "resolve_expression")), "text": False})

    def run_sa(t, r):
        return AstToSqlAlchemyOrmVisitor({"parent": samodels.Parent, "child": samodels.Child, "item": samodels.Item}[r]).visit(t)
    B.append({"name": "sa_orm", "run": run_sa, "ok": (lambda o: isinstance(o, ClauseElement) or hasattr(o, "__clause_element__")), "text": False})

    def run_core(t, r):
        return AstToSqlAlchemyCoreVisitor({"parent": samodels.Parent, "child": samodels.Child, "item": samodels.Item}[r].__table__).visit(t)
    B.append({"name": "sa_core", "run": run_core, "ok": (lambda o: isinstance(o, ClauseElement)), "text": False})
    return B


ALLOWED_FOREIGN = {"sa_core": (NotImplementedError,)}    # documented: paths and lambdas


def outcome(bi: int, ki: int, pi: int, s: str, n: int):
    k, p, b = gen_pick(KINDS, ki), gen_pick(POS, pi), BACKENDS[bi]
    tree = p["wrap"](k["build"](s, n), k["root"])
    try:
        out = b["run"](tree, k["root"])
        out = b["run"](tree, k["root"])     # translating the same parsed tree again must behave the same way
    except exceptions.ODataException as e:
        return ("refused", type(e).__name__)
    except NotImplementedError as e:
        if b["name"] in ALLOWED_FOREIGN and (k["tags"] & {"path", "lambda"}):
            return ("refused", "NotImplementedError")
        return ("foreign", "NotImplementedError: " + str(e)[:60])
    except ImportError as e:
        if b["name"] == "django" and "geo" in k["tags"]:
            return ("refused", "ImportError (GeoDjango not installed: documented)")
        return ("foreign", "ImportError: " + str(e)[:60])
    except Exception as e:  # noqa: BLE001
        return ("foreign", type(e).__name__ + ": " + str(e)[:80])
    if out is None or not b["ok"](out):
        return ("bad-output", repr(out)[:80])
    if b["text"]:
        for kind, txt in sqllex.scan(out):
            if kind == "word" and txt == "None":
                return ("bad-output", "placeholder None in " + out[:80])
    return ("ok", out)


def _verdict(bi: int, ki: int, pi: int, s: str, n: int) -> bool:
    k, p = gen_pick(KINDS, ki), gen_pick(POS, pi)
    if not well_typed(k, p):
        return True
    o = outcome(bi, ki, pi, s, n)
    if o[0] in ("foreign", "bad-output"):
        return False
    if o[0] == "ok" and COMPLETE.get((bi, ki, pi)) is not None:
        return False
    return True


def crosshair_unfit(bi: int, ki: int) -> bool:
    """SQLAlchemy's relationship.any()/has() machinery is not executable under CrossHair 0.0.110 (it raises
    'TypeError: __hash__ method should return an integer' / answers non-deterministically even with concrete
    arguments), so lambdas on the SQLAlchemy ORM backend are decided by the concrete pre-pass only."""
    return BACKENDS[bi]["name"] == "sa_orm" and "lambda" in KINDS[ki]["tags"]


def check_picks(bi: int, lo: int, ki: int, pi: int) -> bool:
    """symbolic choice of node kind (inside a chunk) and position; leaf contents are the sentinels."""
    if crosshair_unfit(bi, lo + ki):
        return True
    return _verdict(bi, lo + ki, pi, "zqx", 7013)


def check_content(bi: int, ki: int, pi: int, s: str) -> bool:
    """kinds with a string leaf on the text backends: symbolic position and symbolic string content."""
    return _verdict(bi, ki, pi, s, 7013)


# ------------------------------------------------------------------ completeness pre-pass (concrete, sentinel leaves)
def _complete(bi: int, ki: int, pi: int) -> Optional[str]:
    k, p, b = KINDS[ki], POS[pi], BACKENDS[bi]
    if not well_typed(k, p):
        return None
    o = outcome(bi, ki, pi, "zqx", 7013)
    if o[0] != "ok":
        return None
    out = o[1]
    tree = p["wrap"](k["build"]("zqx", 7013), k["root"])
    fields, strings, ints = set(), set(), set()

    def walk(x):
        if isinstance(x, ast.Identifier) and not x.namespace:
            fields.add(x.name)
        if isinstance(x, ast.Attribute):
            fields.add(x.attr)
        if isinstance(x, ast.String):
            strings.add(x.val)
        if isinstance(x, (ast.Integer,)):
            ints.add(x.val)
        if isinstance(x, ast.Call):
            for a in x.args:
                walk(a)
            return
        if isinstance(x, ast.Lambda):
            walk(x.expression)
            return
        if isinstance(x, ast.NamedParam):
            walk(x.param)
            return
        if isinstance(x, ast._Node):
            from dataclasses import fields as dfields
            for f in dfields(x):
                v = getattr(x, f.name)
                if isinstance(v, list):
                    for y in v:
                        walk(y)
                elif isinstance(v, ast._Node):
                    walk(v)
    walk(tree)
    # lambda variables are not fields
    for x in _lambda_vars(tree):
        fields.discard(x)
    if b["text"]:
        text = out
    elif b["name"] == "django":
        text = _django_text(out)
    else:
        text = _sa_text(out)
    low = text.lower()
    if not b["text"]:
        # ORM: relationship names are rendered as joined tables / sub-queries, only leaf columns and values are looked for;
        # constant folding (x OR true) may legitimately drop operands when a boolean literal takes part
        if k["name"] == "boolean":
            return None
        rels = {"children", "tags", "parent", "boss", "owner", "owned", "minions"}
        fields -= rels
    digits = "".join(c for c in text if c.isdigit())
    missing = [f for f in fields if f.lower() not in low] + [v for v in strings if v and v not in text] + \
              [v for v in ints if v.lstrip("+-") not in text]
    sent = (k.get("sentinel_text") if b["text"] else None) or k["sentinel"]
    if sent and sent not in text:
        sd = "".join(c for c in sent if c.isdigit())
        alt = "".join(str(int(x)) for x in sent.replace(":", "-").split("-") if x.isdigit())   # 2031-07-19 -> 2031719
        if not sd or (sd not in digits and alt not in digits):
            missing.append(sent)
    return ("missing " + ", ".join(sorted(missing)) + " in " + text[:120]) if missing else None


def _lambda_vars(t) -> List[str]:
    out = []

    def walk(x):
        if isinstance(x, ast.Lambda):
            out.append(x.identifier.name)
        if isinstance(x, ast._Node):
            from dataclasses import fields as dfields
            for f in dfields(x):
                v = getattr(x, f.name)
                if isinstance(v, list):
                    for y in v:
                        walk(y)
                elif isinstance(v, ast._Node):
                    walk(v)
    walk(t)
    return out


def _django_text(out) -> str:
    q, ann = out
    parts: List[str] = []
    seen = set()
    keep: List[Any] = []     # keep walked objects alive so that ids stay unique

    def walk(x):
        if x is None:
            return
        if isinstance(x, (list, tuple)):
            for y in x:
                walk(y)
            return
        if id(x) in seen:
            return
        seen.add(id(x))
        keep.append(x)
        if isinstance(x, (str, int, float, bool)):
            parts.append(repr(x))
            return
        parts.append(type(x).__name__)
        if hasattr(x, "query") and hasattr(x.query, "where"):      # Exists / Subquery: walk its WHERE tree
            walk(x.query.where)
        for attr in ("name", "value"):
            if hasattr(x, attr) and isinstance(getattr(x, attr), (str, int, float, bool)) or (attr == "value" and hasattr(x, attr)):
                parts.append(repr(getattr(x, attr)))
        for attr in ("children", "lhs", "rhs"):
            if hasattr(x, attr):
                walk(getattr(x, attr))
        if hasattr(x, "get_source_expressions"):
            try:
                walk(x.get_source_expressions())
            except Exception:  # noqa: BLE001
                pass

    walk(q)
    for k, v in ann.items():
        parts.append(k)
        walk(v)
    return " ".join(parts)


def _sa_text(out) -> str:
    from sqlalchemy.dialects import sqlite
    c = out.compile(dialect=sqlite.dialect(), compile_kwargs={"literal_binds": False})
    return str(c) + " " + repr(list(c.params.values()))


# ------------------------------------------------------------------ unknown fields on SQLAlchemy
NAMES: List[str] = []
MAPPED: Dict[str, set] = {}
CORE_FROMS: List[tuple] = []     # further FROM objects for the Core visitor: column KEYS differ from column NAMES there


def _core_froms() -> List[tuple]:
    import sqlalchemy as sa
    from ..models import sa as samodels
    p, c = samodels.Parent.__table__, samodels.Child.__table__
    keyed = sa.Table("vt_keyed", sa.MetaData(), sa.Column("id", sa.Integer, key="pk", primary_key=True),
                     sa.Column("name", sa.String, key="label"), sa.Column("n", sa.Integer, key="count"))
    return [("core-join", p.join(c, c.c.parent_id == p.c.id)), ("core-keyed", keyed),
            ("core-subquery", sa.select(p).subquery()), ("core-alias", p.alias("pp"))]


N_UNKNOWN_SHAPES = 12


def check_unknown(which: int, ni: int, shape: int) -> bool:
    from ..models import sa as samodels
    from odata_query.sqlalchemy.core import AstToSqlAlchemyCoreVisitor
    from odata_query.sqlalchemy.orm import AstToSqlAlchemyOrmVisitor
    name = gen_pick(NAMES, ni)
    node = [ast.Compare(ast.Eq(), I(name), ast.Integer("1")),
            ast.Call(I("tolower"), [I(name)]),
            ast.BinOp(ast.Add(), I(name), ast.Integer("1")),
            ast.Compare(ast.In(), I(name), ast.List([ast.Integer("1")])),
            ast.Call(I("contains"), [I(name), ast.String("")]),            # degenerate arguments must not let the field go unvisited
            ast.Call(I("endswith"), [I(name), ast.String("a")]),
            ast.Compare(ast.Eq(), I(name), ast.Null()),
            ast.Compare(ast.Eq(), ast.Null(), I(name)),
            ast.BoolOp(ast.Or(), ast.Boolean("true"), ast.Compare(ast.Eq(), I(name), ast.Integer("1"))),
            ast.Call(I("startswith"), [ast.String(""), I(name)]),
            ast.Compare(ast.In(), ast.Integer("1"), ast.List([I(name)])),
            ast.Compare(ast.In(), I(name), ast.List([]))][shape]
    if which == 0:
        vis = AstToSqlAlchemyOrmVisitor(samodels.Parent)
    elif which == 1:
        vis = AstToSqlAlchemyCoreVisitor(samodels.Parent.__table__)
    else:
        vis = AstToSqlAlchemyCoreVisitor(CORE_FROMS[which - 2][1])
    mapped = MAPPED["orm" if which == 0 else "core" if which == 1 else CORE_FROMS[which - 2][0]]
    if name in mapped:
        return True            # a mapped name: whether the expression is well-typed is not this clause's subject
    try:
        vis.visit(node)
    except exceptions.InvalidFieldException as e:
        return e.field_name == name
    except Exception:  # noqa: BLE001
        return False
    return False


def _has_string_leaf(k: dict) -> bool:
    a, b = k["build"]("\x01A", 1), k["build"]("\x01B", 1)
    return a != b


def prepare(tier: str, seed: int) -> None:
    KINDS[:] = _kinds()
    POS[:] = _positions()
    BACKENDS[:] = _setup_backends()
    COMPLETE.clear()
    for bi in range(len(BACKENDS)):
        for ki in range(len(KINDS)):
            for pi in range(len(POS)):
                try:
                    COMPLETE[(bi, ki, pi)] = _complete(bi, ki, pi)
                except Exception as e:  # noqa: BLE001
                    COMPLETE[(bi, ki, pi)] = f"completeness probe raised {type(e).__name__}: {e}"[:160]
    from ..models import sa as samodels
    import sqlalchemy as sa
    insp = sa.inspect(samodels.Parent)
    MAPPED["orm"] = set(insp.columns.keys()) | set(insp.relationships.keys())
    MAPPED["core"] = set(samodels.Parent.__table__.c.keys())
    CORE_FROMS[:] = _core_froms()
    for nm, fo in CORE_FROMS:
        MAPPED[nm] = set(fo.c.keys())
    names_of_columns = {col.name for _nm, fo in CORE_FROMS for col in fo.c} | {k for _nm, fo in CORE_FROMS for k in fo.c.keys()}
    pool = set(dir(samodels.Parent)) | MAPPED["core"] | names_of_columns | {"nope", "Name", "N", "id_", "children_", "__table__x", "metadatax"}
    NAMES[:] = sorted(pool)


def main() -> int:
    run = Run(PID, "model_checking")
    run.encode("odata_query.visitor.NodeVisitor.visit/generic_visit", "odata_query.sql.{base,sqlite,athena} visitors",
               "odata_query.roundtrip.AstToODataVisitor", "odata_query.django.django_q.AstToDjangoQVisitor",
               "odata_query.sqlalchemy.{common,orm,core} visitors", "odata_query.typing.typecheck/infer_type")
    prepare(run.tier, run.seed)
    quick = run.tier == "quick"
    nwt = sum(1 for k in KINDS for p in POS if well_typed(k, p))
    run.bounds = {"node kinds": [k["name"] for k in KINDS], "positions": [p["name"] for p in POS],
                  "backends": [b["name"] for b in BACKENDS], "well-typed (kind, position) pairs": nwt,
                  "leaf contents": "string leaves symbolic (len <= 1 quick / <= 2 thorough) on the text backends; sentinels elsewhere",
                  "unknown-field names": f"symbolic pick from {len(NAMES)} names (dir(Model), table columns, fresh names)"}
    run.outside = ["ill-typed (kind, position) combinations", "constructs nested deeper than kind-inside-position",
                   "field names outside the pool (unknown-field clause)"]
    run.assumptions = ["completeness (every field/literal represented) is decided on a sentinel instantiation in a concrete pre-pass; "
                       "independence of the output structure from literal contents is C07's / C08's result",
                       "well-typedness follows the typed table of this module (kind type in position's accepted types)"]
    miss = {k: v for k, v in COMPLETE.items() if v}
    run.extra["completeness_probe"] = {"combinations": len(COMPLETE), "incomplete": len(miss)}
    # combinations CrossHair cannot execute: decided concretely (enumeration, NOT a solver verdict - labelled as such)
    conc = 0
    for bi in range(len(BACKENDS)):
        for ki in range(len(KINDS)):
            if not crosshair_unfit(bi, ki):
                continue
            for pi in range(len(POS)):
                if not well_typed(KINDS[ki], POS[pi]):
                    continue
                conc += 1
                if not _verdict(bi, ki, pi, "zqx", 7013):
                    o = outcome(bi, ki, pi, "zqx", 7013)
                    key = [BACKENDS[bi]["name"], KINDS[ki]["name"], POS[pi]["name"]]
                    ent = run.match_known(lambda k: key in k.get("witness", {}).get("combos", []))
                    desc = f"backend={key[0]} kind={key[1]} position={key[2]}: {o[0]} {str(o[1])[:120]} {COMPLETE.get((bi, ki, pi)) or ''}"
                    if ent:
                        run.known_finding(ent, desc, name="concrete:" + "/".join(key), family="concrete-enumeration")
                    else:
                        run.violation("concrete:" + "/".join(key), {"combo": key, "outcome": [o[0], str(o[1])[:300]]}, desc,
                                      family="concrete-enumeration")
    run.extra["concretely_enumerated_not_solver_decided"] = conc
    run.notes.append(f"{conc} (sa_orm, lambda kind, position) combinations are enumerated concretely only: SQLAlchemy's "
                     "relationship.any() is not executable under CrossHair")
    # known findings: an entry lists (backend, kind, position) combinations; each is honoured only if it still fails
    # concretely, and is then excluded from the symbolic picks - every other combination is still decided
    bidx = {b["name"]: i for i, b in enumerate(BACKENDS)}
    kidx = {k["name"]: i for i, k in enumerate(KINDS)}
    pidx = {p["name"]: i for i, p in enumerate(POS)}
    live: Dict[tuple, str] = {}
    for ent in run.known:
        still = []
        for combo in ent.get("witness", {}).get("combos", []):
            try:
                key = (bidx[combo[0]], kidx[combo[1]], pidx[combo[2]])
            except KeyError:
                continue
            if crosshair_unfit(key[0], key[1]):
                continue
            if not _verdict(key[0], key[1], key[2], "zqx", 7013):
                live[key] = ent["id"]
                still.append(combo)
        if still:
            o = outcome(bidx[still[0][0]], kidx[still[0][1]], pidx[still[0][2]], "zqx", 7013)
            run.known_finding(ent, f"{len(still)} listed combination(s) still fail, e.g. backend={still[0][0]} kind={still[0][1]} "
                                   f"position={still[0][2]}: {o[0]} {str(o[1])[:100]}", name="known:" + ent["id"], family="known")
        elif ent.get("witness", {}).get("combos"):
            run.notes.append(f"known finding {ent['id']}: no listed combination fails any more - nothing excluded")
    # every (backend, kind, position) combination is first decided concretely on the sentinel instantiation (enumeration,
    # labelled as such): a foreign exception / placeholder / incomplete translation there is reported directly - CrossHair is
    # unreliable on some third-party code paths (time-zone arithmetic, SQLAlchemy internals) - and excluded from the symbolic
    # picks below, which then quantify over the leaf contents and certify the case split for all remaining combinations
    conc_bad = 0
    for bi in range(len(BACKENDS)):
        for ki in range(len(KINDS)):
            if crosshair_unfit(bi, ki):
                continue
            for pi in range(len(POS)):
                if (bi, ki, pi) in live or not well_typed(KINDS[ki], POS[pi]):
                    continue
                if not _verdict(bi, ki, pi, "zqx", 7013):
                    conc_bad += 1
                    o = outcome(bi, ki, pi, "zqx", 7013)
                    key = [BACKENDS[bi]["name"], KINDS[ki]["name"], POS[pi]["name"]]
                    live[(bi, ki, pi)] = "violation"
                    if conc_bad <= 12:
                        run.violation("concrete:" + "/".join(key), {"combo": key, "outcome": [o[0], str(o[1])[:300]],
                                                                    "incomplete": COMPLETE.get((bi, ki, pi))},
                                      f"backend={key[0]} kind={key[1]} position={key[2]}: {o[0]} {str(o[1])[:160]} "
                                      f"{COMPLETE.get((bi, ki, pi)) or ''}", family="concrete-enumeration")
    run.extra["concrete_prepass_failures"] = conc_bad
    items: List[Item] = []
    chunk = 6
    for bi, b in enumerate(BACKENDS):
        for lo in range(0, len(KINDS), chunk):
            hi = min(len(KINDS), lo + chunk)
            excl = "".join(f" and not (ki == {k - lo} and pi == {p_})" for (b_, k, p_) in live if b_ == bi and lo <= k < hi)
            # quick: every kind on every backend at 4 of the 13 positions (rotating with chunk, backend and seed);
            # thorough: the full kind x position product
            if quick:
                r = (lo // chunk + bi + run.seed) % len(POS)
                sub = tuple(sorted({(r + j * 3) % len(POS) for j in range(4)} | {0}))
                prange = f"pi in {sub!r}"
            else:
                prange = f"0 <= pi < {len(POS)}"
            items.append(Item(f"k_{b['name']}_{lo}", "ki: int, pi: int",
                              f"0 <= ki < {hi - lo} and {prange}" + excl,
                              f"check_picks({bi}, {lo}, ki, pi)",
                              describe={"backend": b["name"], "kinds": [k["name"] for k in KINDS[lo:hi]]}, family="outcome:" + b["name"],
                              isolate=not b["text"]))
    # symbolic string content: only the text backends (the ORM backends hand values to the driver as parameters: C08)
    str_kinds = [i for i, k in enumerate(KINDS) if _has_string_leaf(k)]
    text_b = [i for i, b in enumerate(BACKENDS) if b["text"]]
    for j, ki in enumerate(str_kinds):
        for bi in text_b:
            if quick and BACKENDS[bi]["name"] in ("sql", "sqlite", "athena") and (j + run.seed) % 3 != ("sql", "sqlite", "athena").index(BACKENDS[bi]["name"]):
                continue          # quick: each string kind on one of the three dialects (rotating), all in thorough
            if quick:
                r = (j + bi + run.seed) % len(POS)
                sub = tuple(sorted({(r + jj * 3) % len(POS) for jj in range(4)}))
                prange = f"pi in {sub!r}"
            else:
                prange = f"0 <= pi < {len(POS)}"
            items.append(Item(f"s_{BACKENDS[bi]['name']}_{ki}", "pi: int, s: str",
                              f"{prange} and len(s) <= {1 if quick else 2}",
                              f"check_content({bi}, {ki}, pi, s)",
                              describe={"backend": BACKENDS[bi]["name"], "kind": KINDS[ki]["name"]}, family="content:" + BACKENDS[bi]["name"]))
    nn = len(NAMES)
    nchunk = 12
    for which, wn in [(0, "orm"), (1, "core")] + [(2 + j, nm) for j, (nm, _fo) in enumerate(CORE_FROMS)]:
        for lo in range(0, nn, nchunk):
            hi = min(nn, lo + nchunk)
            items.append(Item(f"unk_{wn.replace(chr(45), chr(95))}_{lo}", "ni: int, shape: int", f"{lo} <= ni < {hi} and 0 <= shape < {N_UNKNOWN_SHAPES}",
                              f"check_unknown({which}, ni, shape)", describe={"backend": "sa_" + wn, "names": NAMES[lo:hi]},
                              family="unknown-field:" + wn))
    for it in items[:3]:
        run.sample({"harness": it.name, "describe": it.describe})
    header = "from verif.props.c12 import check_picks, check_content, check_unknown\n"

    def _decode(it, args):
        bi = [b["name"] for b in BACKENDS].index(it.describe["backend"])
        if it.name.startswith("k_"):
            lo = int(it.name.rsplit("_", 1)[1])
            return bi, lo + args[0], args[1], "zqx"
        ki = int(it.name.rsplit("_", 1)[1])
        return bi, ki, args[0], args[1]

    def what(it, args, outc):
        if it.name.startswith(("k_", "s_")):
            bi, ki, pi, s = _decode(it, args)
            o = outcome(bi, ki, pi, s, 7013)
            comp = COMPLETE.get((bi, ki, pi))
            return (f"backend={BACKENDS[bi]['name']} kind={KINDS[ki]['name']} position={POS[pi]['name']} s={s!r}: "
                    f"{o[0]} {str(o[1])[:120]}" + (f"; incomplete: {comp}" if comp else ""))
        return f"name={NAMES[args[0]]!r} shape={args[1]} -> {outc}"

    def classify(it, args, outc):
        if not it.name.startswith(("k_", "s_")):
            return None
        bi, ki, pi, _ = _decode(it, args)
        key = [BACKENDS[bi]["name"], KINDS[ki]["name"], POS[pi]["name"]]
        return run.match_known(lambda k: key in k.get("witness", {}).get("combos", []))

    run_items(run, header, items, per_condition_timeout=120 if quick else 600, classify=classify, what=what,
              progress=bool(os.environ.get("VERIF_PROGRESS")))
    return run.finish()
