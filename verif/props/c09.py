"""C09 - every SQL dialect emits well-formed SQL whose structure mirrors the filter.

Engine C, UF mode (DESIGN.md sections 3 and 4).  Per generated filter x dialect in {standard, SQLite, Athena} x
table_alias in {None, "t0"} the live visitor is run and four obligations are decided:
  wellformed  the independent SQL parser consumes the whole text (no bare word, placeholder, unbalanced bracket,
              missing operand; standard / Athena: no un-parenthesised comparison chain)
  structure   z3: core(SQL) == core(filter) for ALL field values, dialect functions uninterpreted (ufmode.py)
  leaves      every field / literal leaf of the filter occurs in the SQL tree exactly as often as in the filter
  alias       strip_alias(parse(sql_alias)) == parse(sql_noalias) and every column of the aliased text is "t0"."col"
A counterexample is replayed by re-running the live visitor and re-evaluating both trees under the z3 counter-model
with a small Python evaluator (or re-raising the parse error; SQLite texts are also given to the real sqlite3).
"""
from __future__ import annotations

import os
import random
import sqlite3
import sys
import time
import traceback
from collections import Counter
from multiprocessing import get_context
from typing import Any, Dict, List, Optional, Tuple

import z3

from ..common import VIOLATION, Run
from ..sqlsmt import filtergen as G
from ..sqlsmt import regions, selftest, tv, ufmode as U
from ..sqlsmt import sqlparse_ind as SP

PID = "C09"
DIALECTS = ("standard", "sqlite", "athena")
ALIAS = "t0"
REPLAYS_PER_CLASS = 3
_DDL = 'CREATE TABLE "t" ("id" INTEGER PRIMARY KEY, "a", "b", "s", "u", "f", "r", "d")'


def _mode(dialect: str) -> str:
    return "sqlite" if dialect == "sqlite" else "standard"


# ---------------------------------------------------------------------- programs
def build_terms(tier: str, seed: int) -> Tuple[List[dict], Dict[str, Any]]:
    rng = random.Random(seed)
    quick = tier == "quick"
    out: List[dict] = []
    seen = set()

    def add(fam, term):
        k = repr(term)
        if k in seen:
            return
        seen.add(k)
        out.append({"name": f"f{len(out)}", "family": fam, "term": term})

    for fam, term in G.special_families(extended=True):
        add(fam, term)
    for fam, term in G.same_field_chains():
        add(fam, term)
    for fam, term in G.literal_kind_family() + G.real_family():
        add(fam, term)
    # deep structure: operator skeletons whose sub-groups start and end with groups, strings with parentheses / quotes
    atoms = G.bool_atoms()
    atoms2 = [("cmp", "eq", ("field", "a"), G.INT_Q), ("cmp", "eq", ("field", "s"), ("str", "((")), ("field", "f"),
              ("cmp", "eq", ("field", "u"), ("str", "')'")), ("in", ("field", "b"), [G.INT_Q, G.INT_Q])]
    for fam, term in G.deep_bool((2, 3, 4), atoms, rng, {4: 500} if quick else {}):
        add(fam, term)
    for fam, term in G.deep_bool((3,) if quick else (3, 4), atoms2, rng, {3: 150} if quick else {}):
        add(fam, term)
    for fam, term in G.deep_arith((2, 3) if quick else (2, 3, 4), rng, {3: 200} if quick else {4: 3000},
                                  ops=("add", "sub", "mul", "div") if quick else ("add", "sub", "mul", "div", "mod")):
        add(fam, term)
    n_special = len(out)
    ext = G.Cfg(G.extended_leaves(["a", "%"]), extended=True)
    for n in (0, 1):
        for t in ext.terms("bool", n):
            add(f"size{n}", t)
    size2 = ext.terms("bool", 2)
    for t in G.sample(size2, 500 if quick else len(size2), rng):
        add("size2", t)
    rich = G.Cfg(G.extended_leaves(G.STR_POOL_CORE), extended=True)
    plan = {3: 450, 4: 150} if quick else {3: 40000, 4: 20000, 5: 8000, 6: 3000}
    for n, cnt in plan.items():
        for _ in range(cnt):
            try:
                add(f"size{n}", rich.random_term(rng, "bool", n))
            except KeyError:
                continue
    info = {"special_families": n_special, "exhaustive": {"size0": ext.count("bool", 0), "size1": ext.count("bool", 1)},
            "size2": {"total": len(size2), "taken": min(len(size2), 500 if quick else len(size2))}, "sampled": plan,
            "filters": len(out)}
    return out, info


# ---------------------------------------------------------------------- one filter, all dialects
def _leaf_key(kind: str, v: Any):
    if kind == "int":
        return ("int", abs(v))
    return (kind, v)


def _leaf_mismatch(core_od, core_sql, sentinels: List[int]) -> Optional[str]:
    want = Counter(_leaf_key(k, v) for k, v in U.core_leaves(core_od) if k not in ("bool", "null"))
    got = Counter(_leaf_key(k, v) for k, v in U.core_leaves(core_sql) if k not in ("bool", "null"))
    sent = set(sentinels)
    problems = []
    for key, n in want.items():
        if key[0] == "int" and key[1] not in sent:
            continue
        if got.get(key, 0) != n:
            problems.append(f"{key[0]} {key[1]!r}: {n} in the filter, {got.get(key, 0)} in the SQL")
    for key, n in got.items():
        if key[0] == "field" and key not in want:
            problems.append(f"column {key[1]!r} is not in the filter")
        if key[0] == "int" and key[1] in sent and key not in want:
            problems.append(f"literal {key[1]} is not in the filter")
    return "; ".join(problems) if problems else None


def _sqlite_accepts(sql: str) -> Tuple[bool, str]:
    conn = sqlite3.connect(":memory:")
    try:
        conn.execute(_DDL)
        conn.execute(f'SELECT 1 FROM "t" WHERE {sql}').fetchall()
        return True, ""
    except (sqlite3.Error, sqlite3.Warning) as e:
        return False, f"{type(e).__name__}: {e}"
    finally:
        conn.close()


def check_filter(item: dict) -> List[dict]:
    res: List[dict] = []
    tv.ACTIVE_MUTANT = item.get("mutant")
    try:
        _check_filter(item, res)
    except Exception as e:                                    # noqa: BLE001
        res.append({"name": item["name"], "ob": "harness", "status": "harness_error", "dialect": "-",
                    "why": f"{type(e).__name__}: {e}\n{traceback.format_exc(limit=5)}"})
    finally:
        tv.ACTIVE_MUTANT = None
    if item.get("family") == "selftest":
        for r in res:
            r["selftest"] = item.get("mutant") or "unmutated"
    return res


def _check_filter(item: dict, res: List[dict]) -> None:
    term, sent = G.with_sentinels(item["term"])
    text = G.to_text(term)
    feats = G.features(term)
    active = item.get("regions", [])
    timeout_ms = item.get("timeout_ms", 10000)
    core_od = None
    od_err = None
    try:
        core_od = U.normalise(U.od_to_core(term))
    except U.NoTemplate as e:
        od_err = str(e)
    for dialect in DIALECTS:
        base = {"name": item["name"], "family": item["family"], "filter": text, "dialect": dialect, "features": feats,
                "solver_s": 0.0, "term": term}

        def emit(ob: str, status: str, **kw):
            res.append(dict(base, ob=ob, status=status, **kw))

        st, sql = tv.real_sql(text, dialect)
        st_a, sql_a = tv.real_sql(text, dialect, ALIAS)
        if not item.get("mutant"):
            for al, fresh in ((None, (st, sql)), (ALIAS, (st_a, sql_a))):
                wr = tv.reuse_check(text, dialect, al, fresh)
                if wr is None:
                    emit("reuse", "discharged", nontrivial=False)
                else:
                    wr["term"] = term
                    emit("reuse", "violation", witness=wr,
                         what=f"a visitor instance that had translated {wr['calls_before']} other filters renders the filter as "
                              f"{wr['reused_visitor'][1]!r}, a fresh one as {wr['fresh_visitor'][1]!r}")
        if st != "ok":
            emit("accept", st, why=sql)
            if st_a == "ok":
                emit("alias", "violation", what="the filter is refused without an alias but translated with one",
                     witness={"filter": text, "term": term, "dialect": dialect, "sql_alias": sql_a, "outcome": sql})
            continue
        base["sql"] = sql
        hit = regions.static_hit(active, {"term": term, "features": feats, "dialect": dialect, "sql": sql})
        if hit:
            emit("all", "known", known_id=hit)
            continue
        mode = _mode(dialect)
        # ---- (1) well-formed
        try:
            tree = SP.parse_expr(sql, mode)
        except SP.SqlIllFormed as e:
            w = {"filter": text, "term": term, "dialect": dialect, "alias": None, "sql": sql,
                 "parse_error": f"{e.kind}: {e}"}
            st2, sql2 = tv.real_sql(text, dialect)
            if st2 != "ok" or sql2 != sql:
                emit("wellformed", "harness_error", why="re-running the visitor gave a different text", witness=w)
            elif dialect == "sqlite" and e.kind != "bare-word" and _sqlite_accepts(sql)[0]:
                # (a bare word is excluded from this cross-check: sqlite3 folds `0 AND <unresolvable name>` away at
                #  parse time, which does not make the placeholder text well-formed)
                emit("wellformed", "harness_error", why=f"independent parser rejects text the real sqlite3 accepts: {e}",
                     witness=w)
            else:
                if dialect == "sqlite":
                    w["sqlite3"] = _sqlite_accepts(sql)[1]
                emit("wellformed", "violation", what=f"emitted text is not well-formed SQL ({e.kind}): {e}", witness=w,
                     illformed_kind=e.kind)
            continue
        except SP.SqlUnsupported as e:
            emit("wellformed", "outside", why=f"outside the parser's subset: {e}")
            continue
        emit("wellformed", "discharged")
        # ---- (4) alias
        if st_a != "ok":
            emit("alias", "violation", what=f"with table_alias the filter is {st_a}: {sql_a}",
                 witness={"filter": text, "term": term, "dialect": dialect, "alias": ALIAS, "sql": sql, "outcome": sql_a})
        else:
            try:
                tree_a = SP.parse_expr(sql_a, mode)
                cols = SP.columns(tree_a)
                unq = [c for c in cols if c[1] != ALIAS]
                if unq:
                    emit("alias", "violation", what=f"column reference(s) not qualified by the alias: {unq[:3]}",
                         witness={"filter": text, "term": term, "dialect": dialect, "alias": ALIAS, "sql": sql_a})
                elif SP.strip_alias(tree_a, ALIAS) != tree:
                    emit("alias", "violation", what="the alias changes more than the column qualifiers",
                         witness={"filter": text, "term": term, "dialect": dialect, "alias": ALIAS, "sql": sql,
                                  "sql_alias": sql_a})
                else:
                    emit("alias", "discharged")
            except SP.SqlIllFormed as e:
                emit("alias", "violation", what=f"aliased text is not well-formed SQL ({e.kind}): {e}",
                     witness={"filter": text, "term": term, "dialect": dialect, "alias": ALIAS, "sql": sql_a,
                              "parse_error": f"{e.kind}: {e}"})
        # ---- (3) leaves and (2) structure
        if core_od is None:
            emit("structure", "outside", why=f"filter outside the template table: {od_err}")
            continue
        try:
            readings = [U.normalise(c) for c in U.expand(U.sql_to_core(tree, dialect))]
        except U.NoTemplate as e:
            emit("structure", "outside", why=f"no template: {e}")
            continue
        # a text with a non-literal LIKE pattern has several template readings: the obligations hold if one reading
        # satisfies both; otherwise the most specific reading (the first) is reported
        outcomes = [_decide(core_od, core_sql, sent, timeout_ms) for core_sql in readings]
        best = next((o for o in outcomes if o["leaves"] is None and o["structure"] == "discharged"), outcomes[0])
        dt = round(sum(o["solver_s"] for o in outcomes), 4)
        core_sql = best["core_sql"]
        core_od_used = best.get("core_od", core_od)
        if best["leaves"]:
            emit("leaves", "violation", what=f"leaf multiset differs: {best['leaves']}",
                 witness={"filter": text, "term": term, "dialect": dialect, "alias": None, "sql": sql,
                          "leaves": best["leaves"]})
        else:
            emit("leaves", "discharged")
        stt = best["structure"]
        if stt == "discharged":
            emit("structure", "discharged", solver_s=dt)
        elif stt in ("outside", "inconclusive"):
            emit("structure", stt, solver_s=dt, why=best["why"])
        elif stt == "illtyped":
            emit("structure", "violation",
                 what=f"read with {'SQLite' if mode == 'sqlite' else 'standard SQL'} precedence the emitted text is "
                      f"ill-typed under the filter's field types ({best['why']}): it is not the filter's tree",
                 witness={"filter": text, "term": term, "dialect": dialect, "alias": None, "sql": sql,
                          "sql_core": repr(core_sql), "filter_core": repr(core_od), "type_error": best["why"]})
        else:
            ctx, m = best["ctx"], best["model"]
            ev = U.ModelEval(ctx, m)
            try:
                sv, ov = ev.ev(core_sql), ev.ev(core_od_used)
            except Exception as e:                            # noqa: BLE001
                emit("structure", "harness_error", solver_s=dt, why=f"evaluator failed: {type(e).__name__}: {e}")
                continue
            fields = {n: ev.show(ev.ev(("fld", n))) for n in sorted(ctx.fields)}
            lits = {str(s): ev.ev(("ilit", s))[1] for s in sent}
            w = {"filter": text, "term": term, "dialect": dialect, "alias": None, "sql": sql, "field_values": fields,
                 "literal_values": lits, "sql_tree_value": ev.show(sv), "filter_tree_value": ev.show(ov),
                 "sql_core": repr(core_sql), "filter_core": repr(core_od_used)}
            if best.get("tree_only"):
                w["note"] = ("same value over the integers, different tree: the arithmetic operators are read as uninterpreted "
                             "(non-associative) symbols for this obligation")
            st2, sql2 = tv.real_sql(text, dialect)
            same = (sv[1] is None and ov[1] is None) or (sv[1] is not None and ov[1] is not None and _pyeq(sv, ov))
            if st2 != "ok" or sql2 != sql:
                emit("structure", "harness_error", solver_s=dt, why="re-running the visitor gave a different text", witness=w)
            elif same:
                emit("structure", "harness_error", solver_s=dt, witness=w,
                     why="z3 counter-model does not separate the two trees under the concrete evaluator")
            else:
                emit("structure", "violation", solver_s=dt, witness=w,
                     what=f"read with {'SQLite' if mode == 'sqlite' else 'standard SQL'} precedence the emitted text is "
                          f"a different tree: under the counter-model it evaluates to {ev.show(sv)!r}, the filter to "
                          f"{ev.show(ov)!r}")


def _decide(core_od, core_sql, sent: List[int], timeout_ms: int) -> dict:
    """Leaves + structure verdict of one reading of the SQL tree: first the VALUE obligation (arithmetic interpreted, so
    template index shifts cancel), then - if it holds and there are at least two arithmetic operators - the TREE
    obligation with + - * / % uninterpreted (a regrouping of associative operators keeps the value, not the tree)."""
    out = _decide1(core_od, core_sql, sent, timeout_ms, False)
    if out["structure"] == "discharged" and U.arith_ops(core_od) + U.arith_ops(core_sql) >= 3:
        o2 = _decide1(U.strip_shifts(core_od), U.strip_shifts(core_sql), sent, timeout_ms, True)
        o2["solver_s"] += out["solver_s"]
        o2["leaves"] = out["leaves"]
        if o2["structure"] != "discharged":
            o2["tree_only"] = True
            return o2
    return out


def _decide1(core_od, core_sql, sent: List[int], timeout_ms: int, uf_arith: bool) -> dict:
    out: Dict[str, Any] = {"core_sql": core_sql, "core_od": core_od, "leaves": _leaf_mismatch(core_od, core_sql, sent),
                           "solver_s": 0.0, "why": None}
    try:
        ctx = U.UFContext(G.FIELDS_FULL, sent, uf_arith=uf_arith)
        vo = U.core_to_z3(core_od, ctx)
    except U.NoTemplate as e:
        out.update(structure="outside", why=f"filter outside the template table: {e}")
        return out
    try:
        vs = U.core_to_z3(core_sql, ctx)
    except U.IllTyped as e:
        out.update(structure="illtyped", why=str(e))
        return out
    except U.NoTemplate as e:
        out.update(structure="outside", why=f"no template: {e}")
        return out
    solver = z3.Solver()
    solver.set("timeout", timeout_ms)
    solver.add(ctx.axioms())
    solver.add(z3.Not(U.same_value(vs, vo, ctx)))
    t0 = time.time()
    r = solver.check()
    out["solver_s"] = time.time() - t0
    if r == z3.unsat:
        out["structure"] = "discharged"
    elif r == z3.unknown:
        out.update(structure="inconclusive", why=f"z3: {solver.reason_unknown()}")
    else:
        out.update(structure="sat", ctx=ctx, model=solver.model())
    return out


def _pyeq(a, b) -> bool:
    (sa, va), (sb, vb) = a, b
    if sa == "str" and sb == "str":
        return bool(va.eq(vb))
    if sa == "str" or sb == "str":
        return False
    return int(va) == int(vb)


# ---------------------------------------------------------------------- reporting helpers
def classify(r: dict) -> str:
    f = set(r.get("features", []))
    d = r["dialect"]
    sql = r.get("sql", "")
    ob = r["ob"]
    if ob == "wellformed":
        k = r.get("illformed_kind", "")
        if k == "bare-word" and "None" in sql:
            return "renders-None(unary-minus)" if "unary-minus" in f else "renders-None"
        if k == "unterminated-literal" or "like-literal-quote" in f:
            return "like-pattern-quote-not-doubled"
        if k == "comparison-chain":
            return "predicate-as-comparison-operand-unparenthesised"
        if k == "not-as-operand":
            return "NOT-as-comparison-operand-unparenthesised"
        if "fn:floor" in f or "fn:ceiling" in f:
            return "standard-floor/ceiling-not-SQL"
        if any(x[0] == "dur" for x in G.subterms(r["term"])) and k == "missing-operand":
            return "empty-duration-renders-nothing"
        return "ill-formed:" + k
    if ob == "reuse":
        return "visitor-instance-reuse"
    if ob == "alias":
        return "alias"
    if "like-literal-quote" in f:
        return "like-pattern-quote-not-doubled"
    if "like-literal-wildcard" in f:
        return "like-literal-wildcard-not-escaped"
    if "arith-needs-parens" in f:
        return "arithmetic-operand-not-parenthesised"
    if "indexof-as-arith-operand" in f:
        return "indexof-template-not-parenthesised"
    if "null-on-left" in f:
        return "null-literal-on-left"
    if "boolfunc-on-right-of-compare" in f:
        return "predicate-on-right-of-comparison-not-parenthesised"
    if "not-as-compare-operand" in f:
        return "not-operand-of-comparison-not-parenthesised"
    return f"other-{ob}"


_INFIX_TOPS = ("cmp", "bin", "like", "in", "isnull", "is", "between", "and", "or", "not", "neg")


def probe_infix_functions() -> Dict[str, List[str]]:
    """{function -> dialects in which the rendering of f(sample args) parses to an operator at the top}"""
    out: Dict[str, List[str]] = {}
    for name, (rtype, args) in G.FUNCTION_SAMPLES.items():
        text = G.to_text(("call", name, list(args)))
        for d in DIALECTS:
            st, sql = tv.real_sql(text, d)
            if st != "ok" or not isinstance(sql, str):
                continue
            try:
                tree = SP.parse_expr(sql, "sqlite")        # lenient mode: we only want the top node
            except (SP.SqlIllFormed, SP.SqlUnsupported):
                continue
            if tree[0] in _INFIX_TOPS:
                out.setdefault(name, []).append(d)
    return out


def replay_known(entry: dict) -> Tuple[bool, str]:
    w = entry["witness"]
    term = tv._retuple(w["term"])
    rs = check_filter({"name": "known", "family": "known", "term": term, "regions": []})
    bad = [r for r in rs if r["status"] == "violation" and (w.get("dialect") in (None, r["dialect"]))]
    if bad:
        b = bad[0]
        return True, f"{b['filter']!r} [{b['dialect']}] -> {b.get('sql')!r}: {b['what']}"
    return False, f"{G.to_text(term)!r} no longer violates C09"


def main() -> int:
    run = Run(PID, "translation_validation")
    from ..common import REPLAY_DIR
    if (REPLAY_DIR / PID).is_dir():       # replay files are regenerated by every run of this property
        for f_ in (REPLAY_DIR / PID).glob("*.json"):
            f_.unlink()
    quick = run.tier == "quick"
    progress = bool(os.environ.get("VERIF_PROGRESS"))
    try:
        from odata_query import sql as sqlmod
        for cls in (sqlmod.AstToSqlVisitor, sqlmod.AstToSqliteSqlVisitor, sqlmod.AstToAthenaSqlVisitor):
            run.encode(*sorted(f"{cls.__name__}.{n}" for n in vars(cls) if n.startswith(("visit", "sqlfunc_", "_to_pattern"))))
        run.encode("odata_query.grammar.ODataLexer.tokenize", "odata_query.grammar.ODataParser.parse")
    except Exception as e:                                     # noqa: BLE001
        print(f"[{PID}] cannot import the SQL dialects: {e}")
        return run.finish()

    active: List[str] = []
    for entry in run.known:
        rid = entry.get("id", "")
        if rid not in regions.STATIC:
            run.notes.append(f"known finding {rid!r}: no (static) region predicate implemented for C09, nothing excluded")
            continue
        try:
            still, what = replay_known(entry)
        except Exception as e:                                 # noqa: BLE001
            still, what = False, f"witness could not be replayed: {type(e).__name__}: {e}"
        if still:
            run.known_finding(entry, what, name=f"known-witness:{rid}", family="known")
            active.append(rid)
        else:
            run.notes.append(f"known finding {rid!r} no longer reproduces ({what}); its region is NOT excluded")

    items, info = build_terms(run.tier, run.seed)
    # functions that SOME dialect renders as an infix expression (found by probing the live visitors and parsing what
    # they emit, not read from the source table): each is tried as left / right operand of every operator level
    infix = probe_infix_functions()
    info["infix_rendered_functions"] = infix
    for name in sorted(infix):
        rtype, args = G.FUNCTION_SAMPLES[name]
        for fam, term in G.operand_positions(("call", name, list(args)), rtype):
            items.append({"name": f"f{len(items)}", "family": fam, "term": term})
    extra = tv.discover_extra_alphabet(DIALECTS)          # characters the visitors introduce themselves (ESCAPE '!')
    info["adaptive_alphabet"] = extra
    for fam, term in G.adaptive_family(extra):
        items.append({"name": f"f{len(items)}", "family": fam, "term": term})
    for it in items:
        it["regions"] = active
        it["timeout_ms"] = 10000 if quick else 60000
    run.bounds = {"fields": G.FIELDS_FULL, "field_values": "unbounded: every field is an arbitrary nullable value of an "
                  "uninterpreted / 16-bit sort; integer literals symbolic (sentinels)", "filters": info,
                  "dialects": list(DIALECTS), "alias": [None, ALIAS],
                  "programs": len(items) * len(DIALECTS) * 2}
    n_filters = len(items)
    run.outside = ["constructs without a template (standard CAST(x + 0.5 AS INTEGER) / SQLite TRUNC(x + 0.5) for round, "
                   "list functions, geo, lambdas)", "wildcard characters inside the *value* of a non-literal LIKE operand "
                   "(C01)", "filters larger than the sampled sizes",
                   "whether a well-formed text is accepted by a real standard-SQL / Athena engine (none available)"]
    run.assumptions = [
        "dialect functions are uninterpreted and related to OData functions only through the template table in "
        "verif/sqlsmt/ufmode.py; concat is treated as associative, everything else as a free symbol",
        "16-bit wrap-around integer arithmetic: + and * are associative/commutative, so neutral regrouping is accepted",
        "standard SQL / Athena: comparison-level predicates are not associative (an un-parenthesised chain is ill-formed)",
        "the SQLite dialect is read with SQLite's own documented precedence",
        "string literals with different texts denote different values; float / date / duration literals are opaque",
    ]

    muts = [{"name": f"m{i}", "family": "selftest", "term": term, "mutant": mname, "regions": [], "timeout_ms": 10000}
            for i, (mname, term) in enumerate(selftest.FILTERS) if mname in selftest.C09_MUTANTS]
    muts += [dict(m, name=m["name"] + "b", mutant=None) for m in muts]
    n_filters = len(items)
    items = muts + items
    nproc = min(16, os.cpu_count() or 4)
    t0 = time.time()
    allres: List[dict] = []
    with get_context("fork").Pool(nproc) as pool:
        for i, rs in enumerate(pool.imap_unordered(check_filter, items, chunksize=4)):
            allres.extend(rs)
            if progress and i % 200 == 0:
                print(f"[{PID}] {i}/{len(items)} {time.time() - t0:.0f}s", file=sys.stderr, flush=True)
    allres.sort(key=lambda r: (int(r["name"][1:]) if r["name"][1:].isdigit() else -1, r["dialect"], r["ob"]))
    # ---- self-test: every mutant must be reported in every dialect, its unmutated twin in none
    st_groups: Dict[Tuple[str, str, str], List[dict]] = {}
    for r in [r for r in allres if r.get("selftest")]:
        st_groups.setdefault((r["name"], r["selftest"], r["dialect"]), []).append(r)
    for (nm, mname, d), rs in sorted(st_groups.items()):
        bad = [r for r in rs if r["status"] == "violation"]
        label = f"selftest:{mname}:{d}:{rs[0].get('filter')}"
        if (mname != "unmutated") == bool(bad) and not any(r["status"] == "harness_error" for r in rs):
            run.discharged(label, "selftest", sum(r.get("solver_s", 0.0) for r in rs), nontrivial=False,
                           detail={"reported": [f"{r['ob']}: {r['what'][:120]}" for r in bad]})
        else:
            run.harness_error(label, "selftest", f"self-test expected {'a violation' if mname != 'unmutated' else 'no violation'}; "
                                                 f"got {[(r['ob'], r['status']) for r in rs]}")
    allres = [r for r in allres if not r.get("selftest")]

    counts: Dict[str, Dict[str, int]] = {}
    classes: Dict[str, List[dict]] = {}
    refused: Dict[str, int] = {}
    outside: Dict[str, int] = {}
    programs = 0
    for r in allres:
        ob, st, d = r["ob"], r["status"], r["dialect"]
        counts.setdefault(ob, {})
        counts[ob][st] = counts[ob].get(st, 0) + 1
        name = f"{r['name']}:{d}:{ob}:{r.get('filter', '?')}"
        fam = f"{ob}/{d}"
        if ob == "accept":
            key = f"{d}: {st}: {(r.get('why') or '').split(':')[0]}"
            refused[key] = refused.get(key, 0) + 1
            if st in ("crash", "parser_crash", "parser_rejected") and len(run.notes) < 30:
                run.notes.append(f"{st} [{d}]: {r.get('filter')!r}: {r.get('why')}")
            continue
        if ob in ("wellformed", "all"):
            programs += 2
        if st == "discharged":
            run.discharged(name, fam, r.get("solver_s", 0.0), detail={"sql": r.get("sql")},
                           nontrivial=(ob == "structure"))
        elif st == "known":
            entry = next(e for e in run.known if e.get("id") == r["known_id"])
            run.known_finding(entry, f"program inside region {r['known_id']}", name=name, family=fam)
        elif st == "violation":
            cls = classify(r)
            r["witness"]["defect_class"] = cls
            lst = classes.setdefault(f"{cls} [{d}]", [])
            lst.append(r)
            if len(lst) <= REPLAYS_PER_CLASS:
                run.violation(name, r["witness"], f"[{cls}] {r['what']}", fam, r.get("solver_s", 0.0))
            else:
                run.add(name, VIOLATION, fam, {"what": f"[{cls}] {r['what']}", "witness": r["witness"]},
                        r.get("solver_s", 0.0))
        elif st == "inconclusive":
            run.inconclusive(name, fam, r.get("why"), r.get("solver_s", 0.0))
        elif st == "harness_error":
            run.harness_error(name, fam, {"why": r.get("why"), "witness": r.get("witness")})
        elif st == "outside":
            key = f"{d}: {r.get('why', '?')[:90]}"
            outside[key] = outside.get(key, 0) + 1
        if st in ("discharged", "violation") and ob == "structure":
            run.sample({"filter": r["filter"], "dialect": d, "sql": r.get("sql"), "verdict": st}, cap=12)
    for cls, lst in sorted(classes.items()):
        if len(lst) > REPLAYS_PER_CLASS:
            print(f"  ... {len(lst) - REPLAYS_PER_CLASS} more replayed violations of class [{cls}] (see evidence)", flush=True)

    minimal = {}
    for cls, lst in classes.items():
        best = min(lst, key=lambda r: (len(r["filter"]), r["filter"]))
        minimal[cls] = {"count": len(lst), "obligation": best["ob"], "filter": best["filter"],
                        "sql": best["witness"].get("sql"), "what": best["what"],
                        "field_values": best["witness"].get("field_values"),
                        "more_filters": sorted({r["filter"] for r in lst}, key=lambda x: (len(x), x))[1:25]}
    run.programs = programs
    run.disagreements_checked = sum(c.get("violation", 0) + c.get("harness_error", 0) for c in counts.values())
    run.extra.update({
        "rule": "one evaluation = one obligation (wellformed / structure / leaves / alias) of one (filter, dialect); "
                "structure obligations are z3 validity queries over all field values with uninterpreted functions",
        "obligation_verdicts": counts, "refused_or_crashed": refused,
        "outside_template_table": dict(sorted(outside.items(), key=lambda kv: -kv[1])[:20]),
        "violation_classes": minimal, "known_regions_active": active,
    })
    print(f"[{PID}] filters={n_filters} programs={programs} " +
          " ".join(f"{ob}:{'/'.join(f'{k}={v}' for k, v in sorted(c.items()))}" for ob, c in sorted(counts.items())), flush=True)
    return run.finish()


def replay(data: dict) -> int:
    """Re-run one replay file on the live visitors.  Returns 1 if the counterexample still reproduces, 0 if not."""
    if "history" in data["witness"]:
        w = data["witness"]
        res = tv.replay_history(w["history"], w["dialect"], w.get("alias"))
        print(("REPRODUCED: " if res["reproduced"] else "not reproduced: ") + f"after {len(w['history']) - 1} earlier calls the "
              f"instance renders {w['filter']!r} as {res['last']}, a fresh visitor as {res['fresh']}")
        return 1 if res["reproduced"] else 0
    still, what = replay_known({"witness": data["witness"]})
    print(("REPRODUCED: " if still else "not reproduced: ") + what)
    return 1 if still else 0
