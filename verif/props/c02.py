"""C02 - Django `apply_odata_query` returns exactly the objects the filter denotes.

Engine C, interpreted mode (DESIGN.md section 4 C02).  Program = the statement
`apply_odata_query(Item.objects.all(), filter).query.sql_with_params()` of the live backend on the generated model
vt_item(id, n, m INT NULL; name, title TEXT NULL; flag BOOL NULL); `%s` placeholders are bound to the parameter
tuple, the whole SELECT is parsed by the independent parser and z3 decides over every row whether the statement
returns the row exactly when the OData reference keeps it.  `sat` is replayed through the ORM on a real in-memory
SQLite (`Item.objects.create(...)`, `values_list("pk")`).
"""
from __future__ import annotations

from typing import List

from ..common import Run
from ..sqlsmt import orm, ormrun, regions, selftest_orm
from ..sqlsmt import values as V
from ..sqlsmt.ormclass import classify

PID = "C02"
BACKENDS = ["django"]


def _known(run: Run, pre: List[tuple]) -> List[str]:
    active = []
    for entry, (still, what) in zip([e for e in run.known if _has_region(e)], pre):
        rid = entry["id"]
        if still:
            run.known_finding(entry, what, name=f"known-witness:{rid}", family="known")
            active.append(rid)
        else:
            run.notes.append(f"known finding {rid!r} no longer reproduces ({what}); its region is NOT excluded")
    for e in run.known:
        if not _has_region(e):
            run.notes.append(f"known finding {e.get('id')!r}: no region predicate implemented, nothing excluded")
    return active


def _has_region(e: dict) -> bool:
    return e.get("id") in regions.DYNAMIC or e.get("id") in regions.STATIC or e.get("id") in regions.ASSUMED


def _replay_known(w: dict):
    try:
        return orm.replay_scalar_witness(w)
    except Exception as e:                                     # noqa: BLE001
        return False, f"witness could not be replayed: {type(e).__name__}: {e}"


def main() -> int:
    run = Run(PID, "translation_validation")
    ormrun.clear_replays(PID)
    quick = run.tier == "quick"
    try:
        from odata_query.django import django_q
        run.encode("odata_query.django.shorthand.apply_odata_query",
                   *sorted(f"AstToDjangoQVisitor.{n}" for n in vars(django_q.AstToDjangoQVisitor)
                           if n.startswith(("visit", "djangofunc_", "_substr", "_ensure_q"))),
                   "odata_query.django.django_q_ext.NotEqual.as_sql", "django.db.models.sql.compiler (run concretely)")
    except Exception as e:                                     # noqa: BLE001
        print(f"[{PID}] cannot import the Django backend: {e}")
        run.notes.append(f"import failed: {e}")
        return run.finish()
    items, info = ormrun.scalar_items(run.tier, run.seed, {3: 320, 4: 120, 5: 40, 6: 12},
                                      {3: 8000, 4: 4500, 5: 2200, 6: 900, 7: 300}, 450, (60, 100), (2000, 2000))
    timeout_ms = 60000 if quick else 120000
    pre = [(_replay_known, (e["witness"],)) for e in run.known if _has_region(e)]
    muts = selftest_orm.items(BACKENDS, timeout_ms)
    for it in items:
        it.update(backends=BACKENDS, timeout_ms=timeout_ms)
    active: List[str] = []

    def after_pre(pre_out):
        active.extend(_known(run, pre_out))
        for it in items:
            it["regions"] = list(active)

    _, chunks = ormrun.run_pool(orm.check_scalar, muts + items, PID, pre, after_pre)
    results = [r for ch in chunks for r in ch]
    results += [r for r in orm.inlist_sweep() if r["backend"] in BACKENDS]      # structural: long in-lists arrive complete
    selftest_orm.ingest(run, [r for r in results if r.get("family") == "selftest"])
    results = [r for r in results if r.get("family") != "selftest"]
    run.bounds = {
        "table": "vt_item(id PK, n INT NULL, m INT NULL, name TEXT NULL, title TEXT NULL, flag BOOL NULL), 1 row slot, "
                 "every cell symbolic (a scalar filter is row-local)",
        "integers": f"cells and literals in [{V.INT_LO}, {V.INT_HI}] (literals symbolic via sentinel parameters), 16-bit "
                    "intermediates with no-overflow side conditions",
        "strings": f"cells: length <= {V.CELL_CAP} over {V.ALPH!r}; literals <= 2 characters",
        "filters": info, "z3_timeout_ms": timeout_ms}
    run.outside = ["floats, date/time extraction and truncation (Python UDFs of Django's SQLite backend), regex "
                   "(matchesPattern), round/floor/ceiling, geo", "division / modulo by zero",
                   "substring start outside [0, length] or negative count", "values outside the string / integer bounds",
                   "null inside in-lists", "navigation and lambdas (C04)"]
    run.assumptions = [
        "reference semantics as in C01: three-valued logic, only true rows kept; literal null tests; null-propagating "
        "operators and functions; integer div truncates, mod has the sign of the dividend",
        "divisor != 0; substring(s, i[, n]) with 0 <= i <= length(s), n >= 0; no 16-bit overflow",
        "the statement's WHERE clause decides which rows come back (the SELECT list only projects); parameters are "
        "bound positionally to %s",
        "integer literals reach the statement as opaque parameters (checked: they appear in the parameter tuple)",
        "SQLite model validated against the real sqlite3 on every run of C01 (same model, same validation set, "
        "extended with the constructs the ORMs emit)"]
    stats = ormrun.ingest(run, results, classify, lambda r: f"{r['ob']}:{r.get('backend')}:{r.get('filter')}")
    v = stats["obligation_verdicts"]
    run.programs = sum(sum(c.values()) for k, c in v.items() if k.startswith(("ref/", "accept/")))
    run.disagreements_checked = sum(c.get("violation", 0) + c.get("harness_error", 0) for c in v.values())
    run.extra.update(stats)
    run.extra.update({"rule": "one evaluation = one (filter, backend) program decided by one z3 query over all rows and "
                              "literal values", "known_regions_active": active})
    print(f"[{PID}] filters={len(items)} " + " ".join(f"{k}:{'/'.join(f'{a}={b}' for a, b in sorted(c.items()))}"
                                                      for k, c in sorted(v.items())), flush=True)
    return run.finish()


def replay(data: dict) -> int:
    still, what = orm.replay_scalar_witness(data["witness"])
    print(("REPRODUCED: " if still else "not reproduced: ") + what)
    return 1 if still else 0
