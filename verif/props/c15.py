"""C15 - the shorthands conjoin with the incoming query and leave the host intact.

Engine C, relational mode (DESIGN.md section 4 C15).  Host queries are enumerated (unfiltered, pre-filtered once and
twice, ordered, pre-annotated, pre-joined on a relationship the filter uses / does not use, Django Manager vs QuerySet,
SQLAlchemy select vs legacy Query vs Core) x filters with and without navigation.  Per (backend, host, filter):
  conj       z3 over the symbolic database of C04:  rows(apply(host, f)) == rows(host) intersected with {r | f(r)}
             (rows(host) is stated independently per host in ormbases.base_term); counterexamples replayed through the ORM
  order      the ORDER BY list of the compiled host query is unchanged            } structural comparison of the parsed
  conjuncts  every WHERE conjunct and SELECT-list column of the host is still there } programs (host query compiled on
  once       no table is joined more often than host + filter navigation need      } its own vs after the shorthand)
Registry clause: a finite CONFIGURATION SWEEP in fresh subprocesses (registry_sweep.py), labelled as such - importing
odata_query.sqlalchemy must not change class / compiled text / type of `sqlalchemy.func.<name>(col)` for any name.
"""
from __future__ import annotations

import random
from typing import Any, Dict, List

from ..common import Run
from ..sqlsmt import ormbases, ormrel, ormrun, registry_sweep, relgen, selftest_orm
from ..sqlsmt import values as V
from ..sqlsmt.ormclass import classify
from ..sqlsmt.relgen import F, K, P, S, cmp_, lam
from .c02 import _has_region, _known
from .c04 import _replay_known

PID = "C15"
BACKENDS = ["django", "sa_select", "sa_query", "sa_core"]


def _filters(model: str, backend: str, tier: str, rng: random.Random) -> List[tuple]:
    if model == "Parent":
        plain = [cmp_("eq", F("name"), S("a")), cmp_("gt", F("n"), K), ("or", cmp_("le", F("n"), K), cmp_("eq", F("name"), ("null",)))]
        nav = [lam("any", ["children"], "c", cmp_("gt", P("c", "k"), K)), ("not", lam("any", ["children"])),
               lam("any", ["tags"], "t", cmp_("eq", P("t", "t"), S("a"))),
               ("and", cmp_("gt", F("n"), K), lam("all", ["owned"], "o", cmp_("gt", P("o", "k"), K)))]
        if backend == "django":
            nav += [cmp_("gt", P("boss", "n"), K), ("or", cmp_("eq", P("boss", "name"), S("a")), cmp_("eq", F("n"), K))]
        extra = relgen.parent_atoms(False)
    else:
        plain = [cmp_("eq", F("k"), K), ("or", cmp_("gt", F("k"), K), cmp_("eq", F("label"), S("a")))]
        nav = [cmp_("gt", P("parent", "n"), K), ("or", cmp_("gt", P("parent", "n"), K), cmp_("eq", F("k"), K)),
               cmp_("eq", P("owner", "name"), S("a")), cmp_("eq", P("parent", "n"), P("owner", "n")),
               lam("any", ["parent", "children"], "c", cmp_("gt", P("c", "k"), K)), cmp_("eq", P("parent", "n"), ("null",))]
        extra = relgen.child_atoms(False)
    if backend == "sa_core":
        return plain
    out = plain + nav
    if tier != "quick":
        out += [t for _, t in rng.sample(extra, min(len(extra), 25))]
    return out


def build_items(tier: str, seed: int):
    rng = random.Random(seed)
    items: List[dict] = []
    for backend in BACKENDS:
        for model in ("Parent", "Child"):
            for base in ormbases.available(backend, model):
                for t in _filters(model, backend, tier, rng):
                    items.append({"name": f"h{len(items)}", "family": f"host:{base}", "model": model, "base": base, "term": t,
                                  "backends": [backend]})
    for backend in ("sa_select", "sa_query"):          # second schema: same-named relationships on different models
        for base in ormbases.available(backend, "Ticket"):
            for _, t in relgen.ticket_atoms():
                items.append({"name": f"h{len(items)}", "family": f"host:{base}", "model": "Ticket", "base": base, "term": t,
                              "backends": [backend]})
    info = {"hosts": {str(k): v for k, v in ormbases.BASES.items()}, "programs": len(items),
            "per_backend": {b: sum(1 for it in items if it["backends"][0] == b) for b in BACKENDS}}
    return items, info


def _registry(run: Run) -> Dict[str, Any]:
    try:
        sw = registry_sweep.sweep()
    except Exception as e:                                     # noqa: BLE001
        run.inconclusive("registry-sweep", "registry(configuration sweep)", f"{type(e).__name__}: {e}")
        return {"error": str(e)}
    res = sw["results"]
    base = res.get("baseline", {})
    if "error" in base or not base:
        run.inconclusive("registry-sweep:baseline", "registry(configuration sweep)", base.get("error", "no baseline"))
        return {"error": "baseline failed"}
    summary = {"names": len(sw["names"]), "repo_function_classes": sw["repo_names"], "differences": {}}
    for mode in ("import_first", "use_first"):
        got = res.get(mode, {})
        if "error" in got:
            run.inconclusive(f"registry-sweep:{mode}", "registry(configuration sweep)", got["error"])
            continue
        for n in sorted(base):
            name = f"registry:{mode}:{n}"
            if got.get(n) == base[n]:
                run.discharged(name, "registry(configuration sweep)", nontrivial=False,
                               detail={"class": base[n][0], "compiled": base[n][1]})
            else:
                # replay = run the sweep a second time: it must show the same difference
                again = registry_sweep.sweep()["results"]
                if again.get(mode, {}).get(n) != again.get("baseline", {}).get(n):
                    summary["differences"][f"{mode}:{n}"] = {"baseline": base[n], "after_import": got.get(n)}
                    run.violation(name, {"name": n, "mode": mode, "baseline": base[n], "with_odata_query": got.get(n),
                                         "defect_class": "registry"},
                                  f"[registry] sqlalchemy.func.{n}(col) changes when odata_query.sqlalchemy is imported "
                                  f"({mode}): {base[n][:2]} -> {got.get(n, ['?'])[:2]}", "registry(configuration sweep)")
                else:
                    run.harness_error(name, "registry(configuration sweep)", "difference not reproduced by a second sweep")
    return summary


def main() -> int:
    run = Run(PID, "translation_validation")
    ormrun.clear_replays(PID)
    quick = run.tier == "quick"
    try:
        import odata_query.django.shorthand  # noqa: F401
        import odata_query.sqlalchemy.shorthand  # noqa: F401
        run.encode("odata_query.django.shorthand.apply_odata_query", "odata_query.sqlalchemy.shorthand.apply_odata_query",
                   "odata_query.sqlalchemy.shorthand.apply_odata_core", "odata_query.sqlalchemy.shorthand._get_joined_attrs",
                   "odata_query.sqlalchemy.functions_ext (registry, configuration sweep)")
    except Exception as e:                                     # noqa: BLE001
        print(f"[{PID}] cannot import the shorthands: {e}")
        run.notes.append(f"import failed: {e}")
        return run.finish()
    items, info = build_items(run.tier, run.seed)
    timeout_ms = 20000 if quick else 90000
    for it in items:
        it["timeout_ms"] = timeout_ms
    pre = [(_replay_known, (e["witness"],)) for e in run.known if _has_region(e)]
    muts = selftest_orm.host_items(timeout_ms)
    active: List[str] = []

    def after_pre(pre_out):
        active.extend(_known(run, pre_out))
        for it in items:
            it["regions"] = list(active)

    _, chunks = ormrun.run_pool(ormrel.check_host, muts + items, PID, pre, after_pre)
    results = [r for ch in chunks for r in ch]
    selftest_orm.ingest(run, [r for r in results if r.get("family") == "selftest"])
    results = [r for r in results if r.get("family") != "selftest"]
    reg = _registry(run)
    run.bounds = {"database": "as C04: vt_parent x2, vt_child x3, vt_tag x2, vt_parent_tags x3 symbolic row slots",
                  "integers": f"[{V.INT_LO}, {V.INT_HI}], filter literals symbolic", "strings": f"length <= {ormrel.STR_CAP}",
                  "hosts_and_filters": info, "registry_sweep_names": reg.get("names")}
    run.outside = ["host queries other than the enumerated ones (sub-queries, unions, distinct, slices, group by)",
                   "databases larger than the slots", "SQLAlchemy self-referential pre-joins (aliased entities)",
                   "registry: names outside the swept set; dialects other than SQLite for the compiled text"]
    run.assumptions = ["rows(host) per host query is stated in sqlsmt/ormbases.base_term (e.g. INNER JOIN parent = parent ne "
                       "null; Django select_related = all rows) and is itself checked: with the trivial filter the conj "
                       "obligation compares it with the compiled host program",
                       "set semantics for result rows (join fan-out duplicates are noted, not counted)",
                       "order / conjuncts / once are structural comparisons of parsed programs, not solver verdicts; the "
                       "registry clause is a finite configuration sweep in fresh subprocesses",
                       "relational and scalar assumptions of C04 / C01"]
    stats = ormrun.ingest(run, results, classify,
                          lambda r: f"{r['ob']}:{r.get('backend')}:{r.get('model')}:{r.get('base')}:{r.get('filter')}")
    v = stats["obligation_verdicts"]
    run.programs = sum(sum(c.values()) for k, c in v.items() if k.startswith(("conj/", "accept/")))
    run.disagreements_checked = sum(c.get("violation", 0) + c.get("harness_error", 0) for c in v.values())
    run.extra.update(stats)
    run.extra.update({"rule": "one evaluation = one obligation; conj obligations are z3 queries over all databases in the "
                              "bound, order/conjuncts/once are structural, registry:* are configuration-sweep comparisons",
                      "known_regions_active": active, "registry_sweep": reg})
    print(f"[{PID}] programs={len(items)} " + " ".join(f"{k}:{'/'.join(f'{a}={b}' for a, b in sorted(c.items()))}"
                                                       for k, c in sorted(v.items())), flush=True)
    return run.finish()


def replay(data: dict) -> int:
    w = data["witness"]
    if w.get("defect_class") == "registry":
        sw = registry_sweep.sweep()["results"]
        still = sw.get(w["mode"], {}).get(w["name"]) != sw.get("baseline", {}).get(w["name"])
        print(("REPRODUCED: " if still else "not reproduced: ") + f"registry {w['name']} ({w['mode']})")
        return 1 if still else 0
    if "host_sql" in w:
        rs = ormrel.check_host({"name": "replay", "model": w["model"], "base": w.get("base"), "term": ormrel.orm.G.map_term(
            __import__("verif.sqlsmt.tv", fromlist=["_retuple"])._retuple(w["term"]), lambda x: x), "backends": [w["backend"]]})
        bad = [r for r in rs if r["status"] == "violation"]
        print(("REPRODUCED: " + bad[0]["what"]) if bad else "not reproduced")
        return 1 if bad else 0
    # conj witnesses: the reference is host rows AND filter
    from ..sqlsmt.tv import _retuple
    term = _retuple(w["term"])
    bterm = ormbases.base_term(w["backend"], w["model"], w.get("base"))
    w2 = dict(w, term=("and", bterm, term) if bterm is not None else term, filter=w.get("filter"))
    from ..sqlsmt import orm, relref
    from ..models.schema import ROOT_TABLE
    kind, got = orm.replay(w["backend"], w["filter"], w.get("rows") or {}, w["model"], w.get("base"))
    want = relref.kept_ids(w2["term"], w.get("rows") or {}, ROOT_TABLE[w["model"]])
    still = kind == "error" or sorted(set(got)) != want
    print(("REPRODUCED: " if still else "not reproduced: ") + f"{w['backend']} host={w.get('base')} {w['filter']!r}: ORM {got}, expected {want}")
    return 1 if still else 0
