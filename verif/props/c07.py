"""C07 - no filter string can inject SQL through the raw SQL dialects.

Engine B: the real SQL visitors run under CrossHair with the *content of one string literal*
symbolic (<= 3 arbitrary code points: quotes, backslashes, comment markers, NUL, Unicode quotes,
wildcards are all inside the quantifier) - and, separately, one field name symbolic.
Assertion (non-interference), decided per (dialect, alias, syntactic position):
    tokens(visit(T[s])) and tokens(visit(T[""])) - produced by an independent SQL scanner run inside
    the harness - have the same sequence outside string literals / quoted identifiers, the same
    number of string tokens, and the token holding s decodes back to s.
"""
from __future__ import annotations

import os
from typing import Any, Dict, List, Optional, Tuple

from odata_query import ast, exceptions
from odata_query.grammar import ODATA_FUNCTIONS
from odata_query.sql import AstToAthenaSqlVisitor, AstToSqliteSqlVisitor, AstToSqlVisitor

from .. import gen, sqllex
from ..common import Run
from ..harness import Item, run_items

PID = "C07"
DIALECTS = [("standard", AstToSqlVisitor), ("sqlite", AstToSqliteSqlVisitor), ("athena", AstToAthenaSqlVisitor)]
POSITIONS: List[dict] = []
NORM: Dict[str, bool] = {}     # known-finding regions that are active in this run
KID_ESCAPE = "like-escape-clause-depends-on-content"
KID_TWICE = "template-repeats-operand"
REPEATS = [("athena", "hassubset(.. S at 1"), ("standard", "floor(.. S at 0"), ("standard", "ceiling(.. S at 0")]

S = ("Str", ("$", 0))
F = ("Id", "f", ())
G_ = ("Id", "g", ())
ONE = ("Int", "1")


def _visitor(d: int, alias: bool):
    return DIALECTS[d][1]("t0" if alias else None)


def _call(name: str, args: list) -> tuple:
    ns, _, nm = name.rpartition(".")
    return ("Call", ("Id", nm, (ns,) if ns else ()), args)


def build_positions() -> List[dict]:
    pos: List[dict] = []

    def add(kind: str, shape: Any, desc: str, fn: Optional[str] = None):
        pos.append({"kind": kind, "shape": shape, "desc": desc, "fn": fn})

    add("plain", ("Compare", "Eq", F, S), "f eq S")
    add("plain", ("Compare", "NotEq", S, F), "S ne f")
    add("plain", ("Compare", "In", F, ("List", [S, ("Str", "x")])), "f in (S, 'x')")
    add("plain", ("Compare", "In", F, ("List", [("Str", "x"), S])), "f in ('x', S)")
    add("plain", ("BoolOp", "And", ("Compare", "Eq", F, S), ("Compare", "Gt", G_, ONE)), "f eq S and g gt 1")
    add("plain", ("UnaryOp", "Not", ("Compare", "Eq", F, S)), "not (f eq S)")
    add("plain", ("Compare", "Eq", ("BinOp", "Add", F, S), G_), "f add S eq g")
    for full, ar in ODATA_FUNCTIONS.items():
        lo, hi = (ar, ar) if isinstance(ar, int) else ar
        for n in range(max(lo, 1), hi + 1):
            for p in range(n):
                args = [F if j == 0 else (ONE if full in ("substring",) else G_) for j in range(n)]
                args[p] = S
                pattern = full in ("contains", "startswith", "endswith") and p == 1
                add("pattern" if pattern else "plain", ("Compare", "Eq", _call(full, args), ("Bool", "true"))
                    if pattern or full in ("contains", "startswith", "endswith") else ("Compare", "Eq", _call(full, args), G_),
                    f"{full}(.. S at {p} ..)/{n}", fn=full if pattern else None)
                if pattern:   # bare boolean call too
                    add("pattern", _call(full, args), f"bare {full}(f, S)", fn=full)
    # one level of nesting
    add("pattern", _call("contains", [_call("tolower", [F]), S]), "contains(tolower(f), S)", fn="contains")
    add("plain", _call("contains", [F, _call("tolower", [S])]), "contains(f, tolower(S))")
    add("plain", _call("startswith", [F, _call("concat", [S, G_])]), "startswith(f, concat(S, g))")
    add("plain", ("Compare", "Eq", _call("concat", [_call("concat", [F, S]), ("Str", "b")]), G_), "concat(concat(f,S),'b') eq g")
    add("plain", ("Compare", "Eq", _call("indexof", [_call("substring", [S, ONE]), F]), ONE), "indexof(substring(S,1), f) eq 1")
    add("plain", ("Compare", "Eq", _call("length", [_call("trim", [S])]), ONE), "length(trim(S)) eq 1")
    add("pattern", ("BoolOp", "Or", _call("endswith", [F, S]), ("Compare", "Eq", G_, ("Str", "it's"))), "endswith(f,S) or g eq 'it''s'", fn="endswith")
    return pos


# ------------------------------------------------------------------ comparison of token sequences
def strip_like_escape(toks: list) -> list:
    """drop `ESCAPE '<one char>'` directly after the pattern literal of a LIKE (known-finding region)."""
    out = []
    i, n = 0, len(toks)
    while i < n:
        k, t = toks[i]
        if k == "word" and t.upper() == "ESCAPE" and i + 1 < n and toks[i + 1][0] == "str" and len(toks[i + 1][1]) == 1 \
                and out and out[-1][0] == "str":
            i += 2
            continue
        out.append((k, t))
        i += 1
    return out


def like_unescape(x: str, esc: str) -> Optional[str]:
    out = []
    i, n = 0, len(x)
    while i < n:
        if x[i] == esc:
            if i + 1 >= n:
                return None
            out.append(x[i + 1])
            i += 2
        else:
            out.append(x[i])
            i += 1
    return "".join(out)


def _escape_char(toks: list, j: int) -> Optional[str]:
    """escape character of the LIKE whose pattern literal is token j (None if no ESCAPE clause)."""
    if j + 2 < len(toks) and toks[j + 1][0] == "word" and toks[j + 1][1].upper() == "ESCAPE" and toks[j + 2][0] == "str":
        return toks[j + 2][1]
    return None


_SCAN_CACHE: Dict[str, list] = {}
_SPAN_CACHE: Dict[str, list] = {}
HOLE_TOKEN: Dict[tuple, int] = {}   # (position, dialect, alias) -> index of the token that holds the literal


def _scan_base(sql: str) -> list:
    if sql not in _SCAN_CACHE:
        _SPAN_CACHE[sql] = sqllex.scan_spans(sql)
        _SCAN_CACHE[sql] = [t for t, _, _ in _SPAN_CACHE[sql]]
    return _SCAN_CACHE[sql]


def scan_var(base_sql: str, var_sql: str, hole: int) -> list:
    """tokens of var_sql.  Fast path (an optimisation only, same result as sqllex.scan): the text before the token
    that holds the literal is compared with the baseline as one string equality, that one token (and an optional
    ESCAPE clause) is scanned character by character, and the rest is again one string equality with the baseline's
    tail; the scanner is a function of the offset only, so equal text from a token boundary gives equal tokens."""
    spans = _SPAN_CACHE.get(base_sql)
    if spans is None or hole < 0 or hole >= len(spans):
        return sqllex.scan(var_sql)
    (_, start, end) = spans[hole]
    if var_sql[:start] != base_sql[:start]:
        return sqllex.scan(var_sql)
    tok, a, b = sqllex.scan_one(var_sql, start)
    if tok is None:
        return sqllex.scan(var_sql)
    head = [t for t, _, _ in spans[:hole]]
    tail_toks = [t for t, _, _ in spans[hole + 1:]]
    tail = base_sql[end:]
    rest = var_sql[b:]
    if rest == tail:
        return head + [tok] + tail_toks
    t2, a2, b2 = sqllex.scan_one(var_sql, b)
    if t2 is not None and t2[0] == "word":
        t3, a3, b3 = sqllex.scan_one(var_sql, b2)
        if t3 is not None and var_sql[b3:] == tail:
            return head + [tok, t2, t3] + tail_toks
    return sqllex.scan(var_sql)


def compare(base_sql: str, var_sql: str, s: str, kind: str, fn: Optional[str], strict: bool, hole: int = -1,
            twice: bool = False) -> bool:
    tb_raw, tv_raw = _scan_base(base_sql), scan_var(base_sql, var_sql, hole)
    tb, tv = (tb_raw, tv_raw) if strict else (strip_like_escape(tb_raw), strip_like_escape(tv_raw))
    if sqllex.skeleton(tb) != sqllex.skeleton(tv):
        return False
    for k, _ in tv:
        if k in ("bad", "comment", "semi"):
            return False
    changed = [j for j in range(len(tv)) if tv[j] != tb[j]]
    if s == "":
        return len(changed) == 0
    if twice and kind == "plain" and len(changed) >= 2:
        # known finding: the template repeats the operand (Athena hassubset) - each copy must be its own literal of s
        return all(tv[j][0] == "str" and tv[j][1] == s for j in changed)
    if len(changed) != 1 or tv[changed[0]][0] != "str":
        return False
    got = tv[changed[0]][1]
    if kind == "plain":
        return got == s
    # LIKE pattern position: prefix / suffix wildcard from the function, body must decode to s
    pre = "%" if fn in ("contains", "endswith") else ""
    suf = "%" if fn in ("contains", "startswith") else ""
    if len(got) < len(pre) + len(suf) or got[:len(pre)] != pre or (suf and got[len(got) - 1] != "%"):
        return False
    body = got[len(pre):len(got) - len(suf)]
    # find the same literal in the raw (un-normalised) token list to see its ESCAPE clause
    jraw = [j for j in range(len(tv_raw)) if tv_raw[j] == ("str", got)]
    esc = _escape_char(tv_raw, jraw[0]) if jraw else None
    if esc is None:
        return body == s
    return like_unescape(body, esc) == s


BASE: Dict[tuple, Any] = {}     # (position, dialect, alias) -> baseline SQL text for s = "" (computed outside CrossHair)


def _baseline(i: int, d: int, alias: bool) -> Any:
    key = (i, d, alias)
    if key not in BASE:
        try:
            BASE[key] = _visitor(d, alias).visit(gen.build(POSITIONS[i]["shape"], ("",)))
        except exceptions.ODataException:
            BASE[key] = None
        except (AttributeError, TypeError, KeyError, IndexError):
            BASE[key] = "<internal error>"
    return BASE[key]


def check_literal(i: int, d: int, alias: bool, s: str) -> bool:
    p = POSITIONS[i]
    base = _baseline(i, d, alias)
    if base == "<internal error>":
        return True        # a leaking internal error is C12's subject, nothing is emitted here
    try:
        var = _visitor(d, alias).visit(gen.build(p["shape"], (s,)))
    except exceptions.ODataException:
        return base is None
    if base is None or not isinstance(base, str) or not isinstance(var, str):
        return base is None and not isinstance(var, str)
    twice = bool(NORM.get(KID_TWICE)) and any(DIALECTS[d][0] == dn and p["desc"].startswith(pre) for dn, pre in REPEATS)
    return compare(base, var, s, p["kind"], p["fn"], strict=not NORM.get(KID_ESCAPE, False),
                   hole=HOLE_TOKEN.get((i, d, alias), -1), twice=twice)


def check_field(d: int, alias: bool, shape_i: int, name: str) -> bool:
    """a field name ends up inside exactly one quoted identifier; spelling never changes other tokens."""
    shapes = [("Compare", "Eq", ("Id", ("$", 0), ()), ("Str", "v")),
              _call("contains", [("Id", ("$", 0), ()), ("Str", "v")]),
              ("Compare", "Eq", _call("tolower", [("Id", ("$", 0), ())]), ("Id", "g", ())),
              ("Compare", "Gt", ("BinOp", "Add", ("Id", ("$", 0), ()), ONE), ONE)]
    sh = shapes[shape_i]
    base = _scan_base(_visitor(d, alias).visit(gen.build(sh, ("f",))))
    var = sqllex.scan(_visitor(d, alias).visit(gen.build(sh, (name,))))
    if sqllex.skeleton(base) != sqllex.skeleton(var):
        return False
    changed = [j for j in range(len(var)) if var[j] != base[j]]
    want = ref_clean_athena(name) if DIALECTS[d][0] == "athena" else name
    if want == "f":
        return not changed
    if len(changed) != 1 or var[changed[0]][0] != "qid":
        return False
    return var[changed[0]][1] == want


def prepare(tier: str, seed: int) -> None:
    POSITIONS[:] = build_positions()
    for i in range(len(POSITIONS)):          # warm the baseline caches before any symbolic execution starts
        for d in range(len(DIALECTS)):
            for alias in (False, True):
                b = _baseline(i, d, alias)
                if isinstance(b, str) and b != "<internal error>":
                    _scan_base(b)
                    # which token holds the literal: render once with a sentinel and diff against the baseline
                    try:
                        sent = sqllex.scan(_visitor(d, alias).visit(gen.build(POSITIONS[i]["shape"], ("\x01Zq\x01",))))
                        diff = [j for j in range(min(len(sent), len(_SCAN_CACHE[b]))) if sent[j] != _SCAN_CACHE[b][j]]
                        if len(sent) == len(_SCAN_CACHE[b]) and len(diff) == 1:
                            HOLE_TOKEN[(i, d, alias)] = diff[0]
                    except Exception:
                        pass


def ref_clean_athena(name: str) -> str:
    """AWS rule the Athena dialect promises: lower case, only [a-z0-9_] (everything else becomes '_')."""
    return "".join(c if c in "abcdefghijklmnopqrstuvwxyz0123456789_" else "_" for c in name.lower())


def _replay_known(run: Run) -> None:
    """honour a listed finding only if its witness still fails under the strict comparison."""
    for k in run.known:
        if k.get("id") == KID_TWICE:
            pos = [i for i, p in enumerate(POSITIONS) if p["desc"].startswith("hassubset(.. S at 1")]
            if pos:
                vis = _visitor(2, False)
                base = vis.visit(gen.build(POSITIONS[pos[0]]["shape"], ("",)))
                var = _visitor(2, False).visit(gen.build(POSITIONS[pos[0]]["shape"], ("q",)))
                if not compare(base, var, "q", "plain", None, strict=True) and compare(base, var, "q", "plain", None, strict=True, twice=True):
                    NORM[KID_TWICE] = True
                    run.known_finding(k, f"hassubset(f, 'q') -> {var!r}: the literal occupies two string tokens", name="known:" + KID_TWICE,
                                      family="literal")
                else:
                    run.notes.append(f"known finding {KID_TWICE} no longer reproduces: region not excluded")
            continue
        if k.get("id") != KID_ESCAPE:
            continue
        w = k.get("witness", {})
        vis = _visitor(w.get("dialect", 0), False)
        base = vis.visit(gen.build(_call("contains", [F, S]), ("",)))
        var = vis.visit(gen.build(_call("contains", [F, S]), (w.get("s", "%"),)))
        strict_ok = compare(base, var, w.get("s", "%"), "pattern", "contains", strict=True)
        relaxed_ok = compare(base, var, w.get("s", "%"), "pattern", "contains", strict=False)
        if not strict_ok and relaxed_ok:
            NORM[KID_ESCAPE] = True
            run.known_finding(k, f"contains(f,'{w.get('s', '%')}') -> {var!r} vs contains(f,'') -> {base!r}: the token "
                                 f"sequence differs by the ESCAPE clause", name="known:" + KID_ESCAPE, family="literal")
        else:
            run.notes.append(f"known finding {KID_ESCAPE} no longer reproduces: region not excluded")


def main() -> int:
    run = Run(PID, "model_checking")
    run.encode("odata_query.sql.base.AstToSqlVisitor (visit_String, visit_Identifier, _to_pattern, sqlfunc_*, visit_Compare/BinOp/"
               "BoolOp/UnaryOp/List/Call)", "odata_query.sql.sqlite.AstToSqliteSqlVisitor", "odata_query.sql.athena.AstToAthenaSqlVisitor "
               "(clean_athena_identifier)")
    prepare(run.tier, run.seed)
    quick = run.tier == "quick"
    _replay_known(run)
    run.bounds = {"string literal content": "symbolic str, any code points, len <= 3 (LIKE-pattern positions in the quick tier: len <= 2)", "field name": "symbolic str, len <= 2 "
                  "(Athena: regex-cleaned, len <= 1), not containing a double quote (the identifier token language excludes it)",
                  "positions": len(POSITIONS), "dialects": [d for d, _ in DIALECTS], "alias": [False, True]}
    run.outside = ["string contents longer than 3 code points", "more than one symbolic literal per filter",
                   "positions nested deeper than one call inside another"]
    run.assumptions = ["SQL is tokenised by standard-SQL rules (quote doubling, no backslash escapes) - verif/sqllex",
                       "that identifiers accepted by the lexer never contain a double quote is the Engine-A lemma of C06/C07 "
                       "(L(ODATA_IDENTIFIER) has no '\"'); the harness assumes it as a precondition"]
    items: List[Item] = []
    for i, p in enumerate(POSITIONS):
        for d, (dn, _) in enumerate(DIALECTS):
            # quick: every position on one dialect and one alias setting (rotating with the seed) - the literal
            # handling lives in the shared base class; thorough: every position x dialect x alias
            if quick and (i + d + run.seed) % 3 and i >= 7:
                continue
            aliases = (False, True) if not quick else ((i + d + run.seed) % 2 == 0,)
            bound = 3 if (not quick or p["kind"] == "plain") else 2
            for alias in aliases:
                items.append(Item(f"lit{i}_{dn}_{int(alias)}", "s: str", f"len(s) <= {bound}",
                                  f"check_literal({i}, {d}, {alias}, s)",
                                  describe={"position": p["desc"], "kind": p["kind"], "dialect": dn, "alias": alias,
                                            "len_bound": bound},
                                  family="literal:" + p["kind"]))
    for d, (dn, _) in enumerate(DIALECTS):
        for sh in range(4):
            bound = "len(name) <= 1" if dn == "athena" else "len(name) <= 2"
            items.append(Item(f"fld_{dn}_{sh}", "name: str", f"0 < len(name) and {bound} and chr(34) not in name",
                              f"check_field({d}, {sh % 2 == 0}, {sh}, name)",
                              describe={"dialect": dn, "shape": sh}, family="field-name"))
    for it in items[:3]:
        run.sample({"harness": it.name, "describe": it.describe})
    header = "from verif.props.c07 import check_literal, check_field\n"
    run_items(run, header, items, per_condition_timeout=150 if quick else 900,
              progress=bool(os.environ.get("VERIF_PROGRESS")))
    return run.finish()
