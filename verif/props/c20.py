"""C20 - lexer and parser instances are reusable and deterministic.

Engine B, one inductive step from an arbitrary pre-state (DESIGN.md section 4, C20):

  stale-state step    a warm-up (valid parse, syntax error at end / in the middle, tokenising error, unknown function, wrong
                      argument count) discovers every instance attribute that ODataLexer() / ODataParser() ever carry.  In the
                      harness each attribute of a *fresh* pair is overwritten with a symbolic value of its observed type
                      (ints, bools, strings <= 2 characters, lists of <= 2 small ints - turned into state numbers / stack
                      symbols -, poisoned callables / iterators that raise when touched, a symbolic pick of a production) - the
                      stale state that *any* history of calls, of any length and interleaved with any other instances, could
                      leave behind.  Then a probe string is parsed with that pair; outcome (decoded AST or exception class +
                      message) must equal a fresh pair's.  If parse/tokenize never read stale state CrossHair confirms on a
                      single path, which covers all values.
  rewriter            AliasRewriter(map, lexer, parser) with such poisoned instances == with fresh ones (replacements and the
                      rewritten tree).
  counterexamples     a stale value that changes the outcome is a VIOLATION only if a concrete history (<= 3 calls from the
                      pool) reproduces a difference against a fresh pair; otherwise inconclusive.

Concrete parts (labelled, not solver verdicts): the history sweep itself (all histories of <= 3 calls x all probes), the
class-level tables (_lrtable, _grammar, _master_re, _token_funcs, ODATA_FUNCTIONS) snapshot before / after, and the
hash-seed / import-order sweep in fresh subprocesses.
"""
from __future__ import annotations

import hashlib
import itertools
import json
import os
import subprocess
import sys
import types
from typing import Any, Dict, List, Optional, Sequence, Tuple

from odata_query import ast, exceptions, grammar
from odata_query.grammar import ODataLexer, ODataParser
from odata_query.rewrite import AliasRewriter
from sly.lex import Token
from sly.yacc import YaccSymbol

from .. import gen
from ..common import Run
from ..harness import Item, run_items
from . import c06 as _v

PID = "C20"

HISTORY_POOL = ["a eq 1 and contains(b/c, 'x')", "a eq", "a eq ) 1", "a eq #", "nosuch(1)", "length(1, 2)",
                "geo.distance(p, geography'SRID=0;Point(1 2)') lt 5 and city eq 'New  York'",
                # literals that start but never end: whatever the lexer set up for the literal must not outlive the error
                "p eq geography'SRID=0;Point(1 2)", "name eq 'abc", "d eq duration'P1D", "a eq 1 and (b eq geography'x",
                # paths of three and more segments: plain, as lambda owner, and in inputs that fail *after* the path was reduced
                "a/b/c eq 1", "a/b/c/any(x: x/p/q gt 1) and", "f(a/b/c/d) eq"]
# near-duplicates: texts that differ only where a normalising memo key would not look (blank runs and letter case inside a
# quoted literal, the namespace of a function name, the spelling of a number, the case of a field name, trailing blanks)
NEAR = ["city eq 'New  York'", "city eq 'New York'", "city eq 'New\tYork'", "city eq 'new york'", "CITY eq 'New York'",
        "distance(p, geography'SRID=0;Point(1 2)') lt 5", "geo.contains(x, 'y')", "contains(x, 'y')", "geo.length(p)", "n eq 01", "n eq 1",
        "n eq 1.0", "n eq 1 ", "n  eq  1", "geography'SRID=0;Point(1  2)' eq p", "geography'SRID=0;Point(1 2)' eq p",
        "p eq geography'SRID=0;Point(1 2)", "name eq 'abc", "round(price, 2) eq 1.5", "round(price) eq 1"]
PROBES = ["a eq 1 and contains(b/c, 'x')", "a/any(x: x/k gt 1) or not (b in (1, 2))", "a eq", "(a", "a eq #", "nosuch(1)",
          "length(1, 2)", "", "geo.distance(p, geography'SRID=0;Point(1 2)') lt 5",
          "name in ('a', 'b', 'c', 'd', 'a')", "n in (3, 1, 2, 3, 1) and m in ('x', 1, 'x', 2.5, null, 1)",
          "a/b/c eq 1", "a/b/c/d ne a/b/c", "a/b/c/any(x: x/p/q gt 1)", "f(a/b/c) eq a/b/c/d", "ns.f(p=1, q=a/b/c, r='s')"] + NEAR
ALIAS_MAPS = [{"a": "b/c"}, {"a": "b/c", "x/y": "tolower(z)", "n": "m"}, {}, {"a": "b/c/d", "x/y": "b/c/d", "n": "b/c/d/e"}]
REWRITE_INPUTS = ["a eq 1", "x/y eq n or f(a) gt a/k", "items/any(a: a/n eq n)"]
# sub-expressions that are written twice inside one filter must decode identically both times
# `in` lists with repeated members: the decoded list must keep the members as written (order and multiplicity)
IN_LISTS = [("name in ('a', 'b', 'c', 'd', 'a')", ["'a'", "'b'", "'c'", "'d'", "'a'"]), ("n in (3, 1, 2, 3, 1)", ["3", "1", "2", "3", "1"]),
            ("m in ('x', 1, 'x', 2.5, null, 1)", ["'x'", "1", "'x'", "2.5", "null", "1"]), ("f in (a, b, a, c/d, c/d)", ["a", "b", "a", "c/d", "c/d"])]
REPEATED = ["a/b/c", "a/b/c/d", "a/b/c/any(x: x/p/q gt 1)", "ns.f(a/b/c, 'x')", "ns.f(p=1, q=2, r=3)", "(1, 2, 3)", "a/b"]


class _Quiet(Run):
    """collects the CrossHair outcomes without printing: a counterexample is only reported after the history sweep"""

    def violation(self, name, witness, what, family="", solver_s=0.0):  # type: ignore[override]
        self.add(name, "violation", family, {"what": what, "witness": witness}, solver_s)
        return ""


class Poison(Exception):
    """raised when code touches a stale callable / iterator that a previous call left on the instance"""


def _poison_fn(*_a, **_k):
    raise Poison("stale callable used")


class _PoisonIter:
    def __iter__(self):
        return self

    def __next__(self):
        raise Poison("stale token generator consumed")


# ---------------------------------------------------------------- outcome of one parse
def outcome(lexer: Any, parser: Any, text: str) -> tuple:
    try:
        r = parser.parse(lexer.tokenize(text))
    except exceptions.ODataException as e:
        return ("lib", type(e).__name__, str(e))
    except Poison as e:
        return ("poison", str(e))
    except Exception as e:  # noqa: BLE001
        return ("foreign", type(e).__name__, str(e))
    if isinstance(r, ast._Node):
        return ("node", gen.decode(r))     # the structure itself: CrossHair 0.0.110 prints 1-tuples without the comma in repr()
    return ("non-node", type(r).__name__)


FRESH: Dict[str, tuple] = {}


def fresh_outcome(text: str) -> tuple:
    if text not in FRESH:
        FRESH[text] = outcome(ODataLexer(), ODataParser(), text)
    return FRESH[text]


# the reference outcome of a probe is taken from a process that has parsed NOTHING else: a memo on the class or the module
# (shared by every instance, fresh ones included) would make a fresh pair in this process agree with the used pair
_ISOLATED_CHILD = r'''
import base64, pickle, sys
from odata_query import ast, exceptions
from odata_query.grammar import ODataLexer, ODataParser
from verif import gen
res = None
for text in sys.argv[1:]:
    lexer, parser = ODataLexer(), ODataParser()
    try:
        r = parser.parse(lexer.tokenize(text))
    except exceptions.ODataException as e:
        res = ("lib", type(e).__name__, str(e))
    except Exception as e:
        res = ("foreign", type(e).__name__, str(e))
    else:
        res = ("node", gen.decode(r)) if isinstance(r, ast._Node) else ("non-node", type(r).__name__)
sys.stdout.write(base64.b64encode(pickle.dumps(res)).decode())
'''


def isolated_outcomes(seqs: Sequence[Sequence[str]]) -> List[Optional[tuple]]:
    """outcome of the LAST text of every sequence, each sequence in its own fresh interpreter (fresh pair per text)"""
    import base64
    import pickle
    env = dict(os.environ)
    env["PYTHONPATH"] = os.pathsep.join([env["PYTHONPATH"]] if env.get("PYTHONPATH") else []) or ""
    env["PYTHONPATH"] = os.pathsep.join(x for x in (env["PYTHONPATH"], str(_root())) if x)
    out: List[Optional[tuple]] = [None] * len(seqs)
    width = min(16, os.cpu_count() or 4)
    for lo in range(0, len(seqs), width):
        procs = [(k, subprocess.Popen([sys.executable, "-c", _ISOLATED_CHILD, *seqs[k]], env=env, stdout=subprocess.PIPE,
                                      stderr=subprocess.PIPE, text=True)) for k in range(lo, min(lo + width, len(seqs)))]
        for k, pr in procs:
            o, _e = pr.communicate(timeout=300)
            if pr.returncode == 0 and o:
                out[k] = pickle.loads(base64.b64decode(o))
    return out


# ---------------------------------------------------------------- warm-up: which attributes can an instance carry?
ATTRS: List[Tuple[str, str, str]] = []      # (owner 'L'|'P', attribute name, kind)


def _kind(v: Any) -> str:
    if isinstance(v, bool):
        return "bool"
    if isinstance(v, int):
        return "int"
    if isinstance(v, str):
        return "str"
    if isinstance(v, list):
        return "list"
    if isinstance(v, (types.FunctionType, types.MethodType, types.BuiltinFunctionType)):
        return "callable"
    if isinstance(v, types.GeneratorType) or hasattr(v, "__next__"):
        return "iterator"
    if type(v).__name__ == "Production":
        return "production"
    if v is None:
        return "none"
    return "object"


def discover() -> None:
    found: Dict[Tuple[str, str], str] = {}
    for hist in [[h] for h in HISTORY_POOL] + [HISTORY_POOL]:
        lx, ps = ODataLexer(), ODataParser()
        for text in hist:
            outcome(lx, ps, text)
            for owner, obj in (("L", lx), ("P", ps)):
                for k, v in vars(obj).items():
                    kd = _kind(v)
                    prev = found.get((owner, k))
                    if prev is None or prev == "none":
                        found[(owner, k)] = kd
                    elif kd not in ("none", prev):
                        found[(owner, k)] = "object"
    ATTRS[:] = sorted((o, k, kd) for (o, k), kd in found.items())


SYMBOLIC_KINDS = ("bool", "int", "str", "list")


def _stale_constant(kind: str) -> Any:
    """Worst-case stale value for attributes that hold callables / iterators / objects: anything that touches it raises
    Poison (so a read shows up as a changed outcome); a production object for `production`."""
    if kind == "callable":
        return _poison_fn
    if kind == "iterator":
        return _PoisonIter()
    if kind == "production":
        return ODataParser._grammar.Productions[1]
    return _PoisonIter()


STALE_LEN = 2


def _param(kind: str, v: str) -> Tuple[str, str]:
    if kind == "bool":
        return f"{v}: bool", "True"
    if kind == "int":
        return f"{v}: int", "True"
    if kind == "str":
        return f"{v}: str", f"len({v}) <= {STALE_LEN}"
    return f"{v}: List[int]", f"len({v}) <= {STALE_LEN}"


def install(lexer: Any, parser: Any, values: Sequence[Any]) -> None:
    """no branching on the symbolic values: they are stored as they are (a symbolic list of ints stands for an arbitrary
    stale state / symbol stack), so that a parse that never reads them is one CrossHair path covering every value"""
    it = iter(values)
    for owner, name, kind in ATTRS:
        v = next(it) if kind in SYMBOLIC_KINDS else _stale_constant(kind)
        object.__setattr__(lexer if owner == "L" else parser, name, v)


def step(probe: int, *values: Any) -> bool:
    lx, ps = ODataLexer(), ODataParser()
    install(lx, ps, values)
    return same(fresh_outcome(PROBES[probe]), outcome(lx, ps, PROBES[probe]))


def _pick_text(pool: Sequence[str], i: int) -> str:
    """explicit branching: the text stays concrete on every CrossHair path"""
    for k in range(len(pool)):
        if i == k:
            return pool[k]
    return pool[0]


def twice(i: int, j: int) -> bool:
    """one lexer / parser pair parses probe i, probe j and probe i again (j == i included): every outcome equals a fresh
    pair's.  Covers state that is not an instance attribute (caches keyed by instance or by value, module globals)."""
    lx, ps = ODataLexer(), ODataParser()
    for n in (i, j, i):
        text = _pick_text(PROBES, n)
        if not same(fresh_outcome(text), outcome(lx, ps, text)):
            return False
    return True


def repeated(i: int, j: int) -> bool:
    """`X eq X` (and `X eq Y`): an expression written twice inside one filter decodes identically at both places, and each
    side equals what it decodes to on its own (fresh pair)"""
    x, y = _pick_text(REPEATED, i), _pick_text(REPEATED, j)
    got = outcome(ODataLexer(), ODataParser(), x + " eq " + y)
    if got[0] != "node" or got[1][0] != "Compare":
        return False
    return same(FRESH_SINGLE[x], got[1][2]) and same(FRESH_SINGLE[y], got[1][3])


FRESH_SINGLE: Dict[str, Any] = {}


def in_list_members(i: int) -> bool:
    """`x in (m1, ..., mk)` keeps exactly the members as written: each decoded member equals that member parsed on its own"""
    text, members = IN_LISTS[i]
    got = outcome(ODataLexer(), ODataParser(), text)
    if got[0] != "node" or got[1][0] != "Compare" or got[1][3][0] != "List":
        return False
    items = got[1][3][1][1:]
    if len(items) != len(members):
        return False
    for m, d in zip(members, items):
        if not same(fresh_outcome(m)[1], d):
            return False
    return True


def expected_replacements(mp: dict) -> list:
    """every key / value of an alias map parsed by its own fresh pair"""
    return [(fresh_outcome(k)[1], fresh_outcome(v)[1]) for k, v in mp.items()]


def _rewriter_result(mp: dict, lx: Any, ps: Any, text: str) -> tuple:
    try:
        rw = AliasRewriter(mp, lx, ps)
        repl = [(gen.decode(k), gen.decode(v)) for k, v in rw.replacements.items()]     # insertion order = order of the map
        tree = ODataParser().parse(ODataLexer().tokenize(text))
        return ("ok", repl, gen.decode(rw.visit(tree)))
    except Poison as e:
        return ("poison", str(e))
    except Exception as e:  # noqa: BLE001
        return ("exc", type(e).__name__, str(e))


FRESH_REWRITE: Dict[Tuple[int, int], tuple] = {}


def same(a: Any, b: Any) -> bool:
    """structural equality with character-wise string comparison (CrossHair 0.0.110 mis-evaluates == between a derived
    string - slice, regex group, repr - and a plain one; see verif.props.c06.same_str)"""
    if isinstance(a, str) or isinstance(b, str):
        return isinstance(a, str) and isinstance(b, str) and _v.same_str(a, b)
    if isinstance(a, (tuple, list)):
        if type(a) is not type(b) or len(a) != len(b):
            return False
        for x, y in zip(a, b):
            if not same(x, y):
                return False
        return True
    return a == b


def rewriter_step(mi: int, ti: int, *values: Any) -> bool:
    lx, ps = ODataLexer(), ODataParser()
    install(lx, ps, values)
    return same(FRESH_REWRITE[(mi, ti)], _rewriter_result(ALIAS_MAPS[mi], lx, ps, REWRITE_INPUTS[ti]))


# ---------------------------------------------------------------- concrete sweep over histories
def history_differences(max_len: int = 3, limit: int = 5) -> List[dict]:
    diffs: List[dict] = []
    for n in range(1, max_len + 1):
        for hist in itertools.product(range(len(HISTORY_POOL)), repeat=n):
            lx, ps = ODataLexer(), ODataParser()
            for h in hist:
                outcome(lx, ps, HISTORY_POOL[h])
            for probe in PROBES:
                # the used pair is used once per probe, in sequence: later probes see an even longer history
                got = outcome(lx, ps, probe)
                if got != fresh_outcome(probe):
                    diffs.append({"history": [HISTORY_POOL[h] for h in hist], "probe": probe, "used_pair": got, "fresh_pair": fresh_outcome(probe)})
                    if len(diffs) >= limit:
                        return diffs
    return diffs


def rewriter_differences() -> List[dict]:
    """AliasRewriter with fresh, default and used instances: replacements == every key / value parsed by its own fresh pair"""
    diffs = []
    for mp in ALIAS_MAPS:
        want = expected_replacements(mp)
        configs = [("default instances", None, None), ("fresh instances", ODataLexer(), ODataParser())]
        for h in HISTORY_POOL:
            lx, ps = ODataLexer(), ODataParser()
            outcome(lx, ps, h)
            configs.append((f"instances used for {h!r}", lx, ps))
        for label, lx, ps in configs:
            try:
                rw = AliasRewriter(mp, lx, ps)
                got = [(gen.decode(k), gen.decode(v)) for k, v in rw.replacements.items()]
            except Exception as e:  # noqa: BLE001
                got = [("exception", type(e).__name__, str(e))]
            if got != want:
                diffs.append({"alias_map": mp, "instances": label, "replacements": got, "expected": want})
    return diffs[:5]


def interleaving_differences() -> List[dict]:
    """two pairs used alternately (and a lexer shared by two parsers) against fresh pairs"""
    diffs = []
    l1, p1, l2, p2 = ODataLexer(), ODataParser(), ODataLexer(), ODataParser()
    for a, b in itertools.product(PROBES, repeat=2):
        r1, r2 = outcome(l1, p1, a), outcome(l2, p2, b)
        r3 = outcome(l1, p2, a)        # crossed instances
        for txt, got in ((a, r1), (b, r2), (a, r3)):
            if got != fresh_outcome(txt):
                diffs.append({"interleaving": [a, b], "text": txt, "got": got, "fresh": fresh_outcome(txt)})
    return diffs[:5]


from .c20_state import class_state  # noqa: E402  (light module: the sweep's child processes import only that)


# ---------------------------------------------------------------- hash seed / import order sweep
_CHILD = r'''
import sys, json
order = sys.argv[1]
if order == "grammar-first":
    import odata_query.grammar as g
    import odata_query.rewrite, odata_query.roundtrip, odata_query.sql
elif order == "grammar-only":
    import odata_query.grammar as g          # no backend is ever imported: a backend must not change the shared tables at import
elif order == "sqlalchemy-only":
    import odata_query.sqlalchemy
    import odata_query.grammar as g
elif order == "django-only":
    from verif.models import setup as _ms
    _ms.django_setup()
    import odata_query.django
    import odata_query.grammar as g
elif order == "athena-only":
    import odata_query.sql.athena
    import odata_query.grammar as g
else:
    import odata_query.sql, odata_query.roundtrip, odata_query.rewrite
    import odata_query.visitor, odata_query.typing
    import odata_query.grammar as g
from verif.props.c20_state import class_state
from odata_query.grammar import ODataLexer, ODataParser
probe = []
for text in ["a eq 1 and contains(b/c, 'x')", "a eq", "nosuch(1)", "a/any(x: x/k gt 1) or not (b in (1, 2))",
             "ns.f(p=1, q=2)", "ns.f(p=1, q='s', r=a)", "ns.f(alpha=1, beta=2, gamma=3, delta=4, epsilon=5)", "a in ('x', 'y', 'z', 'w')",
             "concat(tolower(a), substring(b, 1, 2)) eq 'x'", "a/b/all(x: x/k in (1, 2, 3) and ns.g(u=x, v=1))",
             "(1, (2, 3), 'a') eq b", "a/b/c/d eq a/b/c",
             # repeated members: a de-duplication through set() would make the order depend on the hash seed
             "name in ('a', 'b', 'c', 'd', 'a')", "name in ('delta', 'alpha', 'charlie', 'bravo', 'alpha', 'echo', 'delta')",
             "n in (3, 1, 2, 3, 1)", "m in ('x', 1, 'x', 2.5, null, 1, true, 'y')", "(1, 1, 2) eq (2, 2, 1)",
             "f in (a, b, a, c/d, c/d)", "ns.f(p=1, q=2, p=1)", "concat(a, a) eq concat('x', 'x')",
             # calls at the edges of every built-in's argument range: a backend that widens a range at import shows here
             "round(price, 2) eq 1.5", "round() eq 1", "substring(a) eq 'x'", "substring(a, 1, 2, 3) eq 'x'", "concat(a) eq 'x'",
             "concat(a, b, c) eq 'x'", "now(1) gt d", "trim(a, b) eq 'x'", "floor(x, 1) eq 1", "geo.length(p, q) gt 1",
             "hassubset(a) eq true", "contains(a) eq true", "year() eq 1", "date(a, b) eq d", "indexof(a) eq 1"]:
    try:
        tree = ODataParser().parse(ODataLexer().tokenize(text))
        probe.append(repr(tree))
    except Exception as e:
        probe.append(type(e).__name__ + ": " + str(e))
print(json.dumps({"state": class_state(), "probe": probe}))
'''


def seed_sweep(run: Run) -> None:
    seeds = [0, 1, 2, 12345] if run.tier == "quick" else [0, 1, 2, 3, 5, 7, 11, 42, 99, 1000, 12345, 65535, 2 ** 20, 2 ** 31, 4294967295, 31337]
    procs = []
    for seed in seeds:
        orders = ("grammar-first", "grammar-last", "grammar-only", "sqlalchemy-only", "django-only", "athena-only")
        for order in (orders if seed == seeds[0] or run.tier != "quick" else orders[:2]):
            env = dict(os.environ, PYTHONHASHSEED=str(seed))
            env["PYTHONPATH"] = os.pathsep.join([str(_root())] + ([env["PYTHONPATH"]] if env.get("PYTHONPATH") else []))
            procs.append((seed, order, subprocess.Popen([sys.executable, "-c", _CHILD, order], env=env, stdout=subprocess.PIPE,
                                                        stderr=subprocess.PIPE, text=True)))
    digests: Dict[str, List[str]] = {}
    first: Optional[dict] = None
    for seed, order, p in procs:
        out, err = p.communicate(timeout=300)
        name = f"seed={seed},{order}"
        if p.returncode != 0:
            run.harness_error(f"hash-seed:{name}", "hash-seed-sweep(concrete)", err[-400:])
            continue
        d = json.loads(out.strip().splitlines()[-1])
        h = hashlib.sha1(json.dumps(d, sort_keys=True).encode()).hexdigest()[:12]
        digests.setdefault(h, []).append(name)
        if first is None:
            first = d
        elif d != first:
            which = "parse results" if d["probe"] != first["probe"] else "tables"
            a, b = (first["state"], d["state"]) if which == "tables" else (str(first["probe"]), str(d["probe"]))
            pos = next((i for i, (x, y) in enumerate(zip(a, b)) if x != y), min(len(a), len(b)))
            run.violation(f"hash-seed:{name}", {"configuration": name, "differs_in": which, "reference": a[max(0, pos - 80):pos + 80],
                                                "this": b[max(0, pos - 80):pos + 80],
                                                "how_to_replay": f"PYTHONHASHSEED={seed} python -c 'import odata_query.grammar' ({order}) and compare the tables"},
                          f"the generated {which} differ between hash seeds / import orders ({name})", "hash-seed-sweep(concrete)")
            continue
        run.discharged(f"hash-seed:{name}: tables, function table, precedence, 35 probe outcomes identical", "hash-seed-sweep(concrete)",
                       nontrivial=False)
    run.extra["hash_seed_sweep(finite configuration sweep, not a solver verdict)"] = {"configurations": len(procs), "distinct_digests": digests}


def _root():
    from ..common import ROOT
    return ROOT


# ---------------------------------------------------------------- main
HEADER = "from typing import List\nfrom verif.props.c20 import step, rewriter_step, twice, repeated, in_list_members\n"


def _items() -> List[Item]:
    params, pres, names = [], [], []
    for i, (_o, _n, kind) in enumerate(ATTRS):
        if kind not in SYMBOLIC_KINDS:
            continue
        p, pre = _param(kind, f"v{i}")
        params.append(p)
        names.append(f"v{i}")
        if pre != "True":
            pres.append(pre)
    sig, pre, args = ", ".join(params), " and ".join(pres) or "True", ", ".join(names)
    what = ", ".join(f"{'lexer' if o == 'L' else 'parser'}.{n}:{k}" for o, n, k in ATTRS)
    items = []
    for i, probe in enumerate(PROBES):
        if probe in NEAR[4:]:
            continue        # near-duplicates matter for sequences on one pair (below), not for the one-step stale-state argument
        items.append(Item(f"stale_{i}", sig, pre, f"step({i}, {args})", family="stale-state",
                          describe=f"parse({probe!r}) with every instance attribute symbolic == fresh pair  [{what}]" if i == 0
                          else f"parse({probe!r}) with every instance attribute symbolic == fresh pair"))
    for mi in range(len(ALIAS_MAPS)):
        for ti in range(len(REWRITE_INPUTS)):
            items.append(Item(f"rewriter_{mi}_{ti}", sig, pre, f"rewriter_step({mi}, {ti}, {args})", family="rewriter-stale-instances",
                              describe=f"AliasRewriter({ALIAS_MAPS[mi]!r}, stale lexer, stale parser) on {REWRITE_INPUTS[ti]!r} == with fresh instances"))
    npr = len(PROBES)
    for i in range(npr):
        items.append(Item(f"twice_{i}", "x0: int", f"0 <= x0 < {npr}", f"twice({i}, x0)", family="same-instance-sequence",
                          describe=f"one pair parses {PROBES[i]!r}, a symbolic pick of the {npr} probes, and {PROBES[i]!r} again: "
                                   "each outcome == fresh pair"))
    for i, (text, _m) in enumerate(IN_LISTS):
        items.append(Item(f"in_list_{i}", "x0: bool", "True", f"in_list_members({i})", family="repeat-within-filter",
                          describe=f"{text!r}: the list keeps its members as written (order, multiplicity)"))
    nr = len(REPEATED)
    for i in range(nr):
        items.append(Item(f"repeated_{i}", "x0: int", f"0 <= x0 < {nr}", f"repeated({i}, x0)", family="repeat-within-filter",
                          describe=f"{REPEATED[i]!r} eq <symbolic pick of {REPEATED}>: both sides decode as they do on their own"))
    return items


def precompute() -> None:
    """reference outcomes of fresh instances, computed concretely at import (outside CrossHair: it mis-models hash() of the
    frozen AST dataclasses now and then - 'TypeError: __hash__ method should return an integer' - when the same rewriting
    runs twice on one path)"""
    texts = list(dict.fromkeys(PROBES + [m for _t, ms in IN_LISTS for m in ms]
                               + [x for mp in ALIAS_MAPS for kv in mp.items() for x in kv]))
    for t, o in zip(texts, isolated_outcomes([[t] for t in texts])):
        if o is not None:
            FRESH[t] = o
            ISOLATED[t] = o
    for t in PROBES:
        fresh_outcome(t)
    for x in REPEATED:
        FRESH_SINGLE[x] = outcome(ODataLexer(), ODataParser(), x)[1]
    for _t, members in IN_LISTS:
        for m in members:
            fresh_outcome(m)
    for mi in range(len(ALIAS_MAPS)):
        for ti in range(len(REWRITE_INPUTS)):
            FRESH_REWRITE[(mi, ti)] = _rewriter_result(ALIAS_MAPS[mi], None, None, REWRITE_INPUTS[ti])


ISOLATED: Dict[str, tuple] = {}


def process_history_differences() -> List[dict]:
    """after everything this process has parsed: a FRESH pair here must still agree with a fresh pair in a fresh process"""
    diffs = []
    for t in PROBES:
        if t not in ISOLATED:
            continue
        got = outcome(ODataLexer(), ODataParser(), t)
        if got != ISOLATED[t]:
            d = {"probe": t, "fresh_pair_in_used_process": got, "fresh_pair_in_fresh_process": ISOLATED[t], "history": None}
            cands = [h for h in HISTORY_POOL + PROBES if h != t]
            for h, o in zip(cands, isolated_outcomes([[h, t] for h in cands])):
                if o is not None and o != ISOLATED[t]:
                    d["history"] = [h]
                    break
            diffs.append(d)
    return diffs[:5]


discover()
precompute()


def main() -> int:
    run = Run(PID, "model_checking")
    progress = bool(os.environ.get("VERIF_PROGRESS"))
    run.encode("sly.lex.Lexer.tokenize and sly.yacc.Parser.parse (instance state: " + ", ".join(f"{o}.{n}" for o, n, _k in ATTRS) + ")",
               "odata_query.grammar.ODataLexer / ODataParser (error hooks, grammar actions)", "odata_query.rewrite.AliasRewriter.__init__ / visit")
    run.bounds = {"stale_values": "symbolic: ints and bools unbounded, strings <= 2 characters, lists of <= 2 ints (stale state / symbol "
                                  "stacks); concrete worst case: callables and iterators that raise when touched, a production object",
                  "probes": PROBES, "discovered_attributes": [f"{o}.{n}:{k}" for o, n, k in ATTRS],
                  "concrete_histories": f"all sequences of <= 3 calls from a pool of {len(HISTORY_POOL)} inputs x {len(PROBES)} probes"}
    run.outside = ["instance attributes that no warm-up history creates", "stale lists / strings longer than the bound",
                   "hash seeds other than the swept ones (finite sweep)", "threads sharing one instance"]
    run.assumptions = ["one step from an arbitrary stale pre-state covers histories of any length and any interleaving with other instances, "
                       "provided instances share no mutable class-level object - checked by the class-table snapshot before/after the "
                       "concrete sweep", "the reference outcome of every probe is that of a fresh pair in a fresh interpreter that parses nothing else "
                       "(C10 checks that it is a node or a library exception)"]
    global STALE_LEN
    STALE_LEN = 2 if run.tier == "quick" else 5
    run.bounds["stale_values"] = run.bounds["stale_values"].replace("<= 2", f"<= {STALE_LEN}")
    before = class_state()
    seeds = _v.SubRun(run, seed_sweep)
    items = _items()
    known_diffs: List[dict] = []

    def what(it: Item, args: tuple, outcome_: str) -> str:
        return f"{it.describe}: stale values {args!r} -> {outcome_}"

    # custom handling: a counterexample counts only if a concrete history reproduces a difference
    sub = _Quiet(run.pid, run.level, run.tier, run.seed)
    _v.reachability(sub, HEADER, items)
    run_items(sub, HEADER, items, per_condition_timeout=90 if run.tier == "quick" else 400, progress=progress)
    diffs = history_differences()
    inter = interleaving_differences()
    for o in sub.obls:
        if o["status"] == "violation":
            if diffs or inter or o["family"] in ("same-instance-sequence", "repeat-within-filter"):
                run.violation(o["name"], o["detail"]["witness"], o["detail"]["what"] + " (a concrete history reproduces a difference, "
                              "see the history-sweep violations)", o["family"], o["solver_s"])
            else:
                run.inconclusive(o["name"], o["family"], {"why": "a stale attribute value changes the outcome, but no history of <= 3 calls "
                                                          "from the pool leaves such a value behind: not a reachable state as far as the sweep "
                                                          "shows", "detail": o["detail"]}, o["solver_s"])
        else:
            run.add(o["name"], o["status"], o["family"], o["detail"], o["solver_s"])
    run.extra.update(sub.extra)
    n_hist = sum(len(HISTORY_POOL) ** n for n in (1, 2, 3))
    if diffs:
        for d in diffs:
            run.violation(f"history:{d['history']}|{d['probe']}", {**d, "how_to_replay": "one ODataLexer()/ODataParser() pair: parse every history "
                                                                  "string (ignoring exceptions), then the probe; compare with a fresh pair"},
                          f"after the calls {d['history']} the same pair parses {d['probe']!r} to {d['used_pair'][:2]} instead of {d['fresh_pair'][:2]}",
                          "history-sweep(concrete)")
    else:
        run.discharged(f"history-sweep: {n_hist} histories x {len(PROBES)} probes, used pair == fresh pair", "history-sweep(concrete)", nontrivial=False)
    pdiffs = process_history_differences()
    if not ISOLATED:
        run.harness_error("process-history", "history-sweep(concrete)", "the isolated reference processes produced no outcome")
    elif pdiffs:
        for d in pdiffs:
            run.violation(f"process-history:{d['probe']}", {**d, "how_to_replay": "in one interpreter parse the history text(s) with one fresh pair, "
                                                            "then the probe with ANOTHER fresh pair; compare with the probe parsed first in a new interpreter"},
                          f"a fresh lexer/parser pair parses {d['probe']!r} to {d['fresh_pair_in_used_process'][:2]} in a process that has parsed "
                          f"{d['history'] or 'the sweep inputs'} before, and to {d['fresh_pair_in_fresh_process'][:2]} in a fresh process: state is shared "
                          "between instances", "history-sweep(concrete)")
    else:
        run.discharged(f"process-history: {len(ISOLATED)} texts, a fresh pair in this (used) process == a fresh pair in a fresh interpreter",
                       "history-sweep(concrete)", nontrivial=False)
    rdiffs = rewriter_differences()
    if rdiffs:
        for d in rdiffs:
            run.violation(f"rewriter:{d['alias_map']}|{d['instances']}", {**d, "how_to_replay": "AliasRewriter(alias_map, lexer, parser).replacements "
                                                                          "vs parsing every key / value with its own fresh pair"},
                          f"AliasRewriter({d['alias_map']!r}) with {d['instances']} builds replacements that differ from the aliases parsed on their own",
                          "history-sweep(concrete)")
    else:
        run.discharged(f"rewriter-sweep: {len(ALIAS_MAPS)} alias maps x (default, fresh, {len(HISTORY_POOL)} used) instances == per-alias fresh parses",
                       "history-sweep(concrete)", nontrivial=False)
    if inter:
        for d in inter:
            run.violation(f"interleaving:{d['interleaving']}", d, f"interleaved / crossed instances change the outcome of {d['text']!r}",
                          "history-sweep(concrete)")
    else:
        run.discharged(f"interleaving: two pairs used alternately and crossed, {len(PROBES) ** 2} probe pairs", "history-sweep(concrete)",
                       nontrivial=False)
    after = class_state()
    if before == after:
        run.discharged("class-level tables (_lrtable, _grammar, _master_re, _token_funcs, ODATA_FUNCTIONS, precedence) unchanged by all runs",
                       "class-tables(concrete)", nontrivial=False)
    else:
        pos = next((i for i, (x, y) in enumerate(zip(before, after)) if x != y), 0)
        run.violation("class-tables", {"before": before[max(0, pos - 100):pos + 100], "after": after[max(0, pos - 100):pos + 100]},
                      "parsing mutates a class-level table shared by all instances", "class-tables(concrete)")
    del known_diffs
    seeds.join()
    from .. import rexcirc as rx
    rx.attach_results(run)
    return run.finish()
