"""C13 - AST -> OData text -> AST is the identity.

Engine B over the real `odata_query.roundtrip.AstToODataVisitor` + real lexer/parser.
  structure   per tree skeleton (operator nodes symbolic, as in C05) and per explicit shape family:
              parse(render(t)) == t  and  render(parse(render(t))) == render(t)
  leaf lemma  for every string content s (symbolic, <= 3 arbitrary code points): the rendered literal is a member
              of the STRING token language and the real STRING token action maps it back to s; same for
              geography bodies and for identifiers with namespaces (rendering / splitting on dots).
              That every member of the token language is lexed as exactly one token of that kind is the
              Engine A obligation of C06; the two compose to the round-trip of arbitrary string contents
              (symbolic text cannot be pushed through the real lexer under CrossHair).
"""
from __future__ import annotations

import itertools
import os
from typing import Any, List

from odata_query import ast
from odata_query.grammar import ODataLexer, ODataParser
from odata_query.roundtrip import AstToODataVisitor
from sly.lex import Token

from .. import gen
from ..common import Run
from ..harness import Item, run_items
from . import c05

PID = "C13"
SHAPES: List[dict] = []
_LEX = ODataLexer()
_VIS = AstToODataVisitor()


def _parse(text: str) -> Any:
    return ODataParser().parse(_LEX.tokenize(text))


def check(i: int, args: tuple) -> bool:
    t = gen.build(SHAPES[i]["expr"], args)
    d = gen.decode(t)
    text = _VIS.visit(t)
    if not isinstance(text, str):
        return False
    back = _parse(text)
    if gen.decode(back) != d or not (back == t):
        return False
    return _VIS.visit(back) == text and gen.decode(t) == d


def check_reuse(i: int, args: tuple, args2: tuple) -> bool:
    """one visitor instance renders two trees of the same shape one after the other (the first one is dropped in
    between, so its nodes' addresses can be re-used): each rendering equals the one of a fresh visitor - no memo keyed by
    object identity, no state between calls."""
    vis = AstToODataVisitor()
    t1 = gen.build(SHAPES[i]["expr"], args)
    s1 = vis.visit(t1)
    ok1 = s1 == AstToODataVisitor().visit(t1)
    del t1
    t2 = gen.build(SHAPES[i]["expr"], args2)
    s2 = vis.visit(t2)
    return ok1 and s2 == AstToODataVisitor().visit(t2) and gen.decode(_parse(s2)) == gen.decode(t2)


REUSE_TEXTS = ["a in (1, 2)", "a in (3, 4)", "b in ('x', 'y')", "b in ('p', 'q')", "concat((1, 2), (3, 4)) eq (1, 2, 3, 4)",
               "concat((5, 6), (7, 8)) eq (5, 6, 7, 8)", "a in (1,)", "a in (2,)", "f eq 'it''s' and g in (1, 2)",
               "f eq 'o''k' and g in (8, 9)", "x/any(i: i/k in (1, 2))", "x/any(i: i/k in (6, 7))"]


def check_reuse_texts(a: int, b: int, c: int) -> bool:
    """one visitor instance renders three parsed filters in a row (earlier trees are dropped, so object addresses are
    re-used): every rendering equals the one of a fresh visitor and parses back to the same tree."""
    vis = AstToODataVisitor()
    for k in (a, b, c):
        t = _parse(gen.pick(REUSE_TEXTS, k))
        s = vis.visit(t)
        if s != AstToODataVisitor().visit(t) or gen.decode(_parse(s)) != gen.decode(t):
            return False
        del t
    return True


# ---------------------------------------------------------------- leaf lemmas
def in_string_lang(r: str) -> bool:
    """r in '([^']|'')*' - independent scanner."""
    if len(r) < 2 or r[0] != "'" or r[-1] != "'":
        return False
    body = r[1:-1]
    i = 0
    n = len(body)
    while i < n:
        if body[i] == "'":
            if i + 1 < n and body[i + 1] == "'":
                i += 2
                continue
            return False
        i += 1
    return True


def _tok(kind: str, value: str) -> Token:
    t = Token()
    t.type, t.value, t.lineno, t.index = kind, value, 1, 0
    return t


def ref_unescape(r: str) -> str:
    """independent decoding of a member of the STRING language (no negative slices: CrossHair 0.0.110
    mis-models negative-index slices of lazily concatenated strings)."""
    out = []
    i = 1
    n = len(r) - 1
    while i < n:
        out.append(r[i])
        i += 2 if r[i] == "'" else 1
    return "".join(out)


def check_string_render(s: str) -> bool:
    """render(String(s)) is a member of the STRING language and decodes (reference decoder) to s."""
    r = _VIS.visit(ast.String(s))
    return in_string_lang(r) and ref_unescape(r) == s


def check_string_action(r: str) -> bool:
    """for every member r of the STRING language the real token action yields String(decode(r))."""
    back = ODataLexer.STRING(_LEX, _tok("STRING", r))
    return type(back.value) is ast.String and back.value.val == ref_unescape(r)


def check_geography_render(g: str) -> bool:
    r = _VIS.visit(ast.Geography(g))
    return isinstance(r, str) and len(r) == len(g) + 11 and r[:10] == "geography'" and r[10:10 + len(g)] == g \
        and r[10 + len(g)] == "'"


def check_geography_action(q: str) -> bool:
    """q is a member of the quoted-string language; the GEOGRAPHY action keeps the raw body."""
    back = ODataLexer.GEOGRAPHY(_LEX, _tok("GEOGRAPHY", "geography" + "".join([c for c in q])))
    want = "".join([q[i] for i in range(1, len(q) - 1)])
    return type(back.value) is ast.Geography and back.value.val == want


def check_identifier(name: str, ns1: str, ns2: str, depth: int) -> bool:
    ns = (ns1, ns2)[:depth]
    node = ast.Identifier(name, ns)
    r = _VIS.visit(node)
    back = ODataLexer.ODATA_IDENTIFIER(_LEX, _tok("ODATA_IDENTIFIER", r))
    return back.value == node and r == ".".join(ns + (name,))


# ---------------------------------------------------------------- shapes
LIT_LEAVES = [(k, gen.LIT_SAMPLE[k]) for k in gen.LITERAL_KINDS if k not in ("Null",)] + [
    ("Null",), ("Str", "it's"), ("Str", ""), ("Str", "a''b"), ("Str", "%_\\ é"), ("Int", "-5"), ("Int", "+5"),
    ("Float", "-1.5e-3"), ("Bool", "TRUE"), ("Duration", "-P1Y2M3DT4H5M6.5S"), ("DateTime", "2020-01-01T10:00"),
    ("DateTime", "2020-01-01T10:00:00.123+02:00"), ("Geo", "POINT(1 2)"),
    # spellings that denote the same instant / value as another spelling must still come back as written
    ("DateTime", "2020-01-01T10:00:00+00:00"), ("DateTime", "2020-01-01T10:00:00-00:00"), ("DateTime", "2020-01-01T10:00:00.000Z"),
    ("DateTime", "2020-01-01T00:00Z"), ("Duration", "P0D"), ("Duration", "PT0S"),
    ("Duration", "+P1D"), ("Duration", "P12M"), ("Duration", "PT60M"), ("Float", "1.0"), ("Float", "1E3"), ("Float", "2e0"), ("Int", "007"),
    ("Int", "-0"), ("Time", "00:00:00.000"), ("Bool", "False"), ("GUID", "AAAAAAAA-bbbb-CCCC-dddd-EEEEEEEEEEEE"),
]


def explicit_shapes() -> List[Any]:
    I = lambda n, ns=(): ("Id", n, ns)  # noqa: E731
    one = ("Int", "1")
    lam = ("Lambda", I("x"), ("Compare", "Eq", gen.path_shape(1, "x", ["k"]), one))
    out: List[Any] = []
    out += LIT_LEAVES
    out += [I("a"), I("f", ("ns",)), I("g", ("n1", "n2")), gen.path_shape(1, "a", ["b"]), gen.path_shape(3, "a", ["b", "c", "d"]),
            ("List", [one]), ("List", [("List", [one])]), ("List", [("List", [one, ("Str", "x")]), I("a")]),
            ("List", [("Str", "a,b"), ("Null",)]),
            ("Compare", "In", I("a"), ("List", [one])), ("Compare", "In", I("a"), ("List", [("Str", "x"), ("Str", "y"), ("Str", "z")])),
            ("Compare", "In", ("List", [one]), ("List", [("List", [one]), ("List", [one, one])])),
            ("Call", I("now"), []), ("Call", I("tolower"), [I("a")]), ("Call", I("substring"), [I("a"), one, ("Int", "2")]),
            ("Call", I("concat"), [("List", [one]), ("List", [one, one])]),
            ("Call", I("distance", ("geo",)), [I("p"), ("Geo", "POINT(1 2)")]),
            ("Call", I("fn", ("ns",)), [("List", [one, I("a")])]), ("Call", I("fn", ("ns",)), [("List", [I("a")])]),
            ("Call", I("fn", ("ns",)), [("List", [("List", [one])])]), ("Call", I("fn", ("ns",)), [("List", [one]), ("List", [one, one])]),
            ("Call", I("fn", ("ns",)), [("NamedParam", I("p"), one)]),
            ("Call", I("fn", ("ns",)), [("NamedParam", I("p"), one), ("NamedParam", I("q"), ("Str", "it's"))]),
            ("Call", I("fn", ("ns",)), [("NamedParam", I("p"), one), ("NamedParam", I("q"), I("a")), ("NamedParam", I("r"), ("BinOp", "Add", I("a"), one))]),
            ("Call", I("fn", ("ns",)), [one, ("Str", "s"), I("a"), ("Null",)]),
            ("CLambda", I("items"), "Any", None), ("CLambda", gen.path_shape(2, "a", ["b", "c"]), "Any", None),
            ("CLambda", I("items"), "Any", lam), ("CLambda", gen.path_shape(1, "a", ["items"]), "All", lam),
            ("CLambda", I("items"), "All", ("Lambda", I("x"), ("CLambda", gen.path_shape(1, "x", ["subs"]), "Any",
                                                              ("Lambda", I("y"), ("Compare", "Gt", gen.path_shape(1, "y", ["k"]), gen.path_shape(1, "x", ["k"])))))),
            ("UnaryOp", "Not", ("CLambda", I("items"), "Any", lam)),
            ("BoolOp", "And", ("CLambda", I("items"), "Any", lam), ("Compare", "Eq", I("a"), ("Str", "it's"))),
            ("UnaryOp", "USub", one), ("UnaryOp", "USub", ("Int", "-1")), ("UnaryOp", "USub", ("UnaryOp", "USub", I("a"))),
            ("UnaryOp", "Not", ("UnaryOp", "Not", I("a"))), ("UnaryOp", "Not", ("UnaryOp", "USub", I("a"))),
            ("UnaryOp", "USub", ("BinOp", "Add", I("a"), one)), ("BinOp", "Mult", ("UnaryOp", "USub", I("a")), one),
            ("Compare", "Eq", ("Call", I("tolower"), [gen.path_shape(1, "a", ["b"])]), ("Str", "x")),
            ]
    return out


def prepare(tier: str, seed: int) -> None:
    SHAPES[:] = []
    for e in explicit_shapes():
        sh, hs = gen.renumber(e)
        SHAPES.append({"expr": sh, "holes": hs, "family": "explicit"})
    maxk = 2 if tier == "quick" else 3
    n = 0
    leaves = c05.LEAVES + [("Float", "1.5"), ("Date", "2020-02-29"), ("Duration", "P1D"), ("List", [("Int", "1")])]
    for k in range(1, maxk + 1):
        for sk in c05.skeletons(k):
            nb = repr(sk).count("'B'")
            tops = list(gen.ALL_BIN) if (sk[0] == "B" and nb >= 2) else [None]
            for top in tops:
                n += 1
                if k == 3 and (n + seed) % 2:
                    continue        # thorough: every second 3-operator condition (C05 runs all of them through the parser)
                r = (n + seed) % len(leaves)
                li = itertools.cycle(leaves[r:] + leaves[:r])
                sh, hs = gen.renumber(c05.to_shape(sk, li, fixed_top=top))
                SHAPES.append({"expr": sh, "holes": hs, "family": f"skeleton k={k}", "skeleton": repr(sk), "top": top})


    # unary operators over every small skeleton with a literal as the leftmost leaf: a sign / keyword that is glued to a
    # following literal, or hoisted into it, changes the tree
    firsts = [("Int", "5"), ("Float", "1.5"), ("Date", "2019-01-01"), ("Time", "10:30:00"), ("DateTime", "2020-01-01T10:00:00Z"),
              ("Duration", "P1D"), ("GUID", gen.LIT_SAMPLE["GUID"]), ("Int", "-5"), ("Str", "s"), ("Bool", "true"), ("Null",)]
    for k in (1, 2):
        for sk in c05.skeletons(k):
            if "'U'" not in repr(sk):
                continue
            for first in firsts:
                li = itertools.chain([first], itertools.cycle([("Id", "a", ()), ("Int", "2")]))
                sh, hs = gen.renumber(c05.to_shape(sk, li))
                SHAPES.append({"expr": sh, "holes": hs, "family": "unary x literal-first", "skeleton": repr(sk) + f" first={first[-1]}", "top": None})


def main() -> int:
    run = Run(PID, "model_checking")
    run.encode("odata_query.roundtrip.AstToODataVisitor (all visit_* and _visit_and_paren_if_precedence_lower)",
               "odata_query.grammar.ODataLexer / ODataParser (real, on the rendered text)",
               "ODataLexer.STRING / GEOGRAPHY / ODATA_IDENTIFIER token actions (leaf lemmas)")
    prepare(run.tier, run.seed)
    quick = run.tier == "quick"
    run.bounds = {"skeletons": "every binary/unary/in skeleton with <= 2 operator nodes; thorough: also every second 3-operator condition "
                               "(seeded); operators symbolic",
                  "explicit shapes": "all literal kinds incl. boundary spellings, singleton / nested lists, namespaces, paths to depth 3, "
                                     "calls with 0..4 arguments, 1..3 named parameters, lambdas incl. nested and without body, unary chains",
                  "unary x literal-first": "every skeleton with <= 2 operator nodes that contains a unary operator, leftmost leaf over "
                                           "11 literal spellings (all kinds that start with a digit or a sign), operators symbolic",
                  "string contents": "symbolic str, len <= 3, any code points (leaf lemma)", "conditions": len(SHAPES) + 3}
    run.outside = ["trees with more operator nodes", "string contents longer than 3 characters",
                   "ASTs outside the parser's image (e.g. Attribute whose owner is a call)"]
    run.assumptions = ["composition of the string leaf lemma with C06's lexer obligation (every member of the STRING language is one "
                       "STRING token) gives the round trip for arbitrary contents",
                       "operator choices are symbolic, the rendered text is concrete on each path"]
    items = []
    for i, sh in enumerate(SHAPES):
        params, pre, names = gen.signature(sh["holes"])
        argt = f"({', '.join(names)},)" if names else "()"
        items.append(Item(f"rt{i}", params, pre, f"check({i}, {argt})",
                          describe={k: sh[k] for k in ("skeleton", "top") if k in sh} or {"shape": sh["expr"]}, family=sh["family"]))
    for i, sh in enumerate(SHAPES):
        if not sh["holes"] or len(sh["holes"]) > 2 or (quick and i % 3) or sh["family"] == "unary x literal-first":
            continue
        dom = 1
        for h in sh["holes"]:
            dom *= len(h[2]) if h[0] == "#" else 1
        if dom > 15 or (not quick and sh["family"] == "skeleton k=3"):
            continue        # the two instantiations square the case split (a parse under the tracer costs ~0.3 s): operator
            #                 domains up to 15 choices, i.e. at most 225 paths per condition; the 3-operator skeletons take part in the
            #                 round-trip obligation only
        params, pre, names = gen.signature(sh["holes"])
        p2, pre2, n2 = gen.signature([(h[0], h[1] + len(sh["holes"])) + tuple(h[2:]) for h in sh["holes"]])
        items.append(Item(f"reuse{i}", params + ", " + p2, f"({pre}) and ({pre2})",
                          f"check_reuse({i}, ({', '.join(names)},), ({', '.join(n2)},))",
                          describe={"shape": sh["expr"]}, family="visitor-instance-reuse"))
    nrt = len(REUSE_TEXTS)
    for a0 in range(0, nrt, 2):
        items.append(Item(f"reuse_texts_{a0}", "a: int, b: int", f"{a0} <= a < {a0 + 2} and 0 <= b < {nrt}",
                          f"check_reuse_texts(a, b, (a + 2 * b + 1) % {nrt})", describe="visitor instance reused over three parsed filters",
                          family="visitor-instance-reuse"))
    items.append(Item("leaf_string_render", "s: str", "len(s) <= 3", "check_string_render(s)",
                      describe="render(String(s)) in STRING language and decodes to s", family="leaf-lemma"))
    items.append(Item("leaf_string_action", "r: str", "len(r) <= 6 and in_string_lang(r)", "check_string_action(r)",
                      describe="STRING token action == reference decoder on every member of the language", family="leaf-lemma"))
    items.append(Item("leaf_geography_render", "g: str", "len(g) <= 3", "check_geography_render(g)",
                      describe="render(Geography(g)) == geography'<g>'", family="leaf-lemma"))
    items.append(Item("leaf_geography_action", "q: str", "len(q) <= 5 and in_string_lang(q)", "check_geography_action(q)",
                      describe="GEOGRAPHY token action keeps the raw body", family="leaf-lemma"))
    items.append(Item("leaf_identifier", "name: str, ns1: str, ns2: str, depth: int",
                      "0 < len(name) <= 2 and 0 < len(ns1) <= 2 and 0 < len(ns2) <= 2 and 0 <= depth <= 2 and "
                      "chr(46) not in name and chr(46) not in ns1 and chr(46) not in ns2",
                      "check_identifier(name, ns1, ns2, depth)", describe="identifier/namespace leaf lemma", family="leaf-lemma"))
    for sh in SHAPES[:3]:
        run.sample(sh["expr"])
    header = ("from verif.props.c13 import check, check_reuse, check_reuse_texts, check_string_render, check_string_action, check_geography_render, "
              "check_geography_action, check_identifier, in_string_lang\n")
    run_items(run, header, items, per_condition_timeout=120 if quick else 600,
              progress=bool(os.environ.get("VERIF_PROGRESS")))
    return run.finish()
