"""C16 - visitor / transformer base classes traverse completely and never mutate.

Engine B (CrossHair + z3 over the real odata_query.visitor / ast code), one condition per tree
shape and assertion family; leaf strings, names, namespace segments and operator choices symbolic.
"""
from __future__ import annotations

import os
from typing import Any, List

from odata_query import ast, visitor

from .. import gen
from ..common import Run
from ..harness import Item, run_items

PID = "C16"
SHAPES: List[dict] = []

# ---------------------------------------------------------------- independent knowledge of the AST
# child fields that hold nodes, in declaration order (written from the documented AST, not read
# from dataclasses.fields)
CHILDREN = {
    "Attribute": ("owner",), "List": ("val",), "BinOp": ("op", "left", "right"),
    "Compare": ("comparator", "left", "right"), "BoolOp": ("op", "left", "right"),
    "UnaryOp": ("op", "operand"), "NamedParam": ("name", "param"), "Call": ("func", "args"),
    "Lambda": ("identifier", "expression"), "CollectionLambda": ("owner", "operator", "lambda_"),
}
ALL_KINDS = ["Identifier", "Attribute", "Null", "Integer", "Float", "Boolean", "String", "Geography", "Date", "Time",
             "DateTime", "Duration", "GUID", "List", "Add", "Sub", "Mult", "Div", "Mod", "BinOp", "Eq", "NotEq",
             "Lt", "LtE", "Gt", "GtE", "In", "Compare", "And", "Or", "BoolOp", "Not", "USub", "UnaryOp",
             "NamedParam", "Call", "Any", "All", "Lambda", "CollectionLambda"]
BASE_NAMES = ["_Node", "_Literal", "_BinOpToken", "_Comparator", "_BoolOpToken", "_UnaryOpToken", "_CollectionOperator"]


def ref_preorder(node: Any, out: list) -> list:
    out.append(node)
    for f in CHILDREN.get(type(node).__name__, ()):
        v = getattr(node, f)
        if isinstance(v, list):
            for x in v:
                if isinstance(x, ast._Node):
                    ref_preorder(x, out)
        elif isinstance(v, ast._Node):
            ref_preorder(v, out)
    return out


def _mk_recorder():
    ns = {}

    def mk(kind):
        def h(self, node):
            self.log.append((kind, node))
            return self.generic_visit(node)
        return h

    for k in ALL_KINDS + BASE_NAMES:
        ns["visit_" + k] = mk(k)
    return type("Recorder", (visitor.NodeVisitor,), ns)


Recorder = _mk_recorder()


class CountOne(visitor.NodeVisitor):
    """only one handler; everything else goes through generic_visit"""

    def __init__(self, kind):
        self.kind = kind
        self.hits = []
        setattr(self, "visit_" + kind, self._h)

    def _h(self, node):
        self.hits.append(node)
        return self.generic_visit(node)


MARK = {
    "Identifier": ast.Identifier("Z"), "Attribute": ast.Identifier("Z"), "String": ast.String("Z"),
    "Integer": ast.Integer("0"), "List": ast.List([]), "BinOp": ast.Integer("0"), "Compare": ast.Boolean("true"),
    "Call": ast.Null(), "Lambda": ast.Lambda(ast.Identifier("Z"), ast.Null()),
    "CollectionLambda": ast.Boolean("true"), "Add": ast.Sub(), "Not": ast.USub(), "Null": ast.Integer("0"),
    "UnaryOp": ast.Null(), "NamedParam": ast.NamedParam(ast.Identifier("Z"), ast.Null()), "BoolOp": ast.Null(),
}
OVERRIDE_KINDS = sorted(MARK)


def _mk_override(kind):
    def h(self, node):
        return MARK[kind]
    return type("Ov" + kind, (visitor.NodeTransformer,), {"visit_" + kind: h})


OVERRIDES = {k: _mk_override(k) for k in OVERRIDE_KINDS}


# two handlers whose replacement is of the OTHER handled kind: a replacement is final, it is not dispatched again
PAIRS = [("Identifier", ast.String("I"), "String", ast.Integer("5")),
         ("Attribute", ast.Identifier("A"), "Identifier", ast.String("x")),
         ("Integer", ast.Null(), "Null", ast.Boolean("true")),
         ("Compare", ast.Boolean("true"), "Boolean", ast.Null()),
         ("String", ast.List([ast.String("q")]), "List", ast.Integer("9"))]


def _mk_pair(k1, m1, k2, m2):
    return type("Ov2" + k1 + k2, (visitor.NodeTransformer,), {"visit_" + k1: (lambda self, node: m1), "visit_" + k2: (lambda self, node: m2)})


PAIR_CLS = [_mk_pair(*p) for p in PAIRS]


def ref_replace2(d: Any, k1: str, m1: Any, k2: str, m2: Any) -> Any:
    if isinstance(d, tuple):
        if d and d[0] == k1:
            return m1
        if d and d[0] == k2:
            return m2
        return tuple(ref_replace2(x, k1, m1, k2, m2) if isinstance(x, (tuple, list)) else x for x in d)
    if isinstance(d, list):
        return [ref_replace2(x, k1, m1, k2, m2) if isinstance(x, (tuple, list)) else x for x in d]
    return d


def check_override2(i: int, k: int, args: tuple) -> bool:
    k1, m1, k2, m2 = gen.pick(PAIRS, k)
    t = gen.build(SHAPES[i]["expr"], args)
    before = gen.decode(t)
    got = gen.pick(PAIR_CLS, k)().visit(t)
    return gen.decode(got) == ref_replace2(before, k1, gen.decode(m1), k2, gen.decode(m2)) and gen.decode(t) == before


def ref_replace(d: Any, kind: str, mark: Any) -> Any:
    """decoded-tuple level: replace every outermost node of `kind` by the marker."""
    if isinstance(d, tuple):
        if d and d[0] == kind:
            return mark
        return tuple(ref_replace(x, kind, mark) if isinstance(x, (tuple, list)) else x for x in d)
    if isinstance(d, list):
        return [ref_replace(x, kind, mark) if isinstance(x, (tuple, list)) else x for x in d]
    return d


def _count_kind(d: Any, kind: str) -> int:
    n = 0
    if isinstance(d, (tuple, list)):
        if isinstance(d, tuple) and d and d[0] == kind:
            n += 1
        for x in d:
            if isinstance(x, (tuple, list)):
                n += _count_kind(x, kind)
    return n


# decoded tuples do not list operator tokens as sub-tuples; count them separately
_TOKEN_PARENT = {"BinOp": 1, "BoolOp": 1, "Compare": 1, "UnaryOp": 1}


def _count_tokens(d: Any, kind: str) -> int:
    n = 0
    if isinstance(d, (tuple, list)):
        if isinstance(d, tuple) and d and d[0] in _TOKEN_PARENT and d[1] == kind:
            n += 1
        if isinstance(d, tuple) and d and d[0] == "CollectionLambda" and d[2] == kind:
            n += 1
        for x in d:
            if isinstance(x, (tuple, list)):
                n += _count_tokens(x, kind)
    return n


TOKEN_KINDS = {"Add", "Sub", "Mult", "Div", "Mod", "Eq", "NotEq", "Lt", "LtE", "Gt", "GtE", "In", "And", "Or", "Not",
               "USub", "Any", "All"}


# ---------------------------------------------------------------- harness bodies
def check_core(i: int, args: tuple) -> bool:
    """traversal order + dispatch, identity transform, no mutation."""
    t = gen.build(SHAPES[i]["expr"], args)
    before = gen.decode(t)
    rec = Recorder()
    rec.log = []
    rec.visit(t)
    want = ref_preorder(t, [])
    if len(rec.log) != len(want):
        return False
    for (kind, node), w in zip(rec.log, want):
        if node is not w or kind != type(w).__name__:
            return False
    if gen.decode(t) != before:
        return False
    # plain visitor without handlers: returns None, raises nothing, does not mutate
    if visitor.NodeVisitor().visit(t) is not None:
        return False
    r = visitor.NodeTransformer().visit(t)
    if gen.decode(r) != before or not (r == t) or type(r) is not type(t):
        return False
    return gen.decode(t) == before


def check_override(i: int, k: int, args: tuple) -> bool:
    """a transformer with one overridden handler changes exactly the nodes of that kind;
    a visitor with one handler is called exactly once per node of that kind."""
    kind = gen.pick(OVERRIDE_KINDS, k)
    t = gen.build(SHAPES[i]["expr"], args)
    before = gen.decode(t)
    got = OVERRIDES[kind]().visit(t)
    if kind in TOKEN_KINDS:
        # operator tokens are not sub-tuples of the decoded form: compare via a fresh reference build
        want = _ref_replace_token(before, kind, type(MARK[kind]).__name__)
    else:
        want = ref_replace(before, kind, gen.decode(MARK[kind]))
    if gen.decode(got) != want or gen.decode(t) != before:
        return False
    c = CountOne(kind)
    c.visit(t)
    n = _count_tokens(before, kind) if kind in TOKEN_KINDS else _count_kind(before, kind)
    return len(c.hits) == n and gen.decode(t) == before


class Late(visitor.NodeVisitor):
    """handlers are attached to / removed from the INSTANCE between visits"""

    def __init__(self):
        self.hits = []

    def _h(self, node):
        self.hits.append(node)
        return self.generic_visit(node)


class LateT(visitor.NodeTransformer):
    pass


def check_late(i: int, k: int, args: tuple) -> bool:
    """dispatch is decided at visit time: a handler attached to a visitor that has already visited a tree is called
    (exactly once per node of its kind), a removed one is not called any more, a shallow copy of a visitor dispatches to
    its own handlers, and a transformer that gets its override late behaves like one that had it from the start."""
    import copy
    kind = gen.pick(OVERRIDE_KINDS, k)
    t = gen.build(SHAPES[i]["expr"], args)
    before = gen.decode(t)
    n = _count_tokens(before, kind) if kind in TOKEN_KINDS else _count_kind(before, kind)
    c = Late()
    c.visit(t)
    if c.hits:
        return False
    setattr(c, "visit_" + kind, c._h)
    c.visit(t)
    if len(c.hits) != n:
        return False
    c2 = copy.copy(c)
    c2.hits = []
    setattr(c2, "visit_" + kind, c2._h)
    c2.visit(t)
    if len(c2.hits) != n or len(c.hits) != n:
        return False
    delattr(c, "visit_" + kind)
    c.visit(t)
    if len(c.hits) != n:
        return False
    tr = LateT()
    r0 = tr.visit(t)
    if gen.decode(r0) != before:
        return False
    setattr(tr, "visit_" + kind, lambda node: MARK[kind])
    got = tr.visit(t)
    if kind in TOKEN_KINDS:
        want = _ref_replace_token(before, kind, type(MARK[kind]).__name__)
    else:
        want = ref_replace(before, kind, gen.decode(MARK[kind]))
    return gen.decode(got) == want and gen.decode(t) == before


def _ref_replace_token(d: Any, kind: str, new: str) -> Any:
    if isinstance(d, tuple):
        if d and d[0] in _TOKEN_PARENT and d[1] == kind:
            d = (d[0], new) + d[2:]
        return tuple(_ref_replace_token(x, kind, new) if isinstance(x, (tuple, list)) else x for x in d)
    if isinstance(d, list):
        return [_ref_replace_token(x, kind, new) if isinstance(x, (tuple, list)) else x for x in d]
    return d


def check_eq(i: int, args: tuple) -> bool:
    """dataclass equality coincides with structural identity (two instantiations of one shape,
    and the shape against its neighbour shape)."""
    sh = SHAPES[i]
    n = sh["n"]
    a, b = args[:n], args[n:]
    t1 = gen.build(sh["expr"], a)
    t2 = gen.build(sh["expr"], b)
    if (t1 == t2) != (gen.decode(t1) == gen.decode(t2)):
        return False
    if (t1 != t2) != (gen.decode(t1) != gen.decode(t2)):
        return False
    other = SHAPES[(i + 1) % len(SHAPES)]
    if [h[0] for h in other["holes"]] == [h[0] for h in sh["holes"]][: other["n"]] and \
            all(h[0] == "$" for h in other["holes"]):
        t3 = gen.build(other["expr"], a)
        if (t1 == t3) != (gen.decode(t1) == gen.decode(t3)):
            return False
    return True


def _shipped():
    from odata_query.rewrite import AliasRewriter, IdentifierStripper
    from odata_query.roundtrip import AstToODataVisitor
    from odata_query.sql import AstToAthenaSqlVisitor, AstToSqliteSqlVisitor, AstToSqlVisitor
    return [
        ("sql", AstToSqlVisitor()), ("sqlite", AstToSqliteSqlVisitor("t0")),
        ("athena", AstToAthenaSqlVisitor()), ("roundtrip", AstToODataVisitor()),
        ("rewriter", AliasRewriter({"a": "b/c", "x/y": "z", "f": "tolower(g)"})),
        ("stripper", IdentifierStripper(ast.Identifier("a"))),
    ]


SHIPPED: list = []
HASHING = ("athena", "rewriter")   # visitors that hash / regex-scan names: names are pool picks there
POOL = ["a", "y", "q q"]
POOL_HOLES = 2   # at most this many names are symbolic picks; further names are the fixed name "b"


def check_shipped(i: int, v: int, args: tuple) -> bool:
    """no shipped (pure-Python) visitor modifies the tree it was given, whether it succeeds or raises."""
    t = gen.build(SHAPES[i]["expr"], args)
    before = gen.decode(t)
    vis = gen.pick(SHIPPED, v)[1]
    try:
        vis.visit(t)
    except Exception:
        pass
    return gen.decode(t) == before


# ---------------------------------------------------------------- long lists
LONG_KINDS = ["String", "Identifier", "List", "Null", "Integer"]
LONG_OV = ["String", "Integer", "Identifier", "List", "Null"]


def _long_leaf(k: int, j: int) -> Any:
    kind = gen.pick(LONG_KINDS, k)
    if kind == "String":
        return ast.String("s%d" % j)
    if kind == "Identifier":
        return ast.Identifier("z%d" % j)
    if kind == "List":
        return ast.List([ast.String("q"), ast.Identifier("w"), ast.List([ast.Integer("7")])])
    if kind == "Null":
        return ast.Null()
    return ast.Integer(str(100 + j))


def check_long(L: int, host: int, p: int, k1: int, k2: int, ov: int) -> bool:
    """a list field (List.val / Call.args) with L items: all Integer literals except the item at the symbolic position p
    (kind k1) and the last item (kind k2); traversal, identity transform, single-kind override and handler counts as in
    check_core / check_override."""
    items = []
    for j in range(L):
        if j == p:
            items.append(_long_leaf(k1, j))
        elif j == L - 1:
            items.append(_long_leaf(k2, j))
        else:
            items.append(ast.Integer(str(j)))
    if host == 0:
        t = ast.Compare(ast.In(), ast.Identifier("x"), ast.List(items))
    else:
        t = ast.Compare(ast.Eq(), ast.Call(ast.Identifier("f", ("ns",)), items), ast.Null())
    before = gen.decode(t)
    rec = Recorder()
    rec.log = []
    rec.visit(t)
    want = ref_preorder(t, [])
    if len(rec.log) != len(want):
        return False
    for (kind, node), w in zip(rec.log, want):
        if node is not w or kind != type(w).__name__:
            return False
    r = visitor.NodeTransformer().visit(t)
    if gen.decode(r) != before or not (r == t):
        return False
    kind = gen.pick(LONG_OV, ov)
    got = OVERRIDES[kind]().visit(t)
    if gen.decode(got) != ref_replace(before, kind, gen.decode(MARK[kind])) or gen.decode(t) != before:
        return False
    c = CountOne(kind)
    c.visit(t)
    return len(c.hits) == _count_kind(before, kind) and gen.decode(t) == before


# ---------------------------------------------------------------- ORM visitors (Django, SQLAlchemy ORM / Core)
ORM_TREES: list = []
ORM_VIS: list = []


def _orm_setup() -> None:
    from ..models import setup as msetup
    from ..models import sa as samodels
    dj = msetup.django_setup()
    from odata_query.django.django_q import AstToDjangoQVisitor
    from odata_query.sqlalchemy.core import AstToSqlAlchemyCoreVisitor
    from odata_query.sqlalchemy.orm import AstToSqlAlchemyOrmVisitor
    ORM_VIS[:] = [("django", lambda: AstToDjangoQVisitor(dj.Item)), ("sa_orm", lambda: AstToSqlAlchemyOrmVisitor(samodels.Item)),
                  ("sa_core", lambda: AstToSqlAlchemyCoreVisitor(samodels.Item.__table__))]
    I, S, N = ast.Identifier, ast.String, ast.Integer
    np_ = ast.NamedParam
    ORM_TREES[:] = [
        ast.Compare(ast.Eq(), ast.Call(I("tolower"), [np_(I("field"), I("name"))]), S("a")),
        ast.Compare(ast.Eq(), ast.Call(I("substring"), [np_(I("fullstr"), I("name")), np_(I("index"), N("1"))]), S("a")),
        ast.Call(I("contains"), [np_(I("field"), I("title")), np_(I("substr"), S("x"))]),
        ast.Call(I("contains"), [I("title"), np_(I("substr"), S("x"))]),
        ast.Compare(ast.Eq(), ast.Call(I("substring"), [I("name"), N("1"), N("2")]), S("a")),
        ast.Compare(ast.In(), I("name"), ast.List([S("a"), S("b")])),
        ast.Compare(ast.Gt(), ast.Call(I("length"), [I("name")]), ast.BinOp(ast.Add(), I("n"), N("1"))),
        ast.BoolOp(ast.And(), ast.Compare(ast.Eq(), I("flag"), ast.Boolean("true")),
                   ast.UnaryOp(ast.Not(), ast.Call(I("startswith"), [I("name"), S("a")]))),
        ast.Compare(ast.Eq(), ast.Call(I("concat"), [I("name"), ast.Call(I("trim"), [I("title")])]), S("ab")),
        ast.Compare(ast.Eq(), ast.Call(I("fn", ("ns",)), [np_(I("p"), S("x")), np_(I("q"), N("2"))]), N("1")),
    ]


def check_orm(v: int, k: int) -> bool:
    """translating a tree with an ORM backend does not modify it (named parameters included) - so translating the
    same parsed tree twice behaves the same way."""
    t = gen.pick(ORM_TREES, k)
    before = gen.decode(t)
    outcomes = []
    for _ in range(2):
        try:
            gen.pick(ORM_VIS, v)[1]().visit(t)
            outcomes.append("ok")
        except Exception as e:  # noqa: BLE001
            outcomes.append(type(e).__name__)
        if gen.decode(t) != before:
            return False
    return outcomes[0] == outcomes[1]


# ---------------------------------------------------------------- shapes
def _shapes(tier: str, seed: int) -> List[dict]:
    NEW = gen.NEW
    idns = ("Id", NEW, (NEW,))
    lol = ("List", [("List", [("Int", "1"), ("Str", NEW)]), ("Id", NEW, ())])
    all_leaves = [("Str", "a''''b"), ("Id", NEW, ()), idns, ("Id", NEW, ("n1", NEW)), gen.path_shape(1), gen.path_shape(2), ("Null",),
                  ("Str", NEW), lol, ("List", [])] + [(k, gen.LIT_SAMPLE[k]) for k in gen.LITERAL_KINDS
                                                      if k not in ("Str", "Null")]
    small = [idns, gen.path_shape(2), ("Str", NEW), ("Null",), lol, ("Str", "''")]
    exprs: List[Any] = list(all_leaves)
    unary_forms = list(gen.expr_shapes(1, all_leaves, named=True))
    # keep unary/call/list/lambda forms over all leaves, binary forms only over the small leaf set
    exprs += [e for e in unary_forms if e[0] not in ("BinOp", "Compare", "BoolOp") or e[1] == "In"]
    exprs += [e for e in gen.expr_shapes(1, small, named=True) if e[0] in ("BinOp", "Compare", "BoolOp")]
    deep = list(gen.expr_shapes(2, [idns, ("Str", NEW), gen.path_shape(1)], named=True, sym_ops=False))
    exprs += gen.sample(deep, 40 if tier == "quick" else 120, seed)
    # multi-argument calls / named params / lambda with None body explicitly
    exprs += [("Compare", "In", ("Id", NEW, ()), ("List", [("Int", "1"), ("Null",), ("Str", NEW), ("Null",)])),
              ("Compare", "In", ("Null",), ("List", [("Null",)])),
              ("Compare", "Eq", ("Call", ("Id", "concat", ()), [("List", [("Null",), ("Int", "1")]), ("List", [])]), ("List", [("Null",)])),
              ("Call", ("Id", "f", ("ns",)), [("NamedParam", ("Id", NEW, ()), ("Str", NEW)),
                                              ("NamedParam", ("Id", NEW, ()), ("Int", "2"))]),
              ("Call", ("Id", "substring", ()), [("Id", NEW, ()), ("Int", "1"), ("Int", "2")]),
              ("Call", ("Id", "now", ()), []),
              ("CLambda", gen.path_shape(2), "Any", None),
              ("UnaryOp", "Not", ("CLambda", gen.path_shape(0), "All",
                                  ("Lambda", ("Id", NEW, ()), ("CLambda", gen.path_shape(1), "Any", None))))]
    if tier == "quick":
        fixed = exprs[-8:]          # the explicit forms above always run
        exprs = exprs[:24] + gen.sample(exprs[24:-8], 56, seed) + fixed
    out, seen = [], set()
    for e in exprs:
        sh, hs = gen.renumber(e)
        key = repr(sh)
        if key in seen:
            continue
        seen.add(key)
        out.append({"expr": sh, "holes": hs, "n": len(hs)})
    return out


def prepare(tier: str, seed: int) -> None:
    SHAPES[:] = _shapes(tier, seed)
    SHIPPED[:] = _shipped()
    _orm_setup()


def main() -> int:
    run = Run(PID, "model_checking")
    run.encode("odata_query.visitor.NodeVisitor.visit", "odata_query.visitor.NodeVisitor.generic_visit",
               "odata_query.visitor.NodeTransformer.generic_visit", "odata_query.visitor.iter_dataclass_fields",
               "odata_query.ast dataclass __eq__", "every shipped pure-Python visitor's visit_* (mutation check)")
    prepare(run.tier, run.seed)
    run.bounds = {"leaf strings / names / namespace segments": "symbolic str, len == 1 (one arbitrary code point)",
                  "operators": "symbolic choice per node at nesting depth 1", "shapes": len(SHAPES),
                  "nesting": "depth <= 1 exhaustive over the leaf set (binary forms over a reduced leaf set), "
                             "depth 2 seeded sample", "override kinds": OVERRIDE_KINDS,
                  "shipped visitors": [n for n, _ in SHIPPED]}
    run.bounds["late-bound handlers"] = "a handler attached to / removed from a visitor instance between visits, shallow copies, per shape and override kind"
    run.outside = ["strings longer than 1 code point", "nesting deeper than 2",
                   "ORM visitors are checked on 10 fixed trees (incl. named parameters) with symbolic picks only"]
    run.assumptions = ["tree shape concrete per obligation; leaves and operator choices symbolic",
                       "handlers that do not call generic_visit stop the descent (documented NodeVisitor contract)"]
    items = []
    for i, sh in enumerate(SHAPES):
        params, pre, names = gen.signature(sh["holes"], "len({v}) == 1")
        argt = f"({', '.join(names)},)" if names else "()"
        d = {"expr": sh["expr"]}
        items.append(Item(f"core{i}", params, pre, f"check_core({i}, {argt})", describe=d, family="traverse+identity"))
        kp = (params + ", " if params else "") + "k: int"
        items.append(Item(f"ovr{i}", kp, f"({pre}) and 0 <= k < {len(OVERRIDE_KINDS)}",
                          f"check_override({i}, k, {argt})", describe=d, family="single-kind-override"))
        if i % (3 if run.tier == "quick" else 1) == 0:
            items.append(Item(f"ovr2_{i}", kp, f"({pre}) and 0 <= k < {len(PAIRS)}",
                              f"check_override2({i}, k, {argt})", describe=d, family="two-kind-override"))
        if i % (4 if run.tier == "quick" else 1) == run.seed % (4 if run.tier == "quick" else 1):
            items.append(Item(f"late{i}", kp, f"({pre}) and 0 <= k < {len(OVERRIDE_KINDS)}",
                              f"check_late({i}, k, {argt})", describe=d, family="late-bound-handlers"))
        vp = (params + ", " if params else "") + "v: int"
        sym_v = [j for j, (n, _) in enumerate(SHIPPED) if n not in HASHING]
        items.append(Item(f"ship{i}", vp, f"({pre}) and v in {tuple(sym_v)}",
                          f"check_shipped({i}, v, {argt})", describe=d, family="shipped-visitors-no-mutation"))
        pparams, ppre, pnames = gen.signature(sh["holes"], pool=len(POOL))
        strs = [j for j, h in enumerate(sh["holes"]) if h[0] == "$"][POOL_HOLES:]
        if strs:
            pl, prl = pparams.split(", "), ppre.split(" and ")
            for j in strs:
                pnames[j] = '"b"'
            pparams = ", ".join(x for j, x in enumerate(pl) if j not in strs)
            ppre = " and ".join(x for j, x in enumerate(prl) if j not in strs) or "True"
        pool_v = [j for j, (n, _) in enumerate(SHIPPED) if n in HASHING]
        items.append(Item(f"shipP{i}", (pparams + ", " if pparams else "") + "v: int",
                          f"({ppre}) and v in {tuple(pool_v)}",
                          f"check_shipped({i}, v, ({', '.join(pnames)}{',' if pnames else ''}))", describe=d,
                          family="shipped-visitors-no-mutation(pool names)"))
        if sh["n"]:
            p2, pre2, n2 = gen.signature([(h[0], h[1] + sh["n"]) + tuple(h[2:]) for h in sh["holes"]], "len({v}) == 1")
            items.append(Item(f"eq{i}", params + ", " + p2, f"({pre}) and ({pre2})",
                              f"check_eq({i}, ({', '.join(names + n2)},))", describe=d, family="equality"))
        run.sample(d, cap=5)
    for v, (vn, _) in enumerate(ORM_VIS):
        items.append(Item(f"orm_{vn}", "k: int", f"0 <= k < {len(ORM_TREES)}", f"check_orm({v}, k)",
                          describe={"visitor": vn, "trees": len(ORM_TREES)}, family="orm-visitors-no-mutation", isolate=True))
    longs = [9, 12 + run.seed % 5] if run.tier == "quick" else [8, 9, 17, 33, 65, 129]
    run.bounds["long lists"] = {"lengths": longs, "hosts": ["List.val under In", "Call.args"],
                                "items": "Integer literals except one item of symbolic kind at a symbolic position; the last item's kind varies per obligation",
                                "kinds": LONG_KINDS, "override kinds": LONG_OV}
    for L in longs:
        for host in (0, 1):
            for ov in range(len(LONG_OV)):
                if L <= 10:
                    items.append(Item(f"long{L}_{host}_{ov}", "p: int, k1: int", f"0 <= p < {L} and 0 <= k1 < {len(LONG_KINDS)}",
                                      f"check_long({L}, {host}, p, k1, {(ov + 1 + L) % len(LONG_KINDS)}, {ov})",
                                      describe={"length": L, "host": ["List", "Call.args"][host], "override": LONG_OV[ov]}, family="long-lists"))
                else:   # longer lists: the position stays symbolic, the odd item's kind rotates with the obligation
                    items.append(Item(f"long{L}_{host}_{ov}", "p: int", f"0 <= p < {L}",
                                      f"check_long({L}, {host}, p, {(ov + 2 + host) % len(LONG_KINDS)}, {(ov + 1 + L) % len(LONG_KINDS)}, {ov})",
                                      describe={"length": L, "host": ["List", "Call.args"][host], "override": LONG_OV[ov]}, family="long-lists"))
    header = "from verif.props.c16 import check_core, check_override, check_override2, check_eq, check_shipped, check_orm, check_long, check_late, POOL\n"
    run_items(run, header, items, per_condition_timeout=40 if run.tier == "quick" else 150,
              progress=bool(os.environ.get("VERIF_PROGRESS")))
    return run.finish()
