"""C08 - ORM backends pass every filter value to the database as a bound parameter.

Engine B.
  Django      the real visitor + QuerySet.annotate/filter + Query.sql_with_params() run under CrossHair with the
              literal contents symbolic (string <= 3 code points, int); assertion: the SQL template equals the template
              obtained with baseline values, and the number of parameters is unchanged.
  SQLAlchemy  only the repo's visitor runs under CrossHair (SQLAlchemy's compiler is not executable symbolically);
              assertion on the resulting clause tree: no TextClause, no literal ColumnClause, no literal_execute /
              literal-rendered bind, and the literal values are carried by BindParameter objects.  That a
              BindParameter compiles to a placeholder is SQLAlchemy's contract; it is re-checked concretely by compiling
              baseline and witness instantiations of every position and comparing `.string`.
"""
from __future__ import annotations

import os
from typing import Any, Dict, List, Optional

from odata_query import ast, exceptions

from ..common import Run
from ..gen import pick as gen_pick
from ..harness import Item, run_items

PID = "C08"
I = ast.Identifier
POSITIONS: List[dict] = []
DJ: Dict[str, Any] = {}
SA: Dict[str, Any] = {}
NORM: Dict[str, bool] = {}
KID_SA_ESCAPE = "sa-like-escape-clause-depends-on-content"
KID_SA_BOOL = "sa-boolean-literal-inline"
STR_POOL = ["", "'", "a%", "\\", "';--", "\x00", "x", "zz", "\u2019"]


def _call(name, args):
    return ast.Call(I(name), args)


def build_positions() -> List[dict]:
    P: List[dict] = []
    S = lambda s: ast.String(s)   # noqa: E731
    N = lambda n: ast.Integer(str(n))  # noqa: E731

    def add(desc, kind, mk, like=False, hashed=False):
        P.append({"desc": desc, "kind": kind, "mk": mk, "like": like, "hashed": hashed})

    add("name eq S", "str", lambda v: ast.Compare(ast.Eq(), I("name"), S(v)))
    add("S ne name", "str", lambda v: ast.Compare(ast.NotEq(), S(v), I("name")))
    add("name in (S, 'x')", "str", lambda v: ast.Compare(ast.In(), I("name"), ast.List([S(v), S("x")])), hashed=True)
    add("contains(name, S)", "str", lambda v: _call("contains", [I("name"), S(v)]), like=True)
    add("startswith(name, S)", "str", lambda v: _call("startswith", [I("name"), S(v)]), like=True)
    add("endswith(name, S) eq true", "str", lambda v: ast.Compare(ast.Eq(), _call("endswith", [I("name"), S(v)]), ast.Boolean("true")), like=True)
    add("contains(S, name)", "str", lambda v: _call("contains", [S(v), I("name")]))
    add("contains(tolower(name), S)", "str", lambda v: _call("contains", [_call("tolower", [I("name")]), S(v)]), like=True)
    add("indexof(name, S) eq 1", "str", lambda v: ast.Compare(ast.Eq(), _call("indexof", [I("name"), S(v)]), N(1)))
    add("substring(S, 1) eq title", "str", lambda v: ast.Compare(ast.Eq(), _call("substring", [S(v), N(1)]), I("title")))
    add("length(S) gt n", "str", lambda v: ast.Compare(ast.Gt(), _call("length", [S(v)]), I("n")))
    add("tolower(S) eq name", "str", lambda v: ast.Compare(ast.Eq(), _call("tolower", [S(v)]), I("name")))
    add("trim(S) eq name", "str", lambda v: ast.Compare(ast.Eq(), _call("trim", [S(v)]), I("name")))
    add("concat(name, S) eq title", "str", lambda v: ast.Compare(ast.Eq(), _call("concat", [I("name"), S(v)]), I("title")))
    add("matchesPattern(name, S)", "str", lambda v: _call("matchesPattern", [I("name"), S(v)]))
    add("name eq S or title eq 'it''s'", "str", lambda v: ast.BoolOp(ast.Or(), ast.Compare(ast.Eq(), I("name"), S(v)),
                                                                      ast.Compare(ast.Eq(), I("title"), S("it's"))))
    add("not (name eq S)", "str", lambda v: ast.UnaryOp(ast.Not(), ast.Compare(ast.Eq(), I("name"), S(v))))
    add("n eq N", "int", lambda v: ast.Compare(ast.Eq(), I("n"), N(v)))
    add("N lt n", "int", lambda v: ast.Compare(ast.Lt(), N(v), I("n")))
    add("n in (N, 1)", "int", lambda v: ast.Compare(ast.In(), I("n"), ast.List([N(v), N(1)])), hashed=True)
    add("n add N gt m", "int", lambda v: ast.Compare(ast.Gt(), ast.BinOp(ast.Add(), I("n"), N(v)), I("m")))
    add("n mod N eq m", "int", lambda v: ast.Compare(ast.Eq(), ast.BinOp(ast.Mod(), I("n"), N(v)), I("m")))
    add("substring(name, N) eq title", "int", lambda v: ast.Compare(ast.Eq(), _call("substring", [I("name"), N(v)]), I("title")))
    add("substring(name, 1, N) eq title", "int", lambda v: ast.Compare(ast.Eq(), _call("substring", [I("name"), N(1), N(v)]), I("title")))
    # values that CrossHair realises at their C-level constructors: symbolic small ints select the field values
    add("n eq FLOAT", "pick", lambda v: ast.Compare(ast.Eq(), I("n"), ast.Float(gen_pick(["1.5", "-2.25e3", "0.0"], v % 3))))
    add("name eq DATE", "pick", lambda v: ast.Compare(ast.Eq(), I("name"), ast.Date(gen_pick(["2020-02-29", "1999-12-31", "0999-01-01"], v % 3))))
    add("name eq DATETIME", "pick", lambda v: ast.Compare(ast.Eq(), I("name"), ast.DateTime(gen_pick(["2020-02-29T10:00:00", "1999-12-31T23:59:59.5+02:00", "2001-01-01T00:00"], v % 3))))
    add("name eq TIME", "pick", lambda v: ast.Compare(ast.Eq(), I("name"), ast.Time(gen_pick(["10:00:00", "23:59:59.123", "00:00:01"], v % 3))))
    add("name eq GUID", "pick", lambda v: ast.Compare(ast.Eq(), I("name"), ast.GUID(gen_pick(["6c0e37e3-e856-45ee-bd58-484b11882c67", "00000000-0000-0000-0000-000000000000", "FFFFFFFF-FFFF-FFFF-FFFF-FFFFFFFFFFFF"], v % 3))))
    add("n eq DURATION", "pick", lambda v: ast.Compare(ast.Eq(), I("n"), ast.Duration(gen_pick(["P1D", "-PT2H30M", "P1Y2M3DT4H5M6.5S"], v % 3))))
    add("flag eq BOOL", "pick", lambda v: ast.Compare(ast.Eq(), I("flag"), ast.Boolean(gen_pick(["true", "false", "TRUE"], v % 3))))
    return P


# ------------------------------------------------------------------ Django
def dj_sql(node) -> tuple:
    v = DJ["Visitor"](DJ["Item"])
    q = v.visit(node)
    qs = DJ["Item"].objects.all()
    if v.queryset_annotations:
        qs = qs.annotate(**v.queryset_annotations)
    return qs.filter(q).query.sql_with_params()


BASE_DJ: Dict[int, Any] = {}
BASE_VAL = {"str": "zz", "int": 7, "pick": 0}


def _dj_base(i: int):
    if i not in BASE_DJ:
        try:
            BASE_DJ[i] = dj_sql(POSITIONS[i]["mk"](BASE_VAL[POSITIONS[i]["kind"]]))
        except (exceptions.ODataException, ValueError):   # ValueError: Django refusing tz-aware datetimes with USE_TZ=False
            BASE_DJ[i] = None
    return BASE_DJ[i]


def check_django_pick(i: int, k: int) -> bool:
    """positions where Django hashes the value (In lookup): the value is a symbolic pick from a pool."""
    p = POSITIONS[i]
    v = gen_pick(STR_POOL, k) if p["kind"] == "str" else gen_pick([0, -1, 2, 123456789, 7], k % 5)
    if v in ("x", 1):
        return True          # equal list members are collapsed into one placeholder by Django itself
    return check_django(i, v)


def check_django(i: int, v: Any) -> bool:
    base = _dj_base(i)
    try:
        sql, params = dj_sql(POSITIONS[i]["mk"](v))
    except exceptions.ODataException:
        return base is None
    except ValueError:
        return POSITIONS[i]["kind"] == "pick"      # Django's own refusal of a tz-aware datetime (USE_TZ=False)
    if base is None:
        return False
    return sql == base[0] and len(params) == len(base[1])


# ------------------------------------------------------------------ SQLAlchemy
def sa_clause(which: int, node):
    if which == 0:
        return SA["Orm"](SA["Item"]).visit(node)
    return SA["Core"](SA["Item"].__table__).visit(node)


def clause_profile(clause) -> tuple:
    """(structure signature, [bind values], problems) of a clause tree - independent walk."""
    from sqlalchemy.sql import visitors
    from sqlalchemy.sql.elements import BindParameter, ColumnClause, TextClause
    sig, binds, problems = [], [], []
    for el in visitors.iterate(clause):
        if isinstance(el, TextClause):
            problems.append("TextClause")
        elif isinstance(el, BindParameter):
            if el.literal_execute or getattr(el, "_is_crud", False):
                problems.append("literal_execute bind")
            binds.append(el.value)
            sig.append("bind")
        elif isinstance(el, ColumnClause):
            if el.is_literal:
                problems.append("literal column " + str(el.name))
            sig.append("col:" + str(el.name))
        else:
            name = type(el).__name__
            op = getattr(el, "operator", None)
            sig.append(name + (":" + getattr(op, "__name__", str(op)) if op is not None else ""))
            mod = getattr(el, "modifiers", None)
            if mod and mod.get("escape") is not None:
                sig.append("escape")
    return sig, binds, problems


BASE_SA: Dict[tuple, Any] = {}


def _sa_base(which: int, i: int):
    key = (which, i)
    if key not in BASE_SA:
        try:
            BASE_SA[key] = clause_profile(sa_clause(which, POSITIONS[i]["mk"](BASE_VAL[POSITIONS[i]["kind"]])))
        except exceptions.ODataException:
            BASE_SA[key] = None
    return BASE_SA[key]


def _strip_escape(sig: list) -> list:
    return [x for x in sig if x != "escape"]


def check_sa(which: int, i: int, v: Any) -> bool:
    base = _sa_base(which, i)
    try:
        sig, binds, problems = clause_profile(sa_clause(which, POSITIONS[i]["mk"](v)))
    except exceptions.ODataException:
        return base is None
    if base is None or problems:
        return False
    bs = base[0]
    if NORM.get(KID_SA_ESCAPE):
        sig, bs = _strip_escape(sig), _strip_escape(bs)
    if sig != bs or len(binds) != len(base[1]):
        return False
    p = POSITIONS[i]
    if p["kind"] == "str":
        # the literal travels as a bind value (possibly wildcard-escaped for LIKE), never as SQL text
        return any(isinstance(b, str) and (b == v or (p["like"] and len(b) >= len(v))) for b in binds)
    if p["kind"] == "int":
        return any(b == v for b in binds)
    return True


def sa_compiled(which: int, node) -> tuple:
    from sqlalchemy.dialects import sqlite
    c = sa_clause(which, node).compile(dialect=sqlite.dialect())
    return c.string, list(c.params.values())


def prepare(tier: str, seed: int) -> None:
    from ..models import setup as msetup
    from ..models import sa as samodels
    dj = msetup.django_setup()
    from odata_query.django.django_q import AstToDjangoQVisitor
    from odata_query.sqlalchemy.core import AstToSqlAlchemyCoreVisitor
    from odata_query.sqlalchemy.orm import AstToSqlAlchemyOrmVisitor
    DJ.update(Item=dj.Item, Visitor=AstToDjangoQVisitor)
    SA.update(Item=samodels.Item, Orm=AstToSqlAlchemyOrmVisitor, Core=AstToSqlAlchemyCoreVisitor)
    POSITIONS[:] = build_positions()
    for i in range(len(POSITIONS)):     # warm every cache before symbolic execution starts
        _dj_base(i)
        for w in (0, 1):
            _sa_base(w, i)


WITNESS_VALUES = {"str": ["", "'", "a%", "\\", "';--", "\x00", "e\u0301", "\u212a", "\ufb01", "A\u030a"], "int": [0, -1, 123456789], "pick": [0, 1, 2]}


def main() -> int:
    run = Run(PID, "model_checking")
    run.encode("odata_query.django.django_q.AstToDjangoQVisitor (+ Django QuerySet.filter/annotate, Query.sql_with_params)",
               "odata_query.sqlalchemy.common._CommonVisitors / orm / core visitors (clause construction)")
    prepare(run.tier, run.seed)
    quick = run.tier == "quick"
    for k in run.known:
        if k.get("id") == KID_SA_ESCAPE:
            a = clause_profile(sa_clause(0, POSITIONS[3]["mk"]("a")))[0]
            b = clause_profile(sa_clause(0, POSITIONS[3]["mk"]("a%")))[0]
            if a != b and _strip_escape(a) == _strip_escape(b):
                NORM[KID_SA_ESCAPE] = True
                run.known_finding(k, "contains(name,'a%') adds ESCAPE '/' to the LIKE, contains(name,'a') does not: the SQL "
                                     "differs by that clause only", name="known:" + KID_SA_ESCAPE, family="sqlalchemy")
            else:
                run.notes.append(f"known finding {KID_SA_ESCAPE} no longer reproduces: region not excluded")
    for k in run.known:
        if k.get("id") == KID_SA_BOOL:
            a = sa_compiled(0, POSITIONS[-1]["mk"](0))[0]
            b = sa_compiled(0, POSITIONS[-1]["mk"](1))[0]
            if a != b:
                NORM[KID_SA_BOOL] = True
                run.known_finding(k, f"flag eq true -> {a!r}, flag eq false -> {b!r}: the boolean literal is rendered as an SQL "
                                     f"constant, not as a bound parameter", name="known:" + KID_SA_BOOL, family="sqlalchemy")
            else:
                run.notes.append(f"known finding {KID_SA_BOOL} no longer reproduces: region not excluded")
    run.bounds = {"positions": [p["desc"] for p in POSITIONS], "string content": "symbolic str, len <= 3 (quick: <= 2)",
                  "integers": "symbolic int in [-3, 3] (the harness renders it as the literal text, which realises it)", "dates/GUIDs/durations/floats/booleans": "symbolic pick among 3 spellings each"}
    run.outside = ["more than one symbolic literal per filter", "SQLAlchemy's own compiler (trusted; re-checked concretely per position)"]
    run.assumptions = ["a SQLAlchemy BindParameter compiles to a placeholder (SQLAlchemy's contract; compiled text of baseline and "
                       "witness instantiations compared concretely on every run)",
                       "symbolic text cannot be lexed: values are injected at the AST level (the lexer/parser part is C06/C13)"]
    # concrete re-check of SQLAlchemy's contract + Django on adversarial witness values (not the deciding step)
    bad = 0
    for i, p in enumerate(POSITIONS):
        for w in (0, 1):
            try:
                b0 = sa_compiled(w, p["mk"](BASE_VAL[p["kind"]]))[0]
            except exceptions.ODataException:
                continue
            for val in WITNESS_VALUES[p["kind"]]:
                if NORM.get(KID_SA_BOOL) and p["desc"] == "flag eq BOOL":
                    continue
                try:
                    s1, prm = sa_compiled(w, p["mk"](val))
                except exceptions.ODataException:
                    continue
                same = s1 == b0 or (NORM.get(KID_SA_ESCAPE) and s1.replace(" ESCAPE '/'", "") == b0.replace(" ESCAPE '/'", ""))
                # the value reaches the driver unchanged (code point for code point; LIKE positions may wrap / escape it)
                exact = (not isinstance(val, (str, int))) or p["like"] or p["kind"] == "pick" or any(
                    type(x) is type(val) and x == val for x in prm) or (isinstance(val, str) and val == "" and p["like"])
                if not same or not exact or (isinstance(val, str) and len(val) > 1 and val in s1):
                    bad += 1
                    run.violation(f"sa-compiled:{p['desc']}:{val!r}", {"position": p["desc"], "value": val, "backend": ["sa_orm", "sa_core"][w],
                                                                       "sql": s1, "baseline_sql": b0},
                                  (f"compiled SQL depends on the literal value {val!r}: {s1!r} vs {b0!r}" if not same else
                                   f"the literal {val!r} does not reach the parameter list unchanged: {prm!r}"), family="sqlalchemy-compiled")
    for i, p in enumerate(POSITIONS):
        if p["kind"] != "str" or p["like"]:
            continue
        for val in WITNESS_VALUES["str"]:
            try:
                sql, prm = dj_sql(p["mk"](val))
            except (exceptions.ODataException, ValueError):
                continue
            if not any(isinstance(x, str) and x == val for x in prm) or (len(val) > 1 and val in sql):
                run.violation(f"django-params:{p['desc']}:{val!r}", {"position": p["desc"], "value": val, "backend": "django", "sql": sql,
                                                                     "params": [repr(x) for x in prm]},
                              f"the literal {val!r} does not reach Django's parameter list unchanged: {prm!r}", family="django-params")
    run.extra["sqlalchemy_compiled_rechecks"] = sum(len(WITNESS_VALUES[p["kind"]]) * 2 for p in POSITIONS)
    items: List[Item] = []
    sb = 2 if quick else 3
    for i, p in enumerate(POSITIONS):
        typ, pre = {"str": ("str", f"len(v) <= {sb}"), "int": ("int", "-3 <= v <= 3"), "pick": ("int", "0 <= v < 3")}[p["kind"]]
        if p["hashed"]:
            items.append(Item(f"dj{i}", "k: int", f"0 <= k < {len(STR_POOL) if p['kind'] == 'str' else 5}", f"check_django_pick({i}, k)",
                              describe={"backend": "django", "position": p["desc"], "values": "pool picks (Django hashes in-list values)"},
                              family="django"))
        else:
            items.append(Item(f"dj{i}", f"v: {typ}", pre, f"check_django({i}, v)", describe={"backend": "django", "position": p["desc"]},
                              family="django"))
        for w, wn in ((0, "orm"), (1, "core")):
            if quick and w == 1 and i % 2:
                continue
            if NORM.get(KID_SA_BOOL) and p["desc"] == "flag eq BOOL":
                continue
            items.append(Item(f"sa{wn}{i}", f"v: {typ}", pre, f"check_sa({w}, {i}, v)",
                              describe={"backend": "sqlalchemy-" + wn, "position": p["desc"]}, family="sqlalchemy", isolate=True))
    for it in items[:3]:
        run.sample({"harness": it.name, "describe": it.describe})
    header = "from verif.props.c08 import check_django, check_django_pick, check_sa\n"
    run_items(run, header, items, per_condition_timeout=90 if quick else 300,
              progress=bool(os.environ.get("VERIF_PROGRESS")))
    return run.finish()
