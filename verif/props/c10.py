"""C10 - parsing any string terminates with an AST or a library exception.

Three layers composed by assume/guarantee (DESIGN.md section 4, C10):

  layer 1  lexer step          verif.props.c10_lexer.lexer_layer (Engine A z3 + Engine B CrossHair): every step of the scan makes
                               progress, ends in a token whose value is an ast._Node, or raises TokenizingException.
  layer 2  grammar actions     inductive step over the value stack.  Inv(sym) is a Python predicate describing the values a
                               grammar symbol can carry.  Per production p of the live ODataParser._grammar.Productions: for every
                               combination of right-hand-side values taken from per-symbol pools of Inv-satisfying shapes (symbolic
                               picks; nesting depth <= 3) with symbolic names, the real p.func - called through a real
                               sly.yacc.YaccProduction slice - returns a value satisfying Inv(lhs) or raises an ODataException.
                               One step covers token sequences of any length.  A counterexample is reported only after *witness
                               synthesis*: the right-hand-side values are unparsed into a sentence, which must fail through
                               ODataParser().parse(ODataLexer().tokenize(text)); otherwise the invariant was too weak: inconclusive.
  layer 3  LR driver + hooks   the real ODataParser.parse on token sequences of length <= 3 (quick) / <= 4 (thorough) whose kinds
                               are symbolic picks from the token alphabet (one canonical lexeme per token kind + the literal
                               characters), fed through a lazy generator (a pick is made only when the driver asks for the next
                               token, so the explored set is the viable-prefix tree); one condition per first token.  Outcome:
                               ast._Node, ParsingException or a FunctionCallException subclass; never None / another type; the
                               same outcome when run twice.
  plus     exception hierarchy on the live classes (concrete); the long-input regime (outside every bound) replayed
           concretely: region `deep-recursion` (not a solver verdict, no claim about that regime).
"""
from __future__ import annotations

import copy
import os
import sys
from typing import Any, Callable, Dict, List, Optional, Sequence, Tuple

from odata_query import ast, exceptions
from odata_query.grammar import ODataLexer, ODataParser
from sly.yacc import YaccProduction, YaccSymbol

from .. import chx, gen, refprint
from ..common import Run
from ..harness import Item, source
from . import c06 as _v
from . import c10_lexer

PID = "C10"

# ====================================================================================================
# token alphabet: one canonical lexeme per token kind (checked against the live lexer at import); the two free-text kinds carry
# str.format / %-format metacharacters: error messages are built from token contents
# ====================================================================================================
CANON = {
    "ODATA_IDENTIFIER": "a", "INTEGER": "1", "DECIMAL": "1.5", "STRING": "'{0}%s{x'", "BOOLEAN": "true", "NULL": "null",
    "DATE": "2020-01-01", "TIME": "12:00:00", "DATETIME": "2020-01-01T10:00:00Z", "DURATION": "duration'P1D'",
    "GEOGRAPHY": "geography'{}%d'", "GUID": "11111111-2222-3333-4444-555555555555",
    "ADD": " add ", "SUB": " sub ", "MUL": " mul ", "DIV": " div ", "MOD": " mod ", "UMINUS": "-", "AND": " and ", "OR": " or ",
    "NOT": "not ", "EQ": " eq ", "NE": " ne ", "LT": " lt ", "LE": " le ", "GT": " gt ", "GE": " ge ", "IN": " in ",
    "ANY": "any", "ALL": "all", "WS": " ",
}
ATOMS: List[str] = []       # lexemes
KINDS: List[str] = []       # token types, parallel to ATOMS
TOKS: List[Any] = []        # real tokens, parallel to ATOMS
MISSING: List[str] = []     # token kinds of the live lexer without a canonical lexeme


def _init_alphabet(only: Optional[Sequence[str]] = None) -> None:
    global END, NBITS
    ATOMS[:], KINDS[:], TOKS[:], MISSING[:] = [], [], [], []
    lex = ODataLexer()
    kinds = sorted(ODataLexer.tokens) + sorted(ODataLexer.literals)
    for k in kinds:
        if only is not None and k not in only:
            continue
        atom = CANON.get(k, k if k in ODataLexer.literals else None)
        if atom is None:
            MISSING.append(k)
            continue
        try:
            toks = list(lex.tokenize(atom))
        except Exception:  # noqa: BLE001
            toks = []
        if len(toks) != 1 or toks[0].type != k:
            MISSING.append(k)
            continue
        ATOMS.append(atom)
        KINDS.append(k)
        TOKS.append(toks[0])
    END = len(ATOMS)                          # the pick that ends the token sequence
    NBITS = max(1, END.bit_length())          # a pick in 0..END is decided by at most NBITS symbolic Booleans


END = 0
NBITS = 1
_init_alphabet()
TOKVAL = {k: t.value for k, t in zip(KINDS, TOKS)}


def lr_classes() -> List[List[str]]:
    """Classes of terminals that the live LR tables cannot tell apart: in every state the same kind of action, and a shift
    leads to a state that only reduces, by productions with the same left-hand side, length and action function, on the same
    look-aheads.  The driver's control flow is identical for the members of a class (only the token value differs)."""
    tab = ODataParser._lrtable
    prods = ODataParser._grammar.Productions
    act_, goto = tab.lr_action, tab.lr_goto

    def red(a: int):
        p = prods[-a]
        return ("r", p.name, p.len, id(p.func))

    def sig(a: Optional[int]):
        if a is None:
            return "err"
        if a < 0:
            return red(a)
        if a == 0:
            return "accept"
        row = act_[a]
        if any(v is None or v >= 0 for v in row.values()) or goto.get(a):
            return ("s", a)             # the target state does more than reduce: keep it distinct
        return ("s*", frozenset((la, red(v)) for la, v in row.items()))

    terms = [t for t in ODataParser._grammar.Terminals if t != "error"]
    groups: Dict[Any, List[str]] = {}
    for t in terms:
        key = tuple(sig(act_[st].get(t)) for st in sorted(act_))
        groups.setdefault(key, []).append(t)
    return [sorted(g) for g in groups.values()]


# ====================================================================================================
# layer 3: the LR driver on symbolic token sequences
# ====================================================================================================
class Pick:
    """A symbolic pick in 0..END, decided lazily - only when the driver asks for the next token - by a binary search over
    symbolic Booleans (CrossHair forks cheaply on a bool; realising a symbolic int costs a solver enumeration per value)."""

    def __init__(self, bits: Sequence[Any], table: Sequence[int]):
        self.bits = bits
        self.table = table          # the atoms this pick ranges over (indexes into ATOMS; the last entry is END)
        self.v: Optional[int] = None

    def get(self) -> int:
        if self.v is None:
            lo, hi, i = 0, len(self.table), 0
            while hi - lo > 1:
                mid = (lo + hi) // 2
                if self.bits[i]:
                    lo = mid
                else:
                    hi = mid
                i += 1
            self.v = self.table[lo]
        return self.v


class Fixed:
    def __init__(self, v: int):
        self.v = v

    def get(self) -> int:
        return self.v


def _token(i: int):
    src = TOKS[i]
    t = copy.copy(src)
    return t


def _lazy(picks: Sequence[Any]):
    for p in picks:
        v = p.get()
        if v >= END:
            return
        yield _token(v)


def _outcome(picks: Sequence[Any], full: bool = True) -> tuple:
    try:
        r = ODataParser().parse(_lazy(picks))
    except (exceptions.ParsingException, exceptions.FunctionCallException) as e:
        if not isinstance(e, exceptions.ODataException):
            return ("foreign", type(e).__name__)
        return ("lib", type(e).__name__)
    except Exception as e:  # noqa: BLE001 - the foreign exceptions the property forbids (CrossHair's own control flow is BaseException)
        return ("foreign", type(e).__name__, str(e)[:120])
    if isinstance(r, ast._Node):
        return ("node", gen.decode(r) if full else "")      # the structure, not its repr (CrossHair prints 1-tuples wrongly)
    return ("non-node", type(r).__name__)


TABLES: Dict[int, List[int]] = {}     # mode -> atoms a symbolic pick ranges over (0: all atoms, 1: one per LR-equivalence class)


def _nbits(mode: int) -> int:
    return max(1, (len(TABLES[mode]) - 1).bit_length())


def _picks(prefix: Sequence[int], bits: Sequence[Any], mode: int = 0) -> List[Any]:
    out: List[Any] = [Fixed(v) for v in prefix]
    nb = _nbits(mode)
    for k in range(0, len(bits), nb):
        out.append(Pick(bits[k:k + nb], TABLES[mode]))
    return out


def drive(mode: int, prefix: tuple, *bits: bool) -> bool:
    """outcome class of the real parser on the token sequence prefix + symbolic picks"""
    return _outcome(_picks(prefix, bits, mode), full=False)[0] in ("node", "lib")


def drive2(mode: int, prefix: tuple, *bits: bool) -> bool:
    """... and the same outcome (class, decoded AST) when run twice on fresh parsers"""
    a = _outcome(_picks(prefix, bits, mode))
    b = _outcome(_picks(prefix, bits, mode))
    return a[0] in ("node", "lib") and a == b


def _safe(name: str) -> str:
    return "".join(ch if ch.isalnum() or ch == "_" else f"c{ord(ch)}" for ch in name)


def _driver_item(fn: str, mode: int, prefix: Sequence[int], nsym: int, family: str, what: str) -> Item:
    nb = nsym * _nbits(mode)
    params = ", ".join(f"b{i}: bool" for i in range(nb))
    args = "".join(f", b{i}" for i in range(nb))
    pname = "_".join(str(v) for v in prefix) or "empty"
    kinds = " ".join(KINDS[v] if v < END else "<end>" for v in prefix) or "<nothing>"
    alph = "all atoms" if mode == 0 else "one atom per LR-equivalence class"
    return Item(_safe(f"{fn}{mode}_{pname}_{kinds.replace(' ', '_')}"), params, "True", f"{fn}({mode}, {tuple(prefix)!r}{args})", family=family,
                describe=f"{what}: token sequences starting with [{kinds}] followed by <= {nsym} symbolic token picks ({alph})")


def driver_items(tier: str) -> List[Item]:
    """quick:    length <= 3, picks over one atom per LR-equivalence class of terminals, one condition per first token.
    thorough: length <= 3 over all atoms (one condition per first token) and length <= 4 over the class representatives
              (one condition per first two tokens).
    Determinism (two runs, equal outcome incl. decoded AST): length <= 2 (quick) / <= 3 (thorough)."""
    import itertools
    reps = TABLES[1][:-1]
    items = [_driver_item("drive", 0, (), 0, "driver", "outcome class")]       # the empty token sequence
    if tier == "quick":
        for f in reps:
            items.append(_driver_item("drive", 1, (f,), 2, "driver", "outcome class"))
            items.append(_driver_item("drive2", 1, (f,), 1, "driver-determinism", "same outcome when parsed twice"))
    else:
        for f, g in itertools.product(reps, reps):
            items.append(_driver_item("drive", 1, (f, g), 2, "driver", "outcome class"))
        for f in range(END):
            items.append(_driver_item("drive", 0, (f,), 2, "driver", "outcome class"))
            items.append(_driver_item("drive2", 1, (f,), 2, "driver-determinism", "same outcome when parsed twice"))
    return items


def _seq_text(picks: Sequence[Any]) -> Tuple[List[int], str]:
    seq = []
    for p in picks:
        v = p.get()
        if v >= END or v < 0:
            break
        seq.append(v)
    return seq, "".join(ATOMS[p] for p in seq)


def text_outcome(text: str) -> str:
    """Outcome class of the public API on a string."""
    try:
        r = ODataParser().parse(ODataLexer().tokenize(text))
    except exceptions.ODataException as e:
        return f"library exception {type(e).__name__}"
    except BaseException as e:  # noqa: BLE001
        return f"FOREIGN {type(e).__name__}: {str(e)[:120]}"
    if isinstance(r, ast._Node):
        return f"node {type(r).__name__}"
    return f"NON-NODE {r!r}"[:160]


def _driver_cex(run: Run, itm: Item, r) -> None:
    mode, prefix = eval(itm.call[itm.call.index("(") + 1:itm.call.index(")") + 1] + ",")[:2]  # noqa: S307 - our own literals
    picks = _picks(prefix, [bool(x) for x in r.args], mode)
    seq, text = _seq_text(picks)
    oname = f"{itm.name}:{itm.describe}"
    a, b = _outcome(picks), _outcome(picks)
    try:
        lexed = [t.type for t in ODataLexer().tokenize(text)]
    except Exception:  # noqa: BLE001
        lexed = None
    wit = {"token_kinds": [KINDS[p] for p in seq], "token_lexemes": [ATOMS[p] for p in seq], "text": text,
           "outcome_first_run": a, "outcome_second_run": b, "text_lexes_to": lexed, "parse_of_text": text_outcome(text),
           "how_to_replay": "ODataParser().parse(ODataLexer().tokenize(text))"}
    if lexed == [KINDS[p] for p in seq] and (wit["parse_of_text"].startswith(("FOREIGN", "NON-NODE")) or a != b):
        run.violation(oname, wit, f"parse({text!r}): {wit['parse_of_text']}" + ("" if a == b else f"; two runs differ: {a} / {b}"),
                      itm.family, r.seconds)
    else:
        run.inconclusive(oname, itm.family, {"why": "the token sequence misbehaves in the driver but its concatenated lexemes do not lex "
                                                    "back to the same token kinds (or the text parses regularly): not a string-level witness",
                                             **wit}, r.seconds)


# ====================================================================================================
# layer 2: grammar actions in isolation
# ====================================================================================================
_PARSER = ODataParser()
LIT_CLASSES = (ast.Null, ast.Integer, ast.Float, ast.Boolean, ast.String, ast.Geography, ast.Date, ast.Time, ast.DateTime,
               ast.Duration, ast.GUID)
OP_CLASSES = {"ADD": ast.Add, "SUB": ast.Sub, "MUL": ast.Mult, "DIV": ast.Div, "MOD": ast.Mod, "UMINUS": ast.USub, "AND": ast.And,
              "OR": ast.Or, "NOT": ast.Not, "EQ": ast.Eq, "NE": ast.NotEq, "LT": ast.Lt, "LE": ast.LtE, "GT": ast.Gt, "GE": ast.GtE,
              "IN": ast.In, "ANY": ast.Any, "ALL": ast.All}
LIT_TOKENS = {"NULL": ast.Null, "INTEGER": ast.Integer, "DECIMAL": ast.Float, "BOOLEAN": ast.Boolean, "STRING": ast.String,
              "GEOGRAPHY": ast.Geography, "DATE": ast.Date, "TIME": ast.Time, "DATETIME": ast.DateTime, "DURATION": ast.Duration,
              "GUID": ast.GUID}


# ---------------------------------------------------------------- Inv(sym): what a grammar symbol's value can be
def is_ident(v: Any) -> bool:
    return (type(v) is ast.Identifier and isinstance(v.name, str) and type(v.namespace) is tuple
            and all(isinstance(s, str) for s in v.namespace))


def is_path(v: Any, d: int = 8) -> bool:
    """Identifier, or Attribute chain rooted at an Identifier with str segments."""
    if is_ident(v):
        return True
    return d > 0 and type(v) is ast.Attribute and isinstance(v.attr, str) and is_path(v.owner, d - 1)


def is_lambda(v: Any, d: int = 8) -> bool:
    return type(v) is ast.Lambda and is_ident(v.identifier) and is_expr(v.expression, d - 1)


def is_member(v: Any, d: int = 8) -> bool:
    if is_path(v):
        return True
    return (type(v) is ast.CollectionLambda and is_path(v.owner) and type(v.operator) in (ast.Any, ast.All)
            and (v.lambda_ is None or is_lambda(v.lambda_, d - 1)))


def is_expr(v: Any, d: int = 8) -> bool:
    """Inv(common_expr)."""
    if d <= 0:
        return isinstance(v, ast._Node)
    if is_member(v, d) or type(v) in LIT_CLASSES:
        return not hasattr(v, "val") or isinstance(v.val, str)
    if type(v) is ast.List:
        return type(v.val) is list and len(v.val) >= 1 and all(is_expr(x, d - 1) for x in v.val)
    if type(v) is ast.BinOp:
        return type(v.op) in (ast.Add, ast.Sub, ast.Mult, ast.Div, ast.Mod) and is_expr(v.left, d - 1) and is_expr(v.right, d - 1)
    if type(v) is ast.Compare:
        return (type(v.comparator) in (ast.Eq, ast.NotEq, ast.Lt, ast.LtE, ast.Gt, ast.GtE, ast.In) and is_expr(v.left, d - 1)
                and is_expr(v.right, d - 1))
    if type(v) is ast.BoolOp:
        return type(v.op) in (ast.And, ast.Or) and is_expr(v.left, d - 1) and is_expr(v.right, d - 1)
    if type(v) is ast.UnaryOp:
        return type(v.op) in (ast.Not, ast.USub) and is_expr(v.operand, d - 1)
    if type(v) is ast.Call:
        return (is_ident(v.func) and type(v.args) is list
                and all(is_expr(a, d - 1) or (type(a) is ast.NamedParam and is_ident(a.name) and is_expr(a.param, d - 1)) for a in v.args))
    return False


def is_named(v: Any) -> bool:
    return type(v) is ast.NamedParam and is_ident(v.name) and is_expr(v.param)


def inv(sym: str, v: Any) -> bool:
    if sym in OP_CLASSES:
        return type(v) is OP_CLASSES[sym]
    if sym in LIT_TOKENS:
        return type(v) is LIT_TOKENS[sym]
    if sym in ("ODATA_IDENTIFIER", "entity_navigation_property"):
        return is_ident(v)
    if sym == "WS" or (len(sym) == 1 and not sym.isalnum()):
        return isinstance(v, str)
    if sym in ("BWS", "empty"):
        return v is None
    if sym == "primitive_literal":
        return type(v) in LIT_CLASSES
    if sym in ("common_expr", "S'"):
        return is_expr(v)
    if sym == "list_items":
        return type(v) is list and len(v) >= 2 and all(is_expr(x) for x in v)
    if sym == "list_expr":
        return type(v) is ast.List and type(v.val) is list and len(v.val) >= 1 and all(is_expr(x) for x in v.val)
    if sym in ("first_member_expr", "member_expr", "property_path_expr", "single_navigation_expr"):
        return is_member(v)
    if sym in ("collection_path_expr", "any_expr", "all_expr"):
        if not (type(v) is tuple and len(v) == 2):
            return False
        ops = {"any_expr": (ast.Any,), "all_expr": (ast.All,)}.get(sym, (ast.Any, ast.All))
        return type(v[0]) in ops and (is_lambda(v[1]) if sym == "all_expr" else (v[1] is None or is_lambda(v[1])))
    if sym == "lambda_":
        return is_lambda(v)
    if sym == "named_param":
        return is_named(v)
    if sym == "list_named_param":
        return type(v) is list and len(v) >= 2 and all(is_named(x) for x in v)
    return False    # a grammar symbol this check does not know: reported as not encodable by `action_items`


KNOWN_SYMBOLS = (set(OP_CLASSES) | set(LIT_TOKENS) | {
    "ODATA_IDENTIFIER", "entity_navigation_property", "WS", "BWS", "empty", "primitive_literal", "common_expr", "S'", "list_items",
    "list_expr", "first_member_expr", "member_expr", "property_path_expr", "single_navigation_expr", "collection_path_expr",
    "any_expr", "all_expr", "lambda_", "named_param", "list_named_param"})

# ---------------------------------------------------------------- pools of Inv-satisfying value shapes (gen shape language)
X0, X1, X2 = ("$", 0), ("$", 1), ("$", 2)
_I = lambda n, ns=(): ("Id", n, ns)  # noqa: E731
_ONE = ("Int", "1")
_LAM = ("Lambda", _I(X2), ("Compare", "Eq", ("Attr", _I(X2), X1), _ONE))

ID_POOL = [_I(X0), _I(X0, (X1,)), _I(X0, (X1, X2))]
# the call productions look the name up in a dict (hashing a symbolic str never closes): symbolic picks from a pool
FUNC_POOL: List[Any] = []
FUNC_NAMES: List[str] = []
_TABLE_NAMES: List[str] = []


def _init_func_pool() -> None:
    """every name of the live function table, case variants (lower / UPPER of every name that is not all lower-case, UPPER /
    Title of a few others), near-misses and foreign namespaces"""
    from odata_query import grammar as _g
    table = list(_g.ODATA_FUNCTIONS)
    _TABLE_NAMES[:] = table
    names: List[str] = list(table)
    for nm in table:
        if nm != nm.lower():
            names += [nm.lower(), nm.upper()]
    for nm in table[:3] + [t for t in table if "." in t][:2] + [t for t in table if _g.ODATA_FUNCTIONS[t] == 0][:1]:
        names += [nm.upper(), nm[:1].upper() + nm[1:]]
    names += ["nosuch", "ns.fn", "a.b.now", "geo.length2", "geo.nosuch", "lengthh", "lengt", ""]
    seen: List[str] = []
    for nm in names:
        if nm not in seen:
            seen.append(nm)
    FUNC_NAMES[:] = seen
    FUNC_POOL[:] = [_I(nm.split(".")[-1], tuple(nm.split(".")[:-1])) for nm in seen]


_init_func_pool()
PATH_POOL = [_I(X0), _I(X0, (X1,)), ("Attr", _I(X0), X1), ("Attr", ("Attr", _I(X0), X1), X2), ("Attr", ("Attr", ("Attr", _I(X0), X1), X2), X0)]
MEMBER_POOL = PATH_POOL + [
    ("CLambda", _I(X0), "Any", None), ("CLambda", _I(X0, (X1,)), "All", _LAM), ("CLambda", ("Attr", _I(X0), X1), "Any", _LAM),
    ("CLambda", ("Attr", ("Attr", _I(X0), X1), X2), "All", _LAM), ("CLambda", ("Attr", ("Attr", _I(X0), X1), X2), "Any", None)]
EXPR_SMALL = [_I(X0), ("Attr", ("Attr", _I(X0), X1), X2), ("CLambda", ("Attr", _I(X0), X1), "Any", _LAM), ("Str", X0), ("Null",),
              ("List", [_ONE]), ("BinOp", "Add", _I(X0), _ONE), ("Call", _I("f"), [_I(X1)])]
EXPR_FULL = EXPR_SMALL + [
    _I(X0, (X1,)), ("CLambda", _I(X0), "All", _LAM), ("Bool", "TRUE"), ("Float", "1.5"), ("Date", "2020-02-29"), ("Time", "12:00:00"),
    ("DateTime", "2020-01-01T10:00:00Z"), ("Duration", "P1D"), ("GUID", gen.LIT_SAMPLE["GUID"]), ("Geo", "POINT(1 2)"),
    ("List", [("Str", X0), ("List", [("Null",)])]), ("Compare", "Eq", _I(X0), ("Str", X1)),
    ("BoolOp", "And", ("Compare", "Lt", _I(X0), _ONE), ("UnaryOp", "Not", _I(X1))), ("UnaryOp", "USub", _ONE),
    ("Compare", "In", _I(X0), ("List", [_ONE, ("Str", X1)])), ("Call", _I("fn", ("ns",)), [("NamedParam", _I(X0), _ONE)]),
    ("BinOp", "Mult", ("BinOp", "Add", ("Call", _I("f"), [_I(X0), _ONE]), _I(X1)), ("UnaryOp", "USub", ("Attr", _I(X0), X2))),
    ("Call", _I("g"), []),
]
LAMBDA_POOL = [_LAM, ("Lambda", _I(X0, (X1,)), ("BoolOp", "Or", _I(X0), ("CLambda", ("Attr", _I(X0), X1), "Any", _LAM))),
               ("Lambda", _I(X0), ("Str", X1))]


def pools(tier: str, full: bool) -> Dict[str, List[Any]]:
    """symbol -> list of value builders (a gen shape, or a ('py', value) constant, or a composite)."""
    E = EXPR_FULL if full else EXPR_SMALL
    if tier == "quick" and full:
        E = EXPR_FULL[:16]
    np_ = [("NamedParam", _I(X0), e) for e in E[:4]]
    d: Dict[str, List[Any]] = {
        "ODATA_IDENTIFIER": ID_POOL, "entity_navigation_property": ID_POOL,
        "common_expr": E, "primitive_literal": [("Str", X0), ("Null",), _ONE, ("Float", "1.5"), ("Bool", "false"), ("Date", "2020-02-29"),
                                                ("Time", "12:00:00"), ("DateTime", "2020-01-01T10:00:00Z"), ("Duration", "P1D"),
                                                ("GUID", gen.LIT_SAMPLE["GUID"]), ("Geo", "POINT(1 2)")],
        "list_items": [("pylist", [E[0], E[3]]), ("pylist", [E[1], E[5], E[2]]), ("pylist", [E[6], E[6]])],
        "list_expr": [("List", [E[0]]), ("List", [E[3], E[5]]), ("List", [E[2], E[1], E[6]])],
        "first_member_expr": MEMBER_POOL, "member_expr": MEMBER_POOL, "property_path_expr": MEMBER_POOL,
        "single_navigation_expr": MEMBER_POOL,
        "lambda_": LAMBDA_POOL,
        "any_expr": [("pytuple", [("op", "Any"), None]), ("pytuple", [("op", "Any"), LAMBDA_POOL[0]]), ("pytuple", [("op", "Any"), LAMBDA_POOL[1]])],
        "all_expr": [("pytuple", [("op", "All"), LAMBDA_POOL[0]]), ("pytuple", [("op", "All"), LAMBDA_POOL[1]])],
        "named_param": np_,
        "list_named_param": [("pylist", [np_[0], np_[1]]), ("pylist", [np_[0], np_[1], np_[2]]), ("pylist", [np_[3], np_[3], np_[0], np_[1]])],
        "BWS": [("py", None)], "empty": [("py", None)], "WS": [("py", " "), ("py", "\t\n ")],
        "STRING": [("Str", X0), ("Str", "it's")],
    }
    d["collection_path_expr"] = d["any_expr"] + d["all_expr"]
    for k in OP_CLASSES:
        d[k] = [("op", OP_CLASSES[k].__name__)]
    for k, cls in LIT_TOKENS.items():
        d.setdefault(k, [("py", TOKVAL[k])] if k in TOKVAL else [])
    for ch in ODataLexer.literals:
        d[ch] = [("py", ch)]
    return d


def build(shape: Any, args: Sequence[Any]) -> Any:
    if shape is None:
        return None
    k = shape[0]
    if k == "py":
        return shape[1]
    if k == "op":
        return getattr(ast, shape[1])()
    if k == "pylist":
        return [build(s, args) for s in shape[1]]
    if k == "pytuple":
        return tuple(build(s, args) for s in shape[1])
    return gen.build(shape, args)


PRODS: List[dict] = []      # per harness: production index, pools per rhs position


def call_action(pi: int, values: Sequence[Any]) -> Any:
    """The real grammar action of production `pi`, called through a real YaccProduction slice (appendix recipe C)."""
    p = ODataParser._grammar.Productions[pi]
    syms = []
    for name, v in zip(p.prod, values):
        s = YaccSymbol()
        s.type, s.value = name, v
        syms.append(s)
    sl = YaccProduction(syms, syms)
    sl._namemap = p.namemap
    return p.func(_PARSER, sl)


def values_for(h: int, picks: Sequence[int], names: Sequence[str]) -> List[Any]:
    spec = PRODS[h]
    return [build(pool[picks[j]], names) for j, pool in enumerate(spec["pools"])]


def act(h: int, picks: tuple, names: tuple) -> bool:
    spec = PRODS[h]
    vals = values_for(h, picks, names)
    try:
        out = call_action(spec["pi"], vals)
    except exceptions.ODataException:
        return True
    return inv(spec["lhs"], out)


def action_items(run: Run, tier: str) -> List[Item]:
    PRODS[:] = []
    items: List[Item] = []
    seen_funcs: Dict[Any, int] = {}
    prods = ODataParser._grammar.Productions
    for pi, p in enumerate(prods):
        if pi == 0 or p.func is None:
            continue
        unknown = [s for s in list(p.prod) + [p.name] if s not in KNOWN_SYMBOLS and s not in ODataLexer.literals]
        if unknown:
            run.inconclusive(f"action:{pi}:{p.name} -> {' '.join(p.prod)}", "grammar-action",
                             f"grammar symbol(s) {unknown} have no invariant in this check: not encodable")
            continue
        first_of_func = p.func not in seen_funcs
        seen_funcs.setdefault(p.func, pi)
        pl = pools(tier, full=first_of_func or tier != "quick")
        is_call = p.name == "common_expr" and len(p.prod) >= 2 and p.prod[0] == "ODATA_IDENTIFIER" and p.prod[1] in ("(", "list_expr")
        ppools = []
        for j, s in enumerate(p.prod):
            if is_call and j == 0:
                # quick tier: the case variants, near-misses and a sample of the table (every name is covered at text level by
                # the call-text family); thorough tier: the whole pool
                ppools.append(FUNC_POOL if tier != "quick" else [f for f, nm in zip(FUNC_POOL, FUNC_NAMES)
                                                                 if nm != nm.lower() or nm in FUNC_NAMES[:6] or nm not in _TABLE_NAMES])
            elif is_call:
                ppools.append(pl[s][:3])      # the whole function-name pool is kept; the argument shapes are few
            else:
                ppools.append(pl[s])
        if any(not q for q in ppools):
            run.inconclusive(f"action:{pi}:{p.name} -> {' '.join(p.prod)}", "grammar-action", "empty value pool for a symbol")
            continue
        # several large pools in one production: keep the product below ~150 paths (second and later big pools are thinned)
        budget = (100 if first_of_func else 24) if tier == "quick" else 600
        if is_call:
            budget = max(budget, 3 * len(ppools[0]))
        sizes = [len(q) for q in ppools]
        while _prod(sizes) > budget:
            j = max(range(len(sizes)), key=lambda t: sizes[t])
            ppools[j] = ppools[j][:max(2, sizes[j] - 2)]
            sizes[j] = len(ppools[j])
        h = len(PRODS)
        PRODS.append({"pi": pi, "lhs": p.name, "rhs": list(p.prod), "pools": ppools})
        params, pre, picks = [], [], []
        for j, q in enumerate(ppools):
            if len(q) > 1:
                params.append(f"i{j}: int")
                pre.append(f"0 <= i{j} < {len(q)}")
                picks.append(f"i{j}")
            else:
                picks.append("0")
        params += ["x0: str", "x1: str", "x2: str"]
        pre += [f"len(x{t}) == 1" for t in range(3)]
        items.append(Item(f"action_{pi}", ", ".join(params), " and ".join(pre),
                          f"act({h}, ({''.join(q + ', ' for q in picks)}), (x0, x1, x2))", family="grammar-action",
                          describe=f"{p.name} -> {' '.join(p.prod) or '<empty>'}  [{_prod(sizes)} value combinations x symbolic names]"))
    return items


def _prod(xs: Sequence[int]) -> int:
    n = 1
    for x in xs:
        n *= x
    return n


# ---------------------------------------------------------------- witness synthesis
def unparse(sym: str, v: Any) -> str:
    """Text of a phrase that the grammar derives from `sym` and that carries the value v (reference printer)."""
    if sym in ("BWS", "empty") or v is None:
        return ""
    if isinstance(v, str):
        return v
    if sym in OP_CLASSES:
        return CANON[sym]
    if type(v) is list:
        return ", ".join(unparse("named_param" if type(x) is ast.NamedParam else "common_expr", x) for x in v)
    if type(v) is tuple:
        txt = ("any" if type(v[0]) is ast.Any else "all") + "(" + (unparse("lambda_", v[1]) if v[1] is not None else "") + ")"
        return "/" + txt if sym == "collection_path_expr" else txt
    if sym == "single_navigation_expr":
        return "/" + refprint.render(gen.decode(v))
    return refprint.render(gen.decode(v))


CONTEXT = {  # shortest sentential context of each non-terminal: sentence = CONTEXT[lhs] % phrase
    "common_expr": "%s", "primitive_literal": "%s", "list_expr": "%s", "first_member_expr": "%s", "member_expr": "%s",
    "property_path_expr": "%s", "entity_navigation_property": "%s", "list_items": "(%s)", "single_navigation_expr": "r%s",
    "collection_path_expr": "r%s", "any_expr": "r/%s", "all_expr": "r/%s", "lambda_": "r/any(%s)", "named_param": "ns.f(%s)",
    "list_named_param": "ns.f(%s)", "BWS": "(%s1)", "empty": "(%s1)",
}


def synthesise(h: int, picks: Sequence[int], names: Sequence[str]) -> Tuple[str, str]:
    spec = PRODS[h]
    vals = values_for(h, picks, names)
    phrase = "".join(unparse(s, v) for s, v in zip(spec["rhs"], vals))
    text = CONTEXT.get(spec["lhs"], "%s") % phrase
    return text, text_outcome(text)


def _expand(spec: dict, given: Sequence[int]) -> tuple:
    it = iter(given)
    return tuple(next(it) if len(q) > 1 else 0 for q in spec["pools"])


def _action_cex(run: Run, itm: Item, r) -> None:
    h = int(itm.call[len("act("):].split(",")[0])
    spec = PRODS[h]
    npick = len(spec["pools"])
    symbolic = [a for a in r.args]
    raw = tuple(symbolic[-3:])
    # names are arbitrary code points in the harness; the sentence uses letters with the same equality pattern
    letters: Dict[str, str] = {}
    for nm in raw:
        letters.setdefault(nm, "pqr"[len(letters)])
    names = tuple(letters[nm] for nm in raw)
    try:
        if act(h, [a for a in symbolic[:-3]] and _expand(spec, symbolic[:-3]), names) is True:
            run.inconclusive(f"{itm.name}:{itm.describe}", itm.family,
                             {"why": "the action only misbehaves for names outside the identifier language", "args": list(r.args),
                              "action": r.replay_outcome}, r.seconds)
            return
    except Exception:  # noqa: BLE001
        pass
    it = iter(symbolic[:-3])
    picks = [next(it) if len(q) > 1 else 0 for q in spec["pools"]]
    assert len(picks) == npick
    oname = f"{itm.name}:{itm.describe}"
    try:
        text, outcome = synthesise(h, picks, names)
    except Exception as e:  # noqa: BLE001
        run.inconclusive(oname, itm.family, {"why": f"witness synthesis failed: {e!r}", "args": list(r.args), "action": r.replay_outcome}, r.seconds)
        return
    wit = {"production": f"{spec['lhs']} -> {' '.join(spec['rhs'])}", "rhs_values": [repr(v)[:200] for v in values_for(h, picks, names)],
           "action_outcome": r.replay_outcome, "synthesised_text": text, "parse_of_text": outcome,
           "how_to_replay": "ODataParser().parse(ODataLexer().tokenize(synthesised_text))"}
    if outcome.startswith(("FOREIGN", "NON-NODE")):
        run.violation(oname, wit, f"parse({text!r}): {outcome}", itm.family, r.seconds)
    else:
        run.inconclusive(oname, itm.family, {"why": "the action misbehaves on values satisfying the invariant, but the synthesised sentence "
                                                    "parses regularly: the invariant is too weak for this production (or the sentence "
                                                    "does not reach this reduction)", **wit}, r.seconds)


# ---------------------------------------------------------------- text level: calls of every pool name with 0..3 arguments
CALL_ARGS = ("", "a", "a, 'b'", "a, 1, 2", "p=1, q='s'")


def calltext(lo: int, i: int, j: int) -> bool:
    name = None
    for k in range(lo, min(lo + 10, len(FUNC_NAMES))):      # explicit branching: the text stays concrete on every path
        if i == k:
            name = FUNC_NAMES[k]
    args = None
    for k in range(len(CALL_ARGS)):
        if j == k:
            args = CALL_ARGS[k]
    if name is None or args is None or name == "":
        return True
    return text_outcome(name + "(" + args + ")").startswith(("node", "library exception"))


def calltext_items() -> List[Item]:
    items = []
    for lo in range(0, len(FUNC_NAMES), 10):
        hi = min(lo + 10, len(FUNC_NAMES))
        items.append(Item(f"calltext_{lo}", "x0: int, x1: int", f"{lo} <= x0 < {hi} and 0 <= x1 < {len(CALL_ARGS)}", f"calltext({lo}, x0, x1)",
                          family="call-text", describe=f"parse(name(args)) is a node or a library exception for name in {FUNC_NAMES[lo:hi]} x args in {CALL_ARGS}"))
    return items


def _calltext_cex(run: Run, itm: Item, r) -> None:
    i, j = r.args
    text = FUNC_NAMES[i] + "(" + CALL_ARGS[j] + ")"
    out = text_outcome(text)
    oname = f"{itm.name}:{itm.describe[:120]}"
    if out.startswith(("FOREIGN", "NON-NODE")):
        run.violation(oname, {"text": text, "outcome": out, "how_to_replay": "ODataParser().parse(ODataLexer().tokenize(text))"},
                      f"parse({text!r}): {out}", itm.family, r.seconds)
    else:
        run.harness_error(oname, itm.family, {"text": text, "outcome": out, "crosshair": r.message}, r.seconds)


# ---------------------------------------------------------------- text level: literals with one long repetition
# every place where a token pattern repeats without an upper limit (digits, fraction digits, string characters, blanks,
# identifier characters, segments) is stretched to a length from a pool that brackets the limits Python and the standard
# library know about (int <-> str digit limit 4300, float digits 17 / exponent 308, identifier limit 128, regex repeat
# limits 255 / 256, datetime microseconds 6; paths and lists stop at 40 members here - the parser's Python steps are slow under the tracer; the long-input
# replay has the 1000 / 2000 / 32 000 segment cases); the token ACTIONS run on these lexemes - totality for literals beyond the
# character bound of the lexer layer.
LONG_LENGTHS = (1, 6, 7, 18, 19, 20, 127, 128, 129, 255, 256, 309, 4300, 4301, 6000)
LONG_LITS = (
    ("integer", lambda n: "1" * n), ("integer-plus", lambda n: "+" + "1" * n), ("integer-minus", lambda n: "-" + "1" * n),
    ("integer-leading-zeros", lambda n: "0" * n + "1"), ("integer-plus-zero", lambda n: "+0" + "1" * n),
    ("decimal-fraction", lambda n: "1." + "3" * n), ("decimal-integer-part", lambda n: "+" + "9" * n + ".5"),
    ("exponent", lambda n: "1e" + "9" * n), ("exponent-negative", lambda n: "-1.5E-" + "9" * n),
    ("duration-days", lambda n: "duration'P" + "1" * n + "D'"), ("duration-fraction", lambda n: "duration'-PT0." + "1" * n + "S'"),
    ("datetime-fraction", lambda n: "2020-01-01T10:00:00." + "1" * n + "Z"), ("time-fraction", lambda n: "10:00:00." + "1" * n),
    ("string", lambda n: "'" + "a" * n + "'"), ("string-quotes", lambda n: "'" + "''" * n + "'"),
    ("geography", lambda n: "geography'" + "1" * n + "'"),
    ("identifier", lambda n: "a" * n), ("identifier-segments", lambda n: "a" + ".b" * n), ("identifier-two-segments", lambda n: "a" * n + "." + "b" * n),
    ("path", lambda n: "a" + "/b" * min(n, 12)), ("blanks-required", lambda n: "a eq" + " " * n + "1"),
    ("blanks-optional", lambda n: "a in (" + " " * n + "1," + "\t" * n + "2 )"), ("list-items", lambda n: "a in (" + "1, " * min(n, 40) + "2)"),
)
LONG_CTX = ("{}", "x eq {}", "f.g({}) ne null")


def longlit(i: int, j: int, c: int) -> bool:
    mk = LONG_LITS[i][1]
    n = None
    for k in range(len(LONG_LENGTHS)):
        if j == k:
            n = LONG_LENGTHS[k]
    ctx = None
    for k in range(len(LONG_CTX)):
        if c == k:
            ctx = LONG_CTX[k]
    if n is None or ctx is None:
        return True
    text = ctx.format(mk(n))
    a = text_outcome(text)
    return a.startswith(("node", "library exception")) and text_outcome(text) == a


def longlit_items() -> List[Item]:
    items = []
    for i, (name, _mk) in enumerate(LONG_LITS):
        items.append(Item(f"longlit_{i}", "x1: int, x2: int", f"0 <= x1 < {len(LONG_LENGTHS)} and 0 <= x2 < {len(LONG_CTX)}",
                          f"longlit({i}, x1, x2)", family="long-literals",
                          describe=f"parse of `{name}` with its repetition stretched to {LONG_LENGTHS} characters is a node or a library "
                                   f"exception, twice the same, in the contexts {LONG_CTX}"))
    return items


def _longlit_cex(run: Run, itm: Item, r) -> None:
    i = int(itm.name.rsplit("_", 1)[1])
    j, c = r.args
    text = LONG_CTX[c].format(LONG_LITS[i][1](LONG_LENGTHS[j]))
    out = text_outcome(text)
    oname = f"{itm.name}:{itm.describe[:120]}"
    wit = {"generator": LONG_LITS[i][0], "repeat": LONG_LENGTHS[j], "context": LONG_CTX[c], "length": len(text), "text_head": text[:60],
           "outcome": out, "args": [i, j, c], "how_to_replay": "ODataParser().parse(ODataLexer().tokenize(text))"}
    if out.startswith(("FOREIGN", "NON-NODE")) or text_outcome(text) != out:
        run.violation(oname, wit, f"parse of {LONG_LITS[i][0]} with a repetition of {LONG_LENGTHS[j]} in {LONG_CTX[c]!r}: {out}", itm.family, r.seconds)
    else:
        run.harness_error(oname, itm.family, {**wit, "crosshair": r.message}, r.seconds)


# ====================================================================================================
# running CrossHair conditions with custom counterexample handling
# ====================================================================================================
HEADER = "from verif.props.c10 import act, drive, drive2, calltext, longlit\n"


def analyse(run: Run, items: Sequence[Item], timeout: float, on_cex: Dict[str, Callable], workers: Optional[int], progress: bool) -> None:
    if not items:
        return
    twins = [i for i in items if not i.family.startswith("driver")] + [i for i in items if i.family.startswith("driver")][:40]
    _v.reachability(run, HEADER, twins)
    with chx.HarnessModule(source(HEADER, items)) as hm:
        res = hm.run([i.name for i in items], per_condition_timeout=timeout, workers=workers, progress=progress)
        again = [n for n, r in res.items() if r.state == "RUNNER_ERR"]
        if again:
            res.update(hm.run(again, per_condition_timeout=timeout, workers=workers, progress=progress))
        for itm in items:
            r = res[itm.name]
            oname = f"{itm.name}:{itm.describe}"
            if r.state == chx.CONFIRMED:
                run.discharged(oname, itm.family, r.seconds)
            elif r.state in (chx.POST_FAIL, chx.EXEC_ERR):
                hm.replay(r)
                if not r.reproduced:
                    run.harness_error(oname, itm.family, {"message": r.message, "replay": r.replay_outcome}, r.seconds)
                else:
                    on_cex[itm.family](run, itm, r)
            else:
                run.inconclusive(oname, itm.family, {"state": r.state, "message": r.message[:300]}, r.seconds)


def parser_layers(run: Run, progress: bool, workers: Optional[int]) -> None:
    tier = run.tier
    run.encode("sly.yacc.Parser.parse (LR driver) with the live ODataParser._lrtable / _grammar", "odata_query.grammar.ODataParser.error",
               "every grammar action in ODataParser._grammar.Productions (p.func, via a YaccProduction slice)",
               "odata_query.grammar.ODataParser._function_call / _reverse_attributes / _explode_attr")
    for k in MISSING:
        run.harness_error(f"alphabet:{k}", "driver", f"no canonical lexeme for token kind {k!r}: the driver alphabet is incomplete")
    classes = lr_classes()
    run.extra["lr_equivalent_terminals"] = [c for c in classes if len(c) > 1]
    # the representative of a class is the member with the nastiest token value: free-text kinds first (their canonical
    # lexemes carry format metacharacters), so that error paths see them
    classes = [sorted(c, key=lambda t: (t not in ("STRING", "GEOGRAPHY"), t)) for c in classes]
    dropped = {t for c in classes for t in c[1:]}
    TABLES[0] = list(range(END + 1))
    TABLES[1] = [i for i, k in enumerate(KINDS) if k not in dropped] + [END]
    run.assumptions.append("terminals that are indistinguishable in every state of the live LR tables (same action kind, shift targets "
                           "that only reduce by productions with equal left-hand side / length / action function) are represented by "
                           f"one member where the bounds say so: {run.extra['lr_equivalent_terminals']}")
    run.bounds["driver_alphabets"] = {"all atoms": list(KINDS), "one per LR-equivalence class": [KINDS[i] for i in TABLES[1][:-1]]}
    d_items = driver_items(tier)
    a_items = action_items(run, tier)
    # expensive conditions first
    items = d_items + a_items + calltext_items() + longlit_items()
    run.bounds["long_literals"] = {"generators": [k for k, _ in LONG_LITS], "repetition lengths": list(LONG_LENGTHS), "contexts": list(LONG_CTX)}
    run.bounds["function_name_pool"] = list(FUNC_NAMES)
    analyse(run, items, 100 if tier == "quick" else 600,
            {"driver": _driver_cex, "driver-determinism": _driver_cex, "grammar-action": _action_cex, "call-text": _calltext_cex,
             "long-literals": _longlit_cex},
            workers, progress)


# ====================================================================================================
# concrete parts: exception hierarchy, long inputs
# ====================================================================================================
def hierarchy(run: Run) -> None:
    base = exceptions.ODataException
    for nm in ("TokenizingException", "ParsingException", "UnknownFunctionException", "ArgumentCountException"):
        cls = getattr(exceptions, nm, None)
        ok = isinstance(cls, type) and issubclass(cls, base) and issubclass(base, Exception) and not issubclass(
            cls, (AttributeError, IndexError, KeyError, TypeError, ValueError))
        if ok:
            run.discharged(f"hierarchy:{nm} is a subclass of ODataException", "hierarchy(concrete)", nontrivial=False)
        else:
            run.violation(f"hierarchy:{nm}", {"class": nm, "mro": [c.__name__ for c in getattr(cls, "__mro__", ())]},
                          f"exceptions.{nm} is not a subclass of ODataException", "hierarchy(concrete)")


LONG_INPUTS = {
    "path-2000-segments": lambda: "a" + "/a" * 2000,
    "path-1000-segments": lambda: "a" + "/a" * 1000,
    "path-1000-segments-any": lambda: "a" + "/a" * 1000 + "/any()",
    "add-3000": lambda: "1" + " add 1" * 3000,
    "and-3000": lambda: "a" + " and a" * 3000,
    "not-2000": lambda: "not " * 2000 + "a",
    "minus-2000": lambda: "-" * 2000 + "1",
    "parentheses-2000": lambda: "(" * 2000 + "1" + ")" * 2000,
    "nested-lists-1500": lambda: "(" * 1500 + "1," + ")" * 1500,
    "nested-calls-1500": lambda: "trim(" * 1500 + "a" + ")" * 1500,
    "nested-lambdas-1000": lambda: "a/any(x:" * 1000 + "1" + ")" * 1000,
    "in-chain-2000": lambda: "a" + " in (1,)" * 2000,
    "path-64KB": lambda: "a" + "/a" * 32000,
    "add-64KB": lambda: "1" + " add 1" * 10900,
    "parentheses-64KB": lambda: "(" * 32000 + "1" + ")" * 32000,
}


class LongInputs:
    """The long inputs are parsed in a forked child with Python's default recursion limit (the engines of this framework
    raise the limit of the checking process) and a per-input time limit."""

    def __init__(self):
        import multiprocessing as mp
        ctx = mp.get_context("fork")
        self.pc, cc = ctx.Pipe(duplex=False)

        def child():
            import signal
            sys.setrecursionlimit(1000)
            out = {}

            def alarm(*_a):
                raise TimeoutError("no result within 30 s")

            signal.signal(signal.SIGALRM, alarm)
            for name, mk in LONG_INPUTS.items():
                signal.alarm(30)
                try:
                    out[name] = text_outcome(mk())
                except TimeoutError as e:
                    out[name] = f"FOREIGN Timeout: {e}"
                finally:
                    signal.alarm(0)
            cc.send(out)
            cc.close()

        self.p = ctx.Process(target=child)
        self.p.start()
        cc.close()

    def join(self) -> Dict[str, str]:
        try:
            out = self.pc.recv()
        except EOFError:
            out = {}
        self.p.join()
        return out


def long_inputs(run: Run, job: LongInputs) -> None:
    """Outside every bound: replayed concretely, no solver claim.  Foreign exceptions fall into the region `deep-recursion`."""
    results = {}
    bad = []
    outs = job.join()
    if not outs:
        run.harness_error("long-inputs", "long-inputs(concrete)", "the long-input child process died")
    for name, mk in LONG_INPUTS.items():
        if name not in outs:
            continue
        text = mk()
        out = outs[name]
        results[name] = {"length": len(text), "outcome": out[:80]}
        if out.startswith("FOREIGN Timeout"):
            # a time limit cannot decide termination: inconclusive, never a violation (path parsing is quadratic in the
            # number of segments because every reduction rebuilds the frozen path, so 32 000 segments take minutes)
            run.inconclusive(f"long-input:{name}", "long-inputs(concrete)", f"no outcome within the 30 s limit ({len(text)} characters)")
            continue
        if out.startswith(("FOREIGN", "NON-NODE")):
            bad.append((name, text, out))
    run.extra["long_inputs(concrete replay, not a solver verdict)"] = results
    if not bad:
        return
    entry = run.match_known(lambda k: k.get("id") == "deep-recursion")
    for name, text, out in bad:
        wit = {"generator": name, "python": _SRC[name], "length": len(text), "outcome": out,
               "how_to_replay": "ODataParser().parse(ODataLexer().tokenize(<python expression>))"}
        what = f"parse of {name} ({len(text)} characters): {out[:60]}"
        if entry is not None and out.startswith("FOREIGN RecursionError"):
            run.known_finding(entry, entry.get("what", what), name=f"long-input:{name}#known:deep-recursion",
                              family="long-inputs(concrete)", detail=wit)
        else:
            run.violation(f"long-input:{name}@deep-recursion", wit, what, "long-inputs(concrete)")


_SRC = {
    "path-2000-segments": "'a' + '/a' * 2000", "path-1000-segments": "'a' + '/a' * 1000",
    "path-1000-segments-any": "'a' + '/a' * 1000 + '/any()'", "add-3000": "'1' + ' add 1' * 3000", "and-3000": "'a' + ' and a' * 3000",
    "not-2000": "'not ' * 2000 + 'a'", "minus-2000": "'-' * 2000 + '1'", "parentheses-2000": "'(' * 2000 + '1' + ')' * 2000",
    "nested-lists-1500": "'(' * 1500 + '1,' + ')' * 1500", "nested-calls-1500": "'trim(' * 1500 + 'a' + ')' * 1500",
    "nested-lambdas-1000": "'a/any(x:' * 1000 + '1' + ')' * 1000", "in-chain-2000": "'a' + ' in (1,)' * 2000",
    "path-64KB": "'a' + '/a' * 32000", "add-64KB": "'1' + ' add 1' * 10900", "parentheses-64KB": "'(' * 32000 + '1' + ')' * 32000",
}


def main() -> int:
    run = Run(PID, "model_checking")
    progress = bool(os.environ.get("VERIF_PROGRESS"))
    ncpu = min(16, os.cpu_count() or 4)
    run.bounds = {"driver_token_sequence_length": "<= 3 over one atom per LR-equivalence class of terminals" if run.tier == "quick" else
                  "<= 3 over all atoms and <= 4 over one atom per LR-equivalence class of terminals",
                  "driver_alphabet": f"{END} atoms: one canonical lexeme per token kind + the literal characters",
                  "grammar_action_values": "per-symbol pools of invariant-satisfying shapes (nesting depth <= 3), symbolic picks; three "
                                           "symbolic one-letter names shared by all holes; function names of call productions are picks "
                                           "from a pool of table / near-miss / foreign names"}
    run.outside = ["inputs longer than the bounds; in particular the 64 KB / thousands-of-segments regime is NOT decided: the listed long "
                   "inputs are only replayed concretely (evidence key long_inputs)",
                   "token sequences longer than the driver bound (layer 2's inductive step covers reductions at any length, the shift / "
                   "goto behaviour of the LR tables beyond the bound is SLY's)",
                   "right-hand-side values outside the pools (the pools cover every node class each symbol can carry, to depth 3)"]
    run.assumptions = ["assume/guarantee composition: layer 1 (every lexer step is a token with a node value or TokenizingException), "
                       "layer 2 (every reduction maps invariant-satisfying values to an invariant-satisfying value or a library "
                       "exception), layer 3 (the driver turns token sequences into reductions / ParsingException and returns the start "
                       "symbol's value) - stated, not machine-checked as a composition",
                       "the invariant Inv(sym) is my description of the parser's value domain; a counterexample against it counts only "
                       "after a synthesised sentence reproduces the failure through parse(tokenize(text))",
                       "finite choices are symbolic ints enumerated by CrossHair (finite-domain symbolic execution), names are symbolic str"]
    longs = LongInputs()
    parsers = _v.SubRun(run, lambda r: parser_layers(r, progress, max(4, ncpu - 4)))
    sess = c10_lexer.lexer_layer(run, progress=progress)
    hierarchy(run)
    long_inputs(run, longs)
    parsers.join()
    from .. import rexcirc as rx
    rx.attach_results(run)
    code = run.finish()
    return 2 if sess is None else code
