"""Digest input of the class-level tables every lexer / parser instance shares (C20).  Kept free of heavy imports: the
hash-seed / import-order sweep loads it in child interpreters whose import history is the thing under test."""
import json


def class_state() -> str:
    """canonical digest input of the class-level tables every instance shares"""
    from odata_query import grammar
    from odata_query.grammar import ODataLexer, ODataParser
    t = ODataParser._lrtable
    g = ODataParser._grammar
    d = {
        "lr_action": sorted((s, sorted(row.items())) for s, row in t.lr_action.items()),
        "lr_goto": sorted((s, sorted(row.items())) for s, row in t.lr_goto.items()),
        "productions": [(p.name, list(p.prod), getattr(p.func, "__name__", None), repr(p.prec)) for p in g.Productions],
        "master": [ODataLexer._master_re.pattern, ODataLexer._master_re.flags],
        "token_funcs": [(k, getattr(f, "__qualname__", repr(f))) for k, f in ODataLexer._token_funcs.items()],
        "functions": list(grammar.ODATA_FUNCTIONS.items()),
        "tokens": sorted(ODataLexer.tokens), "literals": sorted(ODataLexer.literals),
        "precedence": [list(x) for x in ODataParser.precedence],
    }
    return json.dumps(d, sort_keys=False, default=repr)


