"""C17 - making a lambda body relative strips exactly the lambda variable's prefix.

Engine B: `odata_query.utils.expression_relative_to_identifier` (-> IdentifierStripper ->
NodeTransformer) is executed by CrossHair on one condition per tree shape.  Symbolic: the variable
name, its optional namespace segment, every identifier / path-segment / lambda-variable name in the
expression (1 arbitrary code point each, so every equality pattern among the names is inside the
quantifier) and every operator choice.  Oracle: an independent re-rooting on decoded tuples.
"""
from __future__ import annotations

import os
from typing import Any, List

from odata_query import ast
from odata_query.utils import expression_relative_to_identifier

from .. import gen
from ..common import Run
from ..harness import Item, run_items

PID = "C17"
SHAPES: List[dict] = []


# ------------------------------------------------------------------ independent oracle (on decoded tuples)
def _flatten(d):
    """decoded Attribute chain -> (root_decoded, [segments]) or None if not rooted at an Identifier."""
    segs = []
    while isinstance(d, tuple) and d and d[0] == "Attribute":
        segs.append(d[2])
        d = d[1]
    if isinstance(d, tuple) and d and d[0] == "Identifier":
        return d, list(reversed(segs))
    return None


def ref_relative(d: Any, var: tuple) -> Any:
    """OData meaning: a path rooted at the variable is re-rooted one step down; all else unchanged."""
    if isinstance(d, tuple) and d and d[0] == "Attribute":
        fl = _flatten(d)
        if fl is not None:
            root, segs = fl
            if root[1] == var[1] and tuple(root[2]) == tuple(var[2]):
                out: Any = ("Identifier", segs[0], ("ns",))
                for s in segs[1:]:
                    out = ("Attribute", out, s)
                return out
            return d
        return ("Attribute", ref_relative(d[1], var), d[2])
    if isinstance(d, tuple):
        if d and d[0] in ("Identifier",):
            return d
        return tuple(ref_relative(x, var) if isinstance(x, (tuple, list)) else x for x in d)
    if isinstance(d, list):
        return [ref_relative(x, var) if isinstance(x, (tuple, list)) else x for x in d]
    return d


def check(i: int, args: tuple) -> bool:
    sh = SHAPES[i]
    var = gen.build(sh["var"], args)
    expr = gen.build(sh["expr"], args)
    before = gen.decode(expr)
    got = expression_relative_to_identifier(var, expr)
    want = ref_relative(before, gen.decode(var))
    return gen.decode(got) == want and gen.decode(expr) == before


def check_twice(i: int, args: tuple, other: str) -> bool:
    """the result does not depend on earlier calls: the same expression made relative to the variable, then to another
    name (and back), each time equals the oracle (no memo keyed on the expression only, no state between calls)."""
    sh = SHAPES[i]
    expr = gen.build(sh["expr"], args)
    before = gen.decode(expr)
    var = gen.build(sh["var"], args)
    var2 = ast.Identifier(other, var.namespace)
    for v in (var, var2, var):
        got = expression_relative_to_identifier(v, expr)
        if gen.decode(got) != ref_relative(before, gen.decode(v)):
            return False
    return gen.decode(expr) == before


# ------------------------------------------------------------------ shapes
def _shapes(tier: str, seed: int) -> List[dict]:
    NEW = gen.NEW
    V = ("$", 0)
    out = []

    def paths(ns):
        # root is a *fresh* symbolic name (may or may not equal the variable) or literally the variable hole
        for depth in (0, 1, 2, 3, 4):
            yield gen.path_shape(depth, root=NEW) if not ns else _with_ns(gen.path_shape(depth, root=NEW))
        for depth in (1, 2, 4):
            yield gen.path_shape(depth, root=V) if not ns else _with_ns(gen.path_shape(depth, root=V))

    def _with_ns(p):
        # put a symbolic namespace segment on the root identifier
        if p[0] == "Id":
            return ("Id", p[1], (NEW,))
        return ("Attr", _with_ns(p[1]), p[2])

    leaves = list(paths(False)) + list(paths(True))[:4] + [("Int", "1"), ("Str", NEW), ("Null",)]
    small = [gen.path_shape(1, root=V), gen.path_shape(2, root=NEW), gen.path_shape(3, root=V),
             gen.path_shape(0, root=NEW), ("Str", NEW), _with_ns(gen.path_shape(1, root=NEW))]
    exprs: List[Any] = []
    exprs += leaves
    if tier == "quick":
        exprs += list(gen.expr_shapes(1, small, named=True))
        deep = list(gen.expr_shapes(2, [gen.path_shape(1, root=V), gen.path_shape(2, root=NEW)], named=True,
                                    sym_ops=False))
        exprs += gen.sample(deep, 60, seed)
    else:
        exprs += list(gen.expr_shapes(1, leaves, named=True))
        deep = list(gen.expr_shapes(2, small[:4], named=True, sym_ops=False))
        exprs += gen.sample(deep, 100, seed)
    # explicit shapes: lists inside lists (a list is itself a literal kind), and nested lambdas that bind a DIFFERENT
    # identifier which shares only the name or only the namespace with the variable
    pv1, pv2 = gen.path_shape(1, root=V), gen.path_shape(2, root=V)
    explicit = [
        ("Compare", "In", ("List", [("Int", "1"), ("Int", "2")]), ("List", [("List", [pv1, pv2]), ("List", [("Int", "3"), ("Int", "4")])])),
        ("Call", ("Id", "hassubset", ()), [pv1, ("List", [("List", [pv2, ("Str", NEW)]), ("List", [("Str", "v"), ("Str", "w")])])]),
        ("List", [("List", [("List", [pv1])]), ("Null",)]),
        ("Compare", "In", pv1, ("List", [("Int", "1"), ("Str", "s"), ("Null",), ("Int", "4"), ("Int", "5"), ("Int", "6"), ("Int", "7"),
                                         ("Int", "8"), pv1])),
        ("CLambda", pv1, "Any", ("Lambda", ("Id", ("$", 1), (("$", 2),)),
                                 ("Compare", "Eq", ("Attr", ("Id", ("$", 1), (("$", 2),)), NEW), pv1))),
        ("CLambda", pv2, "All", ("Lambda", ("Id", ("$", 1), ()),
                                 ("BoolOp", "And", ("Compare", "Eq", ("Attr", ("Id", ("$", 1), ()), NEW), pv1),
                                  ("CLambda", ("Attr", ("Id", ("$", 1), ()), NEW), "Any",
                                   ("Lambda", ("Id", ("$", 2), (NEW,)), ("Compare", "Lt", pv2, ("Attr", ("Id", ("$", 2), ()), NEW))))))),
    ]
    explicit += [
        # collection lambdas without a predicate: the owner path is still a path
        ("CLambda", pv1, "Any", None), ("CLambda", pv2, "All", None), ("CLambda", gen.path_shape(3, root=V), "Any", None),
        ("UnaryOp", "Not", ("CLambda", pv2, "Any", None)),
        ("CLambda", ("Id", NEW, ()), "Any", ("Lambda", ("Id", ("$", 1), ()),
                                            ("BoolOp", "Or", ("CLambda", pv1, "Any", None),
                                             ("CLambda", ("Attr", ("Id", ("$", 1), ()), NEW), "All", None)))),
        # named parameters whose VALUE is a path rooted at the variable
        ("Call", ("Id", "between", ("shop",)), [("NamedParam", ("Id", "value", ()), pv1), ("NamedParam", ("Id", "lo", ()), ("Int", "1")),
                                                ("NamedParam", ("Id", NEW, ()), pv2)]),
    ]
    exprs += explicit
    seen = set()
    for e in exprs:
        for var_ns in ((), (NEW,)):
            if var_ns and tier == "quick" and len(out) % 3 and e not in explicit:   # namespaced variable on a third of shapes
                continue
            var = ("Id", V, var_ns)
            sh, hs = gen.renumber(("pair", var, e))
            key = repr(sh)
            if key in seen:
                continue
            seen.add(key)
            out.append({"var": sh[1], "expr": sh[2], "holes": hs})
    return out


def _lambda_vars(shape, var=None) -> List[Any]:
    """nested lambda variables must be a different identifier than the variable (C17 quantifier): returns the hole index of
    the lambda variable's name when its namespace has the same length as the variable's (then the names must differ, or -
    for one-segment namespaces - the namespaces: returned as (name hole, ns hole)); a lambda variable whose namespace
    length differs from the variable's is a different identifier whatever its name."""
    found = []
    vns = len(var[2]) if var is not None else 0

    def walk(x):
        if isinstance(x, tuple):
            if x and x[0] == "Lambda":
                idn = x[1]
                if isinstance(idn[1], tuple) and idn[1][0] == "$":
                    lns = idn[2] if len(idn) > 2 else ()
                    if var is None:
                        found.append(idn[1][1])
                    elif len(lns) == vns == 0:
                        found.append(idn[1][1])
                    elif len(lns) == vns == 1 and isinstance(lns[0], tuple) and isinstance(var[2][0], tuple):
                        found.append((idn[1][1], lns[0][1], var[2][0][1]))
                    elif len(lns) == vns:
                        found.append(idn[1][1])
            for y in x:
                walk(y)
        elif isinstance(x, list):
            for y in x:
                walk(y)

    walk(shape)
    return found


def prepare(tier: str, seed: int) -> None:
    SHAPES[:] = _shapes(tier, seed)


def main() -> int:
    run = Run(PID, "model_checking")
    run.encode("odata_query.utils.expression_relative_to_identifier", "odata_query.rewrite.IdentifierStripper.visit_Attribute",
               "odata_query.visitor.NodeTransformer.generic_visit", "odata_query.visitor.NodeVisitor.visit")
    prepare(run.tier, run.seed)
    run.bounds = {"names": "every identifier / path segment / lambda variable / namespace segment is one arbitrary "
                           "code point (symbolic str, len == 1)", "path_depth": "1..4 segments",
                  "expression_nesting": "<= 1 exhaustive over the leaf set, depth 2 seeded sample",
                  "shapes": len(SHAPES)}
    run.outside = ["names longer than one character (only equality between names is ever inspected)",
                   "expression nesting deeper than 2", "nested lambdas re-binding the same identifier (name and namespace)"]
    run.assumptions = ["tree shape is concrete per obligation; all leaf names and operator choices are symbolic",
                       "nested lambda variables are a different identifier than the stripped variable (stated in the property): the name "
                       "or the namespace differs - sharing only one of them is inside the claim"]
    items = []
    for i, sh in enumerate(SHAPES):
        params, pre, names = gen.signature(sh["holes"])
        for j in _lambda_vars(sh["expr"], sh["var"]):
            if isinstance(j, tuple):
                pre += f" and (x{j[0]} != x0 or x{j[1]} != x{j[2]})"
            else:
                pre += f" and x{j} != x0"
        items.append(Item(f"h{i}", params, pre, f"check({i}, ({', '.join(names)},))",
                          describe={"var": sh["var"], "expr": sh["expr"]}, family="relative"))
        if i % (4 if run.tier == "quick" else 1) == 0 and not _lambda_vars(sh["expr"]):
            items.append(Item(f"t{i}", params + ", other: str", pre + " and len(other) == 1",
                              f"check_twice({i}, ({', '.join(names)},), other)",
                              describe={"var": sh["var"], "expr": sh["expr"], "sequence": "var, other, var"},
                              family="call-sequence"))
        run.sample({"var": sh["var"], "expr": sh["expr"]}, cap=5)
    header = "from verif.props.c17 import check, check_twice\n"
    run_items(run, header, items, per_condition_timeout=40 if run.tier == "quick" else 120,
              progress=bool(os.environ.get("VERIF_PROGRESS")))
    return run.finish()
