"""Generate PEP316 harness stubs, run them under CrossHair, replay and classify the outcomes."""
from __future__ import annotations

import os

from dataclasses import dataclass, field
from typing import Any, Callable, Dict, List, Optional, Sequence

from . import chx
from .common import Run


@dataclass
class Item:
    name: str                 # python identifier of the harness
    params: str               # "x0: str, x1: int"
    pre: str                  # PEP316 precondition
    call: str                 # python expression evaluated by the harness, must return True when the property holds
    describe: Any = None      # what the obligation is (goes into evidence / replay files)
    family: str = ""
    # known_id -> extra precondition clause that excludes that finding's region
    exclusions: Dict[str, str] = field(default_factory=dict)
    # When a counterexample does not reproduce concretely (state leaking between CrossHair paths inside third-party
    # code such as SQLAlchemy), split the condition into {exactly those arguments} and {everything else} and decide
    # both again in fresh processes, instead of reporting a harness error right away.
    isolate: bool = False
    _depth: int = 0


def source(header: str, items: Sequence[Item], excluded: Optional[Dict[str, List[str]]] = None) -> str:
    out = [header, ""]
    for it in items:
        pre = it.pre
        for kid in (excluded or {}).get(it.name, []):
            pre = f"({pre}) and ({it.exclusions[kid]})"
        out.append(f"def {it.name}({it.params}) -> bool:")
        out.append('    """')
        out.append(f"    pre: {pre}")
        out.append("    post: _")
        out.append('    """')
        out.append(f"    return {it.call}")
        out.append("")
    return "\n".join(out)


def run_items(run: Run, header: str, items: Sequence[Item], *, per_condition_timeout: float = 30.0,
              per_path_timeout: Optional[float] = None, workers: Optional[int] = None,
              classify: Optional[Callable[[Item, tuple, str], Optional[dict]]] = None,
              what: Optional[Callable[[Item, tuple, str], str]] = None,
              progress: bool = False, max_rounds: int = 4) -> None:
    """Run every item; record one obligation per item in `run`.

    classify(item, args, replay_outcome) -> a known-findings entry (dict with 'id') or None.
    When a counterexample falls into a known finding's region and the item has an exclusion clause for
    it, the item is re-run with the region excluded, so that a *different* violation is still found.
    """
    dev = os.environ.get("VERIF_DEV_FAMILY")       # development aid only: restrict a scratch run to families containing this text
    if dev:
        items = [it for it in items if dev in it.family]
        run.notes.append(f"DEVELOPMENT RUN restricted to families containing {dev!r}")
    by_name = {it.name: it for it in items}
    todo = list(items)
    excluded: Dict[str, List[str]] = {}
    spent: Dict[str, float] = {}
    rounds = 0
    while todo and rounds < max_rounds:
        rounds += 1
        src = source(header, todo, excluded)
        nxt: List[Item] = []
        with chx.HarnessModule(src) as hm:
            res = hm.run([it.name for it in todo], per_condition_timeout=per_condition_timeout,
                         per_path_timeout=per_path_timeout, workers=workers, progress=progress)
            for it in todo:
                r = res[it.name]
                spent[it.name] = spent.get(it.name, 0.0) + r.seconds
                secs = spent[it.name]
                oname = it.name + (":" + str(it.describe) if it.describe is not None else "")
                if r.state == chx.CONFIRMED:
                    run.discharged(oname, it.family, secs,
                                   detail={"excluded_known": excluded.get(it.name, [])} if excluded.get(it.name) else None)
                elif r.state in (chx.POST_FAIL, chx.EXEC_ERR):
                    hm.replay(r)
                    if not r.reproduced:
                        if it.isolate and it._depth < 3 and r.args is not None:
                            names = [a.split(":")[0].strip() for a in it.params.split(",") if a.strip()]
                            eq = " and ".join(f"{nm} == {val!r}" for nm, val in zip(names, r.args))
                            for tag, clause in (("iso", eq), ("rest", f"not ({eq})")):
                                nxt.append(Item(f"{it.name}_{tag}{it._depth}", it.params, f"({it.pre}) and ({clause})", it.call,
                                                describe=it.describe, family=it.family, exclusions=it.exclusions,
                                                isolate=True, _depth=it._depth + 1))
                            run.notes.append(f"{it.name}: counterexample {r.args!r} did not reproduce concretely; "
                                             f"condition split and re-decided in isolation")
                            continue
                        run.harness_error(oname, it.family, {"message": r.message, "replay": r.replay_outcome}, secs)
                        continue
                    entry = classify(it, r.args, r.replay_outcome) if classify else None
                    desc = what(it, r.args, r.replay_outcome) if what else f"args={r.args!r} -> {r.replay_outcome}"
                    if entry is not None:
                        kid = entry["id"]
                        run.known_finding(entry, entry.get("what", desc), name=oname + f"#known:{kid}", family=it.family,
                                          detail={"args": r.args, "outcome": r.replay_outcome})
                        if kid in it.exclusions and kid not in excluded.get(it.name, []):
                            excluded.setdefault(it.name, []).append(kid)
                            nxt.append(it)
                        continue
                    run.violation(oname, {"harness": it.name, "call": it.call, "describe": it.describe,
                                          "args": list(r.args), "arg_names": [a.split(":")[0].strip() for a in it.params.split(",") if a.strip()],
                                          "crosshair": r.message,
                                          "concrete_replay": r.replay_outcome,
                                          "how_to_replay": "the harness expression `call` is evaluated with "
                                                           "x<i> bound to args[i] on the real odata_query code"},
                                  desc, it.family, secs)
                else:
                    run.inconclusive(oname, it.family, {"state": r.state, "message": r.message[:300]}, secs)
        todo = nxt
    for it in todo:  # still hitting known regions after max_rounds
        run.inconclusive(it.name + ":after-exclusions", it.family, "max exclusion rounds reached")
