"""vt replay <file>: re-run one recorded counterexample against the real code (no solver involved)."""
import importlib
import json
import sys


def main(path: str) -> int:
    data = json.load(open(path))
    pid = data["property"]
    mod = importlib.import_module(f"verif.props.{pid.lower()}")
    if hasattr(mod, "replay"):
        return int(mod.replay(data) or 0)
    w = data["witness"]
    if "call" not in w:
        print("replay file has no generic harness call; see its 'what' field:", data.get("what"))
        return 2
    if hasattr(mod, "prepare"):
        mod.prepare(data.get("tier", "quick"), data.get("seed", 0))
    env = dict(vars(mod))
    for i, a in enumerate(w["args"]):
        env[f"x{i}"] = a
    names = w.get("arg_names")
    if names:
        env.update(dict(zip(names, w["args"])))
    try:
        res = eval(w["call"], env)  # noqa: S307
        outcome = f"returned {res!r}"
        bad = res is not True
    except Exception as e:  # noqa: BLE001
        outcome = f"raised {type(e).__name__}: {e}"
        bad = True
    print(f"property={pid} harness={w.get('harness')} args={w['args']!r} -> {outcome}")
    print("REPRODUCED" if bad else "NOT REPRODUCED (property holds on this input now)")
    return 1 if bad else 0
