"""Shape language for ASTs with holes, builder, independent structural decoder, shape enumeration.

A *shape* is a nested tuple; leaves may be holes:
    ('$', i)            -> args[i]           (a symbolic str)
    ('#', i, choices)   -> choices[args[i]]  (a symbolic int selecting among class names)
Tree structure is concrete (one CrossHair condition per shape, DESIGN.md section 3 Engine B);
everything at the leaves and every operator choice is symbolic.
"""
from __future__ import annotations

import itertools
import random
from typing import Any, Iterator, List, Sequence, Tuple

from odata_query import ast

BIN_ARITH = ("Add", "Sub", "Mult", "Div", "Mod")
CMP_OPS = ("Eq", "NotEq", "Lt", "LtE", "Gt", "GtE")
BOOL_OPS = ("And", "Or")
UN_OPS = ("Not", "USub")
ALL_BIN = ("Or", "And", "Eq", "NotEq", "Lt", "LtE", "Gt", "GtE", "Add", "Sub", "Mult", "Div", "Mod")
LITERAL_KINDS = ("Int", "Float", "Bool", "Str", "Null", "Date", "Time", "DateTime", "Duration", "GUID", "Geo")

_LIT_CLS = {
    "Int": ast.Integer, "Float": ast.Float, "Bool": ast.Boolean, "Str": ast.String, "Date": ast.Date,
    "Time": ast.Time, "DateTime": ast.DateTime, "Duration": ast.Duration, "GUID": ast.GUID,
    "Geo": ast.Geography,
}
LIT_SAMPLE = {
    "Int": "7", "Float": "1.5", "Bool": "true", "Str": "s", "Date": "2020-02-29", "Time": "23:59:59",
    "DateTime": "2020-01-01T10:00:00Z", "Duration": "P1DT2H", "GUID": "11111111-2222-3333-4444-555555555555",
    "Geo": "POINT(1 2)",
}


def pick(seq: Sequence[Any], i: Any) -> Any:
    """seq[i] by an explicit if-chain: indexing a list / tuple with a *symbolic* int makes CrossHair build a symbolic
    element (a symbolic str for string items, an unbounded search for tuples / objects); the chain forks on i instead
    and hands back the concrete item."""
    for j in range(len(seq)):
        if i == j:
            return seq[j]
    return seq[len(seq) - 1]


def H(i: int) -> tuple:
    return ("$", i)


def OPH(i: int, choices: Sequence[str]) -> tuple:
    return ("#", i, tuple(choices))


def _v(x: Any, args: Sequence[Any]) -> Any:
    if isinstance(x, tuple) and x and x[0] == "$":
        return args[x[1]]
    return x


def _op(x: Any, args: Sequence[Any]) -> Any:
    if isinstance(x, tuple) and x and x[0] == "#":
        return getattr(ast, pick(x[2], args[x[1]]))()
    return getattr(ast, x)()


def build(shape: tuple, args: Sequence[Any] = ()) -> Any:
    """Instantiate a shape with (possibly symbolic) hole values -> a real odata_query.ast tree."""
    k = shape[0]
    if k == "Id":
        ns = tuple(_v(n, args) for n in shape[2]) if len(shape) > 2 else ()
        return ast.Identifier(_v(shape[1], args), ns)
    if k == "Attr":
        return ast.Attribute(build(shape[1], args), _v(shape[2], args))
    if k == "Null":
        return ast.Null()
    if k in _LIT_CLS:
        return _LIT_CLS[k](_v(shape[1], args))
    if k == "List":
        return ast.List([build(s, args) for s in shape[1]])
    if k == "BinOp":
        return ast.BinOp(_op(shape[1], args), build(shape[2], args), build(shape[3], args))
    if k == "Compare":
        return ast.Compare(_op(shape[1], args), build(shape[2], args), build(shape[3], args))
    if k == "BoolOp":
        return ast.BoolOp(_op(shape[1], args), build(shape[2], args), build(shape[3], args))
    if k == "UnaryOp":
        return ast.UnaryOp(_op(shape[1], args), build(shape[2], args))
    if k == "Bin":   # any binary operator: the node class follows the (possibly symbolic) operator
        name = pick(shape[1][2], args[shape[1][1]]) if isinstance(shape[1], tuple) else shape[1]
        l, r = build(shape[2], args), build(shape[3], args)
        if name in BOOL_OPS:
            return ast.BoolOp(getattr(ast, name)(), l, r)
        if name in BIN_ARITH:
            return ast.BinOp(getattr(ast, name)(), l, r)
        return ast.Compare(getattr(ast, name)(), l, r)
    if k == "Call":
        return ast.Call(build(shape[1], args), [build(s, args) for s in shape[2]])
    if k == "NamedParam":
        return ast.NamedParam(build(shape[1], args), build(shape[2], args))
    if k == "Lambda":
        return ast.Lambda(build(shape[1], args), build(shape[2], args))
    if k == "CLambda":
        return ast.CollectionLambda(build(shape[1], args), _op(shape[2], args),
                                    build(shape[3], args) if shape[3] is not None else None)
    raise ValueError(f"unknown shape kind {k!r}")


def decode(node: Any) -> Any:
    """Independent structural decoding of an AST into plain tuples (does not use dataclass __eq__).

    Every tuple starts with a concrete tag, so that oracles can dispatch on d[0] without ever
    comparing a symbolic string with a tag."""
    if node is None:
        return None
    if isinstance(node, list):
        return ["list"] + [decode(n) for n in node]
    if isinstance(node, tuple):
        return ("tuple",) + tuple(decode(n) for n in node)
    if isinstance(node, str):
        return node
    t = type(node).__name__
    if isinstance(node, ast.Identifier):
        return (t, node.name, ("ns",) + tuple(node.namespace))
    if isinstance(node, ast.Attribute):
        return (t, decode(node.owner), node.attr)
    if isinstance(node, ast.List):
        return (t, ("items",) + tuple(decode(n) for n in node.val))
    if isinstance(node, ast.Null):
        return (t,)
    if isinstance(node, ast._Literal):
        return (t, node.val)
    if isinstance(node, (ast.BinOp, ast.BoolOp)):
        return (t, type(node.op).__name__, decode(node.left), decode(node.right))
    if isinstance(node, ast.Compare):
        return (t, type(node.comparator).__name__, decode(node.left), decode(node.right))
    if isinstance(node, ast.UnaryOp):
        return (t, type(node.op).__name__, decode(node.operand))
    if isinstance(node, ast.Call):
        return (t, decode(node.func), ("args",) + tuple(decode(a) for a in node.args))
    if isinstance(node, ast.NamedParam):
        return (t, decode(node.name), decode(node.param))
    if isinstance(node, ast.Lambda):
        return (t, decode(node.identifier), decode(node.expression))
    if isinstance(node, ast.CollectionLambda):
        return (t, decode(node.owner), type(node.operator).__name__, decode(node.lambda_))
    if isinstance(node, ast._Node):
        return (t,)
    return ("?", repr(node))


def holes(shape: Any) -> List[tuple]:
    """All holes of a shape (with duplicates removed, ordered by index)."""
    found = {}

    def walk(x):
        if isinstance(x, tuple):
            if x and x[0] == "$" and len(x) == 2 and (x[1] is None or isinstance(x[1], int)):
                if x[1] is not None:
                    found[x[1]] = x
                return
            if x and x[0] == "#" and len(x) == 3:
                if x[1] is not None:
                    found[x[1]] = x
                return
            for y in x:
                walk(y)
        elif isinstance(x, list):
            for y in x:
                walk(y)

    walk(shape)
    return [found[i] for i in sorted(found)]


def renumber(shape: Any) -> Tuple[Any, List[tuple]]:
    """Give every hole *occurrence marked with index None* a fresh index, keep explicit ones.

    Holes written as ('$', None) / ('#', None, choices) are numbered left to right after the largest
    explicit index.  Returns (shape, holes)."""
    explicit = [h[1] for h in holes(shape) if h[1] is not None]
    nxt = [max(explicit) + 1 if explicit else 0]

    def walk(x):
        if isinstance(x, tuple):
            if x and x[0] == "$" and len(x) == 2 and (x[1] is None or isinstance(x[1], int)):
                if x[1] is None:
                    i = nxt[0]
                    nxt[0] += 1
                    return ("$", i)
                return x
            if x and x[0] == "#" and len(x) == 3:
                if x[1] is None:
                    i = nxt[0]
                    nxt[0] += 1
                    return ("#", i, x[2])
                return x
            return tuple(walk(y) for y in x)
        if isinstance(x, list):
            return [walk(y) for y in x]
        return x

    s = walk(shape)
    return s, holes(s)


def signature(hs: List[tuple], str_bound: str = "len({v}) == 1", pool: int = 0,
              pool_name: str = "POOL") -> Tuple[str, str, List[str]]:
    """Python parameter list and PEP316 precondition for a list of holes.

    With pool=n every string hole becomes a symbolic *index* into a pool of n concrete names
    (used where the code under test hashes the name: a symbolic str never closes there)."""
    params, pre, names = [], [], []
    for h in hs:
        v = f"x{h[1]}"
        if h[0] == "$" and pool:
            params.append(f"{v}: int")
            pre.append(f"0 <= {v} < {pool}")
            names.append(f"{pool_name}[{v}]")
            continue
        names.append(v)
        if h[0] == "$":
            params.append(f"{v}: str")
            pre.append(str_bound.format(v=v))
        else:
            params.append(f"{v}: int")
            pre.append(f"0 <= {v} < {len(h[2])}")
    return ", ".join(params), " and ".join(pre) or "True", names


# ---------------------------------------------------------------------------------------------
# Shape enumeration (the "typed grammar generator" of DESIGN.md, structural part)
# ---------------------------------------------------------------------------------------------
NEW = ("$", None)


def path_shape(depth: int, root: Any = NEW, segs: Sequence[Any] = ()) -> tuple:
    """a/b/c... with `depth` segments after the root."""
    s: tuple = ("Id", root, ())
    for d in range(depth):
        s = ("Attr", s, segs[d] if d < len(segs) else NEW)
    return s


def leaf_shapes(paths: Sequence[int] = (0, 1, 2), lits: Sequence[str] = ("Int", "Str", "Null")) -> List[tuple]:
    out: List[tuple] = [path_shape(d) for d in paths]
    for k in lits:
        if k == "Null":
            out.append(("Null",))
        elif k == "Str":
            out.append(("Str", NEW))
        else:
            out.append((k, LIT_SAMPLE[k]))
    return out


def expr_shapes(depth: int, leaves: Sequence[tuple], *, calls: Sequence[Tuple[str, int]] = (("f", 1), ("concat", 2)),
                lambdas: bool = True, lists: bool = True, named: bool = False,
                sym_ops: bool = True) -> Iterator[tuple]:
    """All expression shapes of nesting depth <= depth over the given leaves (un-numbered holes)."""
    if depth == 0:
        yield from leaves
        return
    subs = list(expr_shapes(depth - 1, leaves, calls=calls, lambdas=lambdas, lists=lists, named=named,
                            sym_ops=sym_ops))
    yield from subs
    ar = ("#", None, BIN_ARITH) if sym_ops else "Add"
    cm = ("#", None, CMP_OPS) if sym_ops else "Eq"
    bo = ("#", None, BOOL_OPS) if sym_ops else "And"
    un = ("#", None, UN_OPS) if sym_ops else "Not"
    for l, r in itertools.product(subs, subs):
        yield ("BinOp", ar, l, r)
        yield ("Compare", cm, l, r)
        yield ("BoolOp", bo, l, r)
    for s in subs:
        yield ("UnaryOp", un, s)
        if lists:
            yield ("List", [s])
            yield ("Compare", "In", s, ("List", [s, ("Int", "1")]))
        for fn, ar_n in calls:
            yield ("Call", ("Id", fn, ()), [s] * ar_n)
        if named:
            yield ("Call", ("Id", "fn", ("ns",)), [("NamedParam", ("Id", NEW, ()), s)])
        if lambdas:
            yield ("CLambda", path_shape(1), "Any", ("Lambda", ("Id", NEW, ()), s))
            yield ("CLambda", path_shape(0), "All", ("Lambda", ("Id", NEW, ()), s))
    if lambdas:
        yield ("CLambda", path_shape(0), "Any", None)


def sample(seq: Sequence[Any], k: int, seed: int) -> List[Any]:
    seq = list(seq)
    if len(seq) <= k:
        return seq
    rnd = random.Random(seed)
    return rnd.sample(seq, k)
