"""Engine A - `rexcirc`: the SLY lexer as an SMT circuit (DESIGN.md section 3, appendix A).

regex  --(CPython's own re._parser)-->  parse tree  -->  prioritised NFA  -->  z3 term `run(state, i)`

* Input is read from the *live* lexer class on every run (`_master_re.pattern/.flags`, `literals`, `ignore`,
  `_remapping`); nothing about /repo is cached.  A `LexSpec` can also be built from an explicit pattern
  (self-test mutants, look-ahead repairs) - the circuit then models `re.compile(pattern, flags)`.
* Leaf character classes are never re-implemented: every leaf node of the parse tree is compiled by the
  real `re` engine into a one-character pattern and evaluated on every character of the working
  alphabet.  The alphabet is ASCII plus one representative of every class of non-ASCII code points that
  the leaves of the encoded patterns can distinguish (computed over all of Unicode on every run), so a
  text over Unicode and its image over the alphabet drive the matcher identically.
* `run(state, i)` is the end position CPython's backtracking matcher returns from NFA state `state` at the
  concrete position `i` of a symbolic text (N symbolic characters + symbolic length L <= N); FAIL = -1.
  Valid because the supported fragment has no back-references (memoisation on (state, i) is exact).
* `lex1` = exactly the body of SLY's `tokenize` loop: end of text / ignore character / first alternative
  of the master pattern that matches (with `_remapping`) / `literals` character / ERROR.
* `member(ref, S)` is a language-level semantics (can the NFA consume exactly c[0:S)) used for the
  *reference* regexes (verif.lexspec), which share the symbolic characters.

Supported regex constructs: literals, classes, `.`, (named / non-capturing / inline-flag) groups, `|`,
`? * + {m,n}` greedy and lazy, look-ahead `(?=...)` / `(?!...)` with any supported body (end of input:
negative assertion succeeds, positive fails), one-character look-behind, `\\b`, `\\B`, `\\A`/`^`, `\\Z`/`$`.
Anything else (back-references, conditional groups, atomic groups, possessive repeats, nullable loop
bodies, multi-character look-behind) raises `NotEncodable` (exit code 2 of the calling check).
"""
from __future__ import annotations

import io
import os
import re
import re._compiler as _sc
import re._constants as _k
import re._parser as _sp
import sys
import time
import tokenize as _pytok
import ast as _pyast
import multiprocessing as mp
import traceback
from dataclasses import dataclass, field
from typing import Any, Callable, Dict, FrozenSet, Iterable, List, Optional, Sequence, Tuple

import z3

FAIL = -1
_BV_POS = os.environ.get("RX_POS", "bv") == "bv"


def pos_val(i: int):
    """A position / kind constant (8-bit two's complement bit-vector, compared signed; FAIL = -1)."""
    return z3.BitVecVal(i, 8) if _BV_POS else z3.IntVal(i)


def pos_var(name: str):
    return z3.BitVec(name, 8) if _BV_POS else z3.Int(name)


def pos_of(v) -> int:
    return v.as_signed_long() if _BV_POS else v.as_long()

# kind codes of lex1 that are not rule indexes
K_ERROR, K_EOF, K_LITERAL, K_IGNORE = -1, -2, -3, -4
SPECIAL_KIND = {K_ERROR: "ERROR", K_EOF: "EOF", K_LITERAL: "LITERAL", K_IGNORE: "IGNORE"}

PREFERRED_EXTRAS = [
    "٣",      # ARABIC-INDIC DIGIT THREE: \d and \w, not ASCII
    "\U0001d7d8",  # MATHEMATICAL DOUBLE-STRUCK DIGIT ZERO: \d outside the BMP
    "²",      # SUPERSCRIPT TWO: \w (isalnum) but not \d
    "é", "É",  # cased letter pair
    " ", " ", "\u0085",  # non-ASCII white space
    "’",      # non-word symbol
    "́",      # combining mark (not \w)
    "ſ", "K", "İ", "ı",  # fold onto ASCII s, k, i, i under re.I
]


class NotEncodable(Exception):
    """The current lexer (or a reference pattern) uses something the circuit cannot express."""


# --------------------------------------------------------------------------------------------------
# the lexer as observed on the imported SLY class
# --------------------------------------------------------------------------------------------------
class LexSpec:
    def __init__(self, pattern: str, flags: int, literals: Iterable[str] = (), ignore: str = "",
                 remapping: Optional[dict] = None, master: Optional[re.Pattern] = None, origin: str = "explicit",
                 lexer_cls: Any = None):
        self.pattern = pattern
        self.flags = flags
        self.literals = frozenset(literals)
        self.ignore = ignore or ""
        self.remapping = {k: dict(v) for k, v in (remapping or {}).items() if v}
        self.master = master if master is not None else re.compile(pattern, flags)
        self.origin = origin
        self.lexer_cls = lexer_cls

    @classmethod
    def live(cls) -> "LexSpec":
        try:
            from odata_query.grammar import ODataLexer
            mre = ODataLexer._master_re
            pattern, flags = mre.pattern, mre.flags
            if not isinstance(pattern, str):
                raise NotEncodable("master pattern is not a str pattern")
            lits = ODataLexer.literals
            ignore = ODataLexer.ignore
            remap = getattr(ODataLexer, "_remapping", {}) or {}
        except NotEncodable:
            raise
        except Exception as e:  # noqa: BLE001 - lexer is no longer a SLY lexer
            raise NotEncodable(f"cannot read the SLY attributes of odata_query.grammar.ODataLexer: {e!r}")
        for lit in lits:
            if not isinstance(lit, str) or len(lit) != 1:
                raise NotEncodable(f"multi-character literal {lit!r}")
        return cls(pattern, flags, lits, ignore, remap, master=mre, origin="odata_query.grammar.ODataLexer", lexer_cls=ODataLexer)

    # the body of SLY's tokenize loop, on the real regex object
    def real_lex1(self, text: str, prev: str = "") -> Tuple[str, int]:
        if text == "":
            return ("EOF", 0)
        if text[0] in self.ignore:
            return ("IGNORE", 1)
        m = self.master.match(prev + text, len(prev))
        if m:
            kind = m.lastgroup
            kind = self.remapping.get(kind, {}).get(m.group(), kind)
            return (kind, m.end() - len(prev))
        if text[0] in self.literals:
            return ("LITERAL", 1)
        return ("ERROR", -1)

    def tokenize_first(self, text: str, prev: str = "") -> Optional[Tuple[str, int]]:
        """First step of the real `ODataLexer().tokenize` (public API): (token type, extent).

        None when the secondary oracle does not apply (explicit spec, ignore characters, ignored tokens).
        A token action that raises is reported as ('RAISED:<type>', -1).
        """
        if self.lexer_cls is None or self.ignore or text == "":
            return None
        cls = self.lexer_cls
        start = len(prev)
        lexer = cls()
        gen = lexer.tokenize(prev + text, index=start)
        try:
            tok = next(gen)
        except StopIteration:
            return None
        except Exception as e:  # noqa: BLE001
            tk = getattr(e, "token", None)
            if tk is not None and getattr(tk, "type", None) == "ERROR" and getattr(tk, "index", None) == start:
                return ("ERROR", -1)
            return None
        if tok.index != start:
            return None  # an ignored token came first
        kind = tok.type if tok.type not in self.literals else "LITERAL"
        try:
            nxt = next(gen)
            end = nxt.index
        except StopIteration:
            end = len(prev + text)
        except Exception as e:  # noqa: BLE001
            tk = getattr(e, "token", None)
            if tk is None or getattr(tk, "index", None) is None:
                return None
            end = tk.index
        # an ignored token after the first one would blur the extent; check with the action-independent regex
        return (kind, end - start)


# --------------------------------------------------------------------------------------------------
# parse tree helpers
# --------------------------------------------------------------------------------------------------
_LEAF_OPS = (_k.LITERAL, _k.NOT_LITERAL, _k.IN, _k.ANY)


def _fresh_state(flags: int):
    st = _sp.State()
    st.str = ""
    st.flags = flags
    return st


def _leaf_regex(node, flags: int) -> re.Pattern:
    """Compile a single one-character node of the parse tree with the real engine."""
    st = _fresh_state(flags)
    return _sc.compile(_sp.SubPattern(st, [node]), flags)


def _walk_leaves(items, flags: int, out: Dict[Tuple[str, int], Any]) -> None:
    for op, av in items:
        if op in _LEAF_OPS:
            out.setdefault((repr((op, av)), flags), (op, av))
        elif op is _k.SUBPATTERN:
            _g, add, dele, p = av
            _walk_leaves(p, (flags | add) & ~dele, out)
        elif op is _k.BRANCH:
            for alt in av[1]:
                _walk_leaves(alt, flags, out)
        elif op in (_k.MAX_REPEAT, _k.MIN_REPEAT):
            _walk_leaves(av[2], flags, out)
        elif op in (_k.ASSERT, _k.ASSERT_NOT):
            _walk_leaves(av[1], flags, out)
        elif op is _k.AT:
            if av in (_k.AT_BOUNDARY, _k.AT_NON_BOUNDARY):
                w = (_k.IN, [(_k.CATEGORY, _k.CATEGORY_WORD)])
                out.setdefault((repr(w), flags), w)
        else:
            # other constructs are rejected later by the compiler with a precise message
            pass


def _parse(pattern: str, flags: int):
    try:
        parsed = _sp.parse(pattern, flags)
    except Exception as e:  # noqa: BLE001
        raise NotEncodable(f"pattern does not parse: {e!r}")
    return parsed


# --------------------------------------------------------------------------------------------------
# working alphabet
# --------------------------------------------------------------------------------------------------
class Alphabet:
    """ASCII + representatives of every class of non-ASCII code points the given leaves distinguish."""

    _ALLNON: Optional[str] = None

    def __init__(self, patterns: Sequence[Tuple[str, int]]):
        t0 = time.time()
        leaves: Dict[Tuple[str, int], Any] = {}
        for pat, fl in patterns:
            parsed = _parse(pat, fl)
            _walk_leaves(parsed, parsed.state.flags, leaves)
        if Alphabet._ALLNON is None:
            Alphabet._ALLNON = "".join(chr(i) for i in range(128, 0x110000))
        alln = Alphabet._ALLNON
        classes: List[set] = [set(alln)]
        self.distinguishing_leaves = 0
        seen_sets = []
        for (key, fl), node in leaves.items():
            cre = _leaf_regex(node, fl)
            found = cre.findall(alln)
            if not found or len(found) == len(alln):
                continue
            fs = frozenset(found)
            if fs in seen_sets:
                continue
            seen_sets.append(fs)
            self.distinguishing_leaves += 1
            nxt = []
            for c in classes:
                a = c & fs
                if a and len(a) != len(c):
                    nxt.append(a)
                    nxt.append(c - a)
                else:
                    nxt.append(c)
            classes = nxt
        extras: List[str] = list(PREFERRED_EXTRAS)
        self.auto_added: List[str] = []
        for c in classes:
            if not any(e in c for e in extras):
                r = min(c)
                extras.append(r)
                self.auto_added.append(r)
        self.chars: List[str] = [chr(i) for i in range(128)] + extras
        if len(self.chars) > 256:
            raise NotEncodable("more than 256 behaviour classes of characters")
        self.index = {ch: i for i, ch in enumerate(self.chars)}
        self.nonascii_classes = len(classes)
        self._class_of: Dict[str, str] = {}
        self._classes = classes
        self.build_s = time.time() - t0

    def __len__(self):
        return len(self.chars)

    def representative(self, ch: str) -> str:
        """The alphabet member that behaves like `ch` for every leaf of the encoded patterns."""
        if ch in self.index:
            return ch
        for c in self._classes:
            if ch in c:
                for e in self.chars[128:]:
                    if e in c:
                        return e
        raise KeyError(ch)

    def project(self, text: str) -> str:
        return "".join(self.representative(ch) for ch in text)

    def idx(self, chars: Iterable[str]) -> FrozenSet[int]:
        return frozenset(self.index[ch] for ch in chars)


# --------------------------------------------------------------------------------------------------
# prioritised NFA
# --------------------------------------------------------------------------------------------------
class Nfa:
    CHAR, SPLIT, MATCH, LOOK, BEHIND, BOUND, BEGIN = "CHAR", "SPLIT", "MATCH", "LOOK", "BEHIND", "BOUND", "BEGIN"
    END = "END"    # cls = {newline} when a final / any newline also counts, neg = MULTILINE variant

    def __init__(self):
        self.kind: List[str] = []
        self.a: List[Optional[int]] = []
        self.b: List[Optional[int]] = []
        self.cls: List[Optional[FrozenSet[int]]] = []
        self.neg: List[bool] = []
        self.uses_prev = False
        self.loops: List[dict] = []      # unbounded repeats: {"state": loop head, "body": entry of one iteration, "rule": name}

    def new(self, kind, a=None, b=None, cls=None, neg=False) -> int:
        self.kind.append(kind)
        self.a.append(a)
        self.b.append(b)
        self.cls.append(cls)
        self.neg.append(neg)
        return len(self.kind) - 1

    def __len__(self):
        return len(self.kind)


class _Builder:
    def __init__(self, alphabet: Alphabet, N: int, nfa: Optional[Nfa] = None):
        self.alphabet = alphabet
        self.N = N
        self.nfa = nfa or Nfa()
        self._leaf: Dict[Tuple[str, int], FrozenSet[int]] = {}

    def leaf(self, node, flags: int) -> FrozenSet[int]:
        key = (repr(node), flags)
        if key not in self._leaf:
            cre = _leaf_regex(node, flags)
            self._leaf[key] = frozenset(i for i, ch in enumerate(self.alphabet.chars) if cre.fullmatch(ch))
        return self._leaf[key]

    def nullable(self, items) -> bool:
        for op, av in items:
            if op in _LEAF_OPS:
                return False
            if op is _k.SUBPATTERN:
                if not self.nullable(av[3]):
                    return False
            elif op is _k.BRANCH:
                if not any(self.nullable(x) for x in av[1]):
                    return False
            elif op in (_k.MAX_REPEAT, _k.MIN_REPEAT):
                if av[0] > 0 and not self.nullable(av[2]):
                    return False
            elif op in (_k.AT, _k.ASSERT, _k.ASSERT_NOT):
                pass
            else:
                raise NotEncodable(f"regex construct {op} is not supported")
        return True

    def single_class(self, items, flags: int) -> Optional[FrozenSet[int]]:
        """The class of a body that is exactly one character wide and one node, else None."""
        items = list(items)
        while len(items) == 1 and items[0][0] is _k.SUBPATTERN and not items[0][1][1] and not items[0][1][2]:
            items = list(items[0][1][3])
        if len(items) == 1 and items[0][0] in _LEAF_OPS:
            return self.leaf(items[0], flags)
        return None

    def seq(self, items, flags: int, nxt: int) -> int:
        for op, av in reversed(list(items)):
            nxt = self.one(op, av, flags, nxt)
        return nxt

    def one(self, op, av, flags: int, nxt: int) -> int:
        n = self.nfa
        if op in _LEAF_OPS:
            return n.new(Nfa.CHAR, a=nxt, cls=self.leaf((op, av), flags))
        if op is _k.SUBPATTERN:
            _group, add, dele, p = av
            return self.seq(p, (flags | add) & ~dele, nxt)
        if op is _k.BRANCH:
            entries = [self.seq(alt, flags, nxt) for alt in av[1]]
            cur = entries[-1]
            for e in reversed(entries[:-1]):
                cur = n.new(Nfa.SPLIT, a=e, b=cur)
            return cur
        if op in (_k.MAX_REPEAT, _k.MIN_REPEAT):
            lo, hi, p = av
            greedy = op is _k.MAX_REPEAT
            if self.nullable(p):
                raise NotEncodable("nullable loop body")
            # a repeat that cannot be exhausted inside the bound behaves like an unbounded one: encode it as a
            # cycle (sound for the memoised semantics because the body is not nullable: every turn consumes >= 1
            # character); smaller counted repeats are unrolled.
            lo_eff = min(lo, self.N + 1)
            unbounded = hi is _k.MAXREPEAT or hi > self.N
            if unbounded:
                loop = n.new(Nfa.SPLIT)
                body = self.seq(p, flags, loop)
                n.loops.append({"state": loop, "body": body, "rule": getattr(self, "current_rule", None), "greedy": greedy,
                                "min": lo, "max": None if hi is _k.MAXREPEAT else hi})
                if greedy:
                    n.a[loop], n.b[loop] = body, nxt
                else:
                    n.a[loop], n.b[loop] = nxt, body
                cur = loop
            else:
                cur = nxt
                for _ in range(hi - lo_eff):
                    body = self.seq(p, flags, cur)
                    cur = n.new(Nfa.SPLIT, a=body, b=nxt) if greedy else n.new(Nfa.SPLIT, a=nxt, b=body)
            for _ in range(lo_eff):
                cur = self.seq(p, flags, cur)
            return cur
        if op in (_k.ASSERT, _k.ASSERT_NOT):
            direction, p = av
            neg = op is _k.ASSERT_NOT
            if direction >= 0:
                m = n.new(Nfa.MATCH)
                sub = self.seq(p, flags, m)
                return n.new(Nfa.LOOK, a=nxt, b=sub, neg=neg)
            cls = self.single_class(p, flags)
            if cls is None:
                raise NotEncodable("look-behind wider than one character class")
            n.uses_prev = True
            return n.new(Nfa.BEHIND, a=nxt, cls=cls, neg=neg)
        if op is _k.AT:
            if av in (_k.AT_BOUNDARY, _k.AT_NON_BOUNDARY):
                if flags & re.LOCALE:
                    raise NotEncodable("locale dependent \\b")
                w = self.leaf((_k.IN, [(_k.CATEGORY, _k.CATEGORY_WORD)]), flags)
                n.uses_prev = True
                return n.new(Nfa.BOUND, a=nxt, cls=w, neg=av is _k.AT_NON_BOUNDARY)
            if av is _k.AT_BEGINNING_STRING or (av is _k.AT_BEGINNING and not flags & re.MULTILINE):
                n.uses_prev = True
                return n.new(Nfa.BEGIN, a=nxt)
            nl = self.alphabet.idx("\n")
            if av is _k.AT_END_STRING:
                return n.new(Nfa.END, a=nxt, cls=frozenset())
            if av is _k.AT_END:
                return n.new(Nfa.END, a=nxt, cls=nl, neg=bool(flags & re.MULTILINE))
            raise NotEncodable(f"anchor {av} is not supported")
        raise NotEncodable(f"regex construct {op} is not supported")


def compile_rules(pattern: str, flags: int, alphabet: Alphabet, N: int) -> Tuple[Nfa, List[Tuple[str, int]]]:
    """Master pattern of a SLY lexer -> (nfa, [(rule name, entry state)]) in priority order."""
    parsed = _parse(pattern, flags)
    state = parsed.state
    fl = state.flags
    if fl & re.LOCALE:
        raise NotEncodable("LOCALE flag")
    names = {v: k for k, v in state.groupdict.items()}
    if len(parsed) == 1 and parsed[0][0] is _k.BRANCH:
        alts = parsed[0][1][1]
    else:
        alts = [parsed]
    b = _Builder(alphabet, N)
    rules: List[Tuple[str, int]] = []
    for alt in alts:
        alt = list(alt)
        if len(alt) != 1 or alt[0][0] is not _k.SUBPATTERN or alt[0][1][0] not in names:
            raise NotEncodable("a top-level alternative of the master pattern is not one named group "
                               "(the regex parser factored the alternatives, or this is not a SLY master pattern)")
        gid, add, dele, p = alt[0][1]
        m = b.nfa.new(Nfa.MATCH)
        b.current_rule = names[gid]
        entry = b.seq(p, (fl | add) & ~dele, m)
        rules.append((names[gid], entry))
    return b.nfa, rules


def compile_ref(pattern: str, flags: int, alphabet: Alphabet, N: int) -> Tuple[Nfa, int]:
    parsed = _parse(pattern, flags)
    b = _Builder(alphabet, N)
    m = b.nfa.new(Nfa.MATCH)
    e = b.seq(parsed, parsed.state.flags, m)
    return b.nfa, e


# --------------------------------------------------------------------------------------------------
# concrete interpreter of the NFA (fast translator validation of the regex -> NFA step)
# --------------------------------------------------------------------------------------------------
def nfa_run(nfa: Nfa, entry: int, text_idx: Sequence[int], prev: Optional[int] = None) -> int:
    L = len(text_idx)
    memo: Dict[Tuple[int, int], int] = {}

    def run(s: int, i: int) -> int:
        key = (s, i)
        if key in memo:
            return memo[key]
        k = nfa.kind[s]
        if k == Nfa.MATCH:
            r = i
        elif k == Nfa.CHAR:
            r = run(nfa.a[s], i + 1) if i < L and text_idx[i] in nfa.cls[s] else FAIL
        elif k == Nfa.SPLIT:
            r = run(nfa.a[s], i)
            if r == FAIL:
                r = run(nfa.b[s], i)
        elif k == Nfa.LOOK:
            ok = run(nfa.b[s], i) != FAIL
            r = run(nfa.a[s], i) if ok != nfa.neg[s] else FAIL
        elif k == Nfa.BEHIND:
            p = text_idx[i - 1] if i > 0 else prev
            ok = p is not None and p in nfa.cls[s]
            r = run(nfa.a[s], i) if ok != nfa.neg[s] else FAIL
        elif k == Nfa.BOUND:
            p = text_idx[i - 1] if i > 0 else prev
            wl = p is not None and p in nfa.cls[s]
            wr = i < L and text_idx[i] in nfa.cls[s]
            ok = wl != wr
            r = run(nfa.a[s], i) if ok != nfa.neg[s] else FAIL
        elif k == Nfa.BEGIN:
            r = run(nfa.a[s], i) if (i == 0 and prev is None) else FAIL
        elif k == Nfa.END:
            ok = i == L or (i < L and text_idx[i] in nfa.cls[s] and (nfa.neg[s] or i == L - 1))
            r = run(nfa.a[s], i) if ok else FAIL
        else:  # pragma: no cover
            raise AssertionError(k)
        memo[key] = r
        return r

    return run(entry, 0)


# --------------------------------------------------------------------------------------------------
# the circuit
# --------------------------------------------------------------------------------------------------
class Engine:
    """NFA of one lexer spec for one bound N over one alphabet; factory of symbolic texts."""

    def __init__(self, spec: LexSpec, N: int, alphabet: Alphabet):
        sys.setrecursionlimit(max(sys.getrecursionlimit(), 20000))
        self.spec = spec
        self.N = N
        self.alphabet = alphabet
        t0 = time.time()
        if N > 120:
            raise NotEncodable("bound above 120 (positions are 8-bit signed)")
        self.nfa, self.rules = compile_rules(spec.pattern, spec.flags, alphabet, N)
        self.names = [r[0] for r in self.rules]
        # remapping targets that are not rule names get kind indexes after the rules
        self.kinds: List[str] = list(self.names)
        for src, mp_ in spec.remapping.items():
            for val, tgt in mp_.items():
                if not isinstance(val, str) or not isinstance(tgt, str):
                    raise NotEncodable("non-string token remapping")
                if any(ch not in alphabet.index for ch in val):
                    raise NotEncodable("remapped lexeme outside the alphabet")
                if tgt not in self.kinds:
                    self.kinds.append(tgt)
        self.lit_idx = alphabet.idx(ch for ch in spec.literals if ch in alphabet.index)
        if any(ch not in alphabet.index for ch in spec.literals):
            raise NotEncodable("non-ASCII literal character")
        if any(ch not in alphabet.index for ch in spec.ignore):
            raise NotEncodable("non-ASCII ignore character")
        self.ign_idx = alphabet.idx(spec.ignore)
        self.uses_prev = self.nfa.uses_prev
        self.refs: Dict[Tuple[str, int], Tuple[Nfa, int]] = {}
        self.build_s = time.time() - t0

    def kind_index(self, name: str) -> int:
        if name not in self.kinds:
            raise NotEncodable(f"the live lexer has no token kind {name!r}")
        return self.kinds.index(name)

    def kind_name(self, k: int) -> str:
        return SPECIAL_KIND[k] if k < 0 else self.kinds[k]

    def ref(self, pattern: str, flags: int = re.I | re.A) -> Tuple[Nfa, int]:
        key = (pattern, flags)
        if key not in self.refs:
            self.refs[key] = compile_ref(pattern, flags, self.alphabet, self.N)
        return self.refs[key]

    def text(self, prefix: str = "c") -> "SymText":
        return SymText(self, prefix)

    # concrete evaluation through the python interpreter of the NFA
    def py_lex1(self, text: str, prev: str = "") -> Tuple[str, int]:
        if text == "":
            return ("EOF", 0)
        if text[0] in self.spec.ignore:
            return ("IGNORE", 1)
        ix = [self.alphabet.index[ch] for ch in text]
        pv = self.alphabet.index[prev] if prev else None
        for name, entry in self.rules:
            e = nfa_run(self.nfa, entry, ix, pv)
            if e != FAIL:
                name = self.spec.remapping.get(name, {}).get(text[:e], name)
                return (name, e)
        if ix[0] in self.lit_idx:
            return ("LITERAL", 1)
        return ("ERROR", -1)


class SymText:
    """N symbolic characters (8-bit indexes into the alphabet), a symbolic length, a symbolic previous char."""

    def __init__(self, eng: Engine, prefix: str = "c"):
        self.eng = eng
        self.N = eng.N
        self.alphabet = eng.alphabet
        A = len(eng.alphabet)
        self.c = [z3.BitVec(f"{prefix}{i}", 8) for i in range(self.N)]
        self.L = pos_var(prefix + "_len")
        self.prev = z3.BitVec(prefix + "_prev", 8)
        self.has_prev = z3.Bool(prefix + "_hasprev")
        self.base = [z3.ULT(ci, A) for ci in self.c] + [self.L >= 0, self.L <= self.N, z3.ULT(self.prev, A)]
        if not eng.uses_prev:
            self.base.append(z3.Not(self.has_prev))
        self._run: Dict[Tuple[int, int, int], Any] = {}
        self._cls: Dict[Tuple[int, FrozenSet[int]], Any] = {}
        self._mem: Dict[Tuple[int, int, int, int], Any] = {}
        self._lex1: Optional[Tuple[Any, Any]] = None
        self._keep: List[Any] = []

    # ---- character class membership as OR-ed index ranges
    def _ranges(self, v, cls: FrozenSet[int]):
        if not cls:
            return z3.BoolVal(False)
        idx = sorted(cls)
        rs: List[List[int]] = []
        for k in idx:
            if rs and rs[-1][1] == k - 1:
                rs[-1][1] = k
            else:
                rs.append([k, k])
        return z3.Or([v == a if a == b else z3.And(z3.UGE(v, a), z3.ULE(v, b)) for a, b in rs])

    def incls(self, i: int, cls: FrozenSet[int]):
        """c[i] in cls (no length test)."""
        key = (i, cls)
        if key not in self._cls:
            self._cls[key] = self._ranges(self.c[i], cls)
        return self._cls[key]

    def at(self, i: int, cls: FrozenSet[int]):
        """position i exists and c[i] in cls."""
        if i >= self.N:
            return z3.BoolVal(False)
        return z3.And(self.L > i, self.incls(i, cls))

    def _left(self, i: int, cls: FrozenSet[int]):
        if i > 0:
            return self.incls(i - 1, cls)
        return z3.And(self.has_prev, self._ranges(self.prev, cls))

    # ---- matcher semantics
    def run(self, nfa: Nfa, s: int, i: int):
        key = (id(nfa), s, i)
        r = self._run.get(key)
        if r is not None:
            return r
        k = nfa.kind[s]
        fail = pos_val(FAIL)
        if k == Nfa.MATCH:
            r = pos_val(i)
        elif k == Nfa.CHAR:
            if i >= self.N:
                r = fail
            else:
                r = z3.If(z3.And(self.L > i, self.incls(i, nfa.cls[s])), self.run(nfa, nfa.a[s], i + 1), fail)
        elif k == Nfa.SPLIT:
            a = self.run(nfa, nfa.a[s], i)
            b = self.run(nfa, nfa.b[s], i)
            r = z3.If(a != FAIL, a, b)
        elif k == Nfa.LOOK:
            ok = self.run(nfa, nfa.b[s], i) != FAIL
            cond = z3.Not(ok) if nfa.neg[s] else ok
            r = z3.If(cond, self.run(nfa, nfa.a[s], i), fail)
        elif k == Nfa.BEHIND:
            ok = self._left(i, nfa.cls[s])
            cond = z3.Not(ok) if nfa.neg[s] else ok
            r = z3.If(cond, self.run(nfa, nfa.a[s], i), fail)
        elif k == Nfa.BOUND:
            ok = z3.Xor(self._left(i, nfa.cls[s]), self.at(i, nfa.cls[s]))
            cond = z3.Not(ok) if nfa.neg[s] else ok
            r = z3.If(cond, self.run(nfa, nfa.a[s], i), fail)
        elif k == Nfa.BEGIN:
            r = z3.If(z3.Not(self.has_prev), self.run(nfa, nfa.a[s], i), fail) if i == 0 else fail
        elif k == Nfa.END:
            alts = [self.L == i]
            if nfa.cls[s] and i < self.N:
                alts.append(z3.And(self.L > i if nfa.neg[s] else self.L == i + 1, self.incls(i, nfa.cls[s])))
            r = z3.If(z3.Or(alts), self.run(nfa, nfa.a[s], i), fail)
        else:  # pragma: no cover
            raise AssertionError(k)
        self._run[key] = r
        return r

    def member(self, ref: Tuple[Nfa, int], S, start: int = 0):
        """Bool: the reference NFA can consume exactly c[start:S) (S a z3 Int; requires S <= L separately)."""
        nfa, entry = ref
        sid = S.get_id()
        self._keep.append(S)

        def go(s: int, i: int):
            key = (id(nfa), sid, s, i)
            r = self._mem.get(key)
            if r is not None:
                return r
            k = nfa.kind[s]
            if k == Nfa.MATCH:
                r = S == i
            elif k == Nfa.CHAR:
                r = z3.BoolVal(False) if i >= self.N else z3.And(S > i, self.incls(i, nfa.cls[s]), go(nfa.a[s], i + 1))
            elif k == Nfa.SPLIT:
                r = z3.Or(go(nfa.a[s], i), go(nfa.b[s], i))
            else:
                raise NotEncodable("zero-width assertions are not supported in reference patterns")
            self._mem[key] = r
            return r

        return go(entry, start)

    def loop_paths(self, nfa: Nfa, loop: int, body: int, K) -> Tuple[Any, Any]:
        """(at least one, at least two) distinct NFA paths that start with an iteration of the loop at position 0 and are
        back at the loop head exactly at position K, having consumed c[0:K) in one *or several* iterations.
        Language-level semantics: priorities are ignored, zero-width assertions count as epsilon (over-approximation;
        a reported ambiguity is confirmed or refuted by timing the real matcher).  Two such paths over the same string
        are the classical criterion for exponential backtracking (EDA)."""
        memo: Dict[Tuple[int, int], Tuple[Any, Any]] = {}
        F = z3.BoolVal(False)

        def go(s: int, i: int) -> Tuple[Any, Any]:
            key = (s, i)
            r = memo.get(key)
            if r is not None:
                return r
            k = nfa.kind[s]
            if s == loop:
                if i == 0:
                    r = go(body, 0)
                elif i >= self.N:
                    r = (K == i, F)
                else:
                    b1, b2 = go(body, i)          # stop here (i == K) or start another iteration (i < K): exclusive
                    r = (z3.Or(K == i, z3.And(K > i, b1)), z3.And(K > i, b2))
            elif k == Nfa.MATCH:
                r = (F, F)
            elif k == Nfa.CHAR:
                if i >= self.N:
                    r = (F, F)
                else:
                    n1, n2 = go(nfa.a[s], i + 1)
                    ok = z3.And(K > i, self.incls(i, nfa.cls[s]))
                    r = (z3.And(ok, n1), z3.And(ok, n2))
            elif k == Nfa.SPLIT:
                a1, a2 = go(nfa.a[s], i)
                b1, b2 = go(nfa.b[s], i)
                r = (z3.Or(a1, b1), z3.Or(a2, b2, z3.And(a1, b1)))
            else:   # LOOK / BEHIND / BOUND / BEGIN / END: epsilon
                r = go(nfa.a[s], i)
            memo[key] = r
            return r

        return go(loop, 0)

    def lex1(self) -> Tuple[Any, Any]:
        """(kind, end) of one step of SLY's tokenize loop at position 0 of this text."""
        if self._lex1 is not None:
            return self._lex1
        eng = self.eng
        kind = pos_val(K_ERROR)
        end = pos_val(FAIL)
        if eng.lit_idx:
            islit = self.incls(0, eng.lit_idx) if self.N > 0 else z3.BoolVal(False)
            kind = z3.If(islit, pos_val(K_LITERAL), kind)
            end = z3.If(islit, pos_val(1), end)
        for idx in reversed(range(len(eng.rules))):
            name, entry = eng.rules[idx]
            e = self.run(eng.nfa, entry, 0)
            k: Any = pos_val(idx)
            for val, tgt in eng.spec.remapping.get(name, {}).items():
                if len(val) > self.N:
                    continue
                same = z3.And(e == len(val), *[self.c[j] == eng.alphabet.index[ch] for j, ch in enumerate(val)])
                k = z3.If(same, pos_val(eng.kind_index(tgt)), k)
            kind = z3.If(e != FAIL, k, kind)
            end = z3.If(e != FAIL, e, end)
        if eng.ign_idx and self.N > 0:
            ign = self.incls(0, eng.ign_idx)
            kind = z3.If(ign, pos_val(K_IGNORE), kind)
            end = z3.If(ign, pos_val(1), end)
        kind = z3.If(self.L == 0, pos_val(K_EOF), kind)
        end = z3.If(self.L == 0, pos_val(0), end)
        self._lex1 = (kind, end)
        return self._lex1

    def rule_end(self, name: str):
        """End position of rule `name` tried alone at position 0 (FAIL = -1), ignoring rule priority."""
        eng = self.eng
        if name not in eng.names:
            raise NotEncodable(f"the live lexer has no token rule {name!r}")
        return self.run(eng.nfa, eng.rules[eng.names.index(name)][1], 0)

    # ---- helpers for building queries
    def is_text(self, s: str, start: int = 0, fold_ascii: bool = False):
        """c[start:start+len(s)) spells s (optionally up to ASCII case)."""
        out = []
        ix = self.alphabet.index
        for j, ch in enumerate(s):
            if start + j >= self.N:
                return z3.BoolVal(False)
            if fold_ascii and ch.isascii() and ch.isalpha():
                out.append(z3.Or(self.c[start + j] == ix[ch.lower()], self.c[start + j] == ix[ch.upper()]))
            else:
                out.append(self.c[start + j] == ix[ch])
        return z3.And(out) if out else z3.BoolVal(True)

    def delim_after(self, S, delims: FrozenSet[int], allow_end: bool = True, lo: int = 0):
        """position S is the end of the text, or holds a character of `delims` (S symbolic, lo <= S <= N)."""
        conds = []
        for j in range(lo, self.N + 1):
            alts = []
            if allow_end:
                alts.append(self.L == j)
            if j < self.N and delims:
                alts.append(self.at(j, delims))
            if alts:
                conds.append(z3.And(S == j, z3.Or(alts)))
        return z3.Or(conds) if conds else z3.BoolVal(False)

    def fix(self, text: str, prev: str = "") -> List[Any]:
        ix = self.alphabet.index
        cs = [self.L == len(text)] + [self.c[i] == ix[ch] for i, ch in enumerate(text)]
        if prev:
            cs += [self.has_prev, self.prev == ix[prev]]
        else:
            cs.append(z3.Not(self.has_prev))
        return cs

    def string_of(self, model) -> str:
        L = pos_of(model.eval(self.L, model_completion=True))
        return "".join(self.alphabet.chars[model.eval(ci, model_completion=True).as_long()] for ci in self.c[:L])

    def prev_of(self, model) -> str:
        if not self.eng.uses_prev:
            return ""
        if not z3.is_true(model.eval(self.has_prev, model_completion=True)):
            return ""
        return self.alphabet.chars[model.eval(self.prev, model_completion=True).as_long()]

    def eval_lex1(self, model) -> Tuple[str, int]:
        kind, end = self.lex1()
        k = pos_of(model.eval(kind, model_completion=True))
        e = pos_of(model.eval(end, model_completion=True))
        return (self.eng.kind_name(k), e)

    def concrete_lex1(self, text: str, prev: str = "") -> Tuple[str, int]:
        """Evaluate the z3 terms of lex1 on a concrete text (translator validation of the NFA -> z3 step)."""
        s = z3.Solver()
        s.add(self.fix(text, prev))
        if s.check() != z3.sat:  # pragma: no cover
            raise AssertionError("cannot fix a concrete text")
        return self.eval_lex1(s.model())


# --------------------------------------------------------------------------------------------------
# translator validation
# --------------------------------------------------------------------------------------------------
def harvest_strings(tests_dir: str) -> List[str]:
    """Every string constant of the repo's test files (python tokenizer; f-strings and bytes skipped)."""
    out: List[str] = []
    seen = set()
    for root, _dirs, files in os.walk(tests_dir):
        for fn in sorted(files):
            if not fn.endswith(".py"):
                continue
            try:
                src = open(os.path.join(root, fn), "rb").read()
                for tok in _pytok.tokenize(io.BytesIO(src).readline):
                    if tok.type != _pytok.STRING:
                        continue
                    try:
                        v = _pyast.literal_eval(tok.string)
                    except Exception:  # noqa: BLE001
                        continue
                    if isinstance(v, str) and v and v not in seen:
                        seen.add(v)
                        out.append(v)
            except Exception:  # noqa: BLE001
                continue
    return out


def lex1_samples(spec: LexSpec, strings: Iterable[str], N: int, alphabet: Alphabet) -> List[str]:
    """Windows of length <= N starting at every real token boundary of every string (plus 1-char shifts)."""
    out: List[str] = []
    seen = set()
    for s in strings:
        pos = 0
        steps = 0
        while pos < len(s) and steps < 200:
            steps += 1
            for w in (s[pos:pos + N], s[pos + 1:pos + 1 + N]):
                if w and w not in seen and all(ch in alphabet.index for ch in w):
                    seen.add(w)
                    out.append(w)
            k, e = spec.real_lex1(s[pos:])
            pos += e if e > 0 else 1
    return out


@dataclass
class Validation:
    checked_nfa: int = 0
    checked_z3: int = 0
    mismatches: List[dict] = field(default_factory=list)
    seconds: float = 0.0


def validate(eng: Engine, txt: SymText, samples: Sequence[str], z3_cap: int, seed: int = 0) -> Validation:
    """Circuit vs the real regex object on concrete strings.  All samples go through the python interpreter
    of the NFA; a kind-stratified subset of at most `z3_cap` goes through the z3 terms."""
    t0 = time.time()
    v = Validation()
    spec = eng.spec
    by_kind: Dict[str, List[str]] = {}
    for s in samples:
        if len(s) > eng.N:
            continue
        real = spec.real_lex1(s)
        got = eng.py_lex1(s)
        v.checked_nfa += 1
        if got != real:
            v.mismatches.append({"text": s, "stage": "regex->nfa", "circuit": got, "real": real})
        by_kind.setdefault(real[0], []).append(s)
    import random
    rnd = random.Random(seed)
    chosen: List[str] = []
    pools = [list(p) for p in by_kind.values()]
    for p in pools:
        rnd.shuffle(p)
    while len(chosen) < z3_cap and any(pools):
        for p in pools:
            if p and len(chosen) < z3_cap:
                chosen.append(p.pop())
    for s in chosen:
        real = spec.real_lex1(s)
        got = txt.concrete_lex1(s)
        v.checked_z3 += 1
        if got != real:
            v.mismatches.append({"text": s, "stage": "nfa->z3", "circuit": got, "real": real})
    v.seconds = time.time() - t0
    return v


# --------------------------------------------------------------------------------------------------
# queries, decided in forked worker processes
# --------------------------------------------------------------------------------------------------
@dataclass
class Query:
    """One obligation:  forall text. (pre => goal)   decided as   sat?(pre and not goal)."""
    name: str
    pre: List[Any]            # z3 Bools: antecedent (must be satisfiable on its own: vacuity check)
    neg: List[Any]            # z3 Bools: negated consequent
    texts: Dict[str, SymText]  # symbolic texts whose concrete value goes into the witness
    ints: Dict[str, Any] = field(default_factory=dict)  # extra integer terms to report (e.g. S)
    minimise: Optional[Any] = None   # z3 Int to shrink once a model is found (usually the text length)
    family: str = ""
    meta: dict = field(default_factory=dict)


@dataclass
class Outcome:
    name: str
    status: str               # 'unsat' | 'sat' | 'unknown' | 'vacuous' | 'error'
    seconds: float = 0.0
    witness: Optional[dict] = None   # {'texts': {tag: {'text','prev','circuit_lex1'}}, 'ints': {...}}
    reason: str = ""
    family: str = ""
    meta: dict = field(default_factory=dict)


def _solve(constraints: Sequence[Any], timeout_s: float):
    """One-shot solver per check(): z3's incremental mode (several check() calls on one solver) skips the
    preprocessing that makes these queries easy (measured: 3.9 s one-shot vs > 60 s incremental)."""
    s = z3.Solver()
    s.set("timeout", max(1000, int(timeout_s * 1000)))
    s.add(*constraints)
    r = s.check()
    return r, s


def decide(q: Query, timeout_s: float, vacuity: bool = True) -> Outcome:
    t0 = time.time()
    base: List[Any] = []
    for t in q.texts.values():
        base += t.base
    base += list(q.pre)
    if vacuity:
        r, s = _solve(base, timeout_s)
        if r == z3.unsat:
            return Outcome(q.name, "vacuous", time.time() - t0, reason="antecedent unsatisfiable", family=q.family, meta=q.meta)
        if r != z3.sat:
            return Outcome(q.name, "unknown", time.time() - t0, reason="vacuity check: " + s.reason_unknown(), family=q.family, meta=q.meta)
    full = base + list(q.neg)
    r, s = _solve(full, max(1.0, timeout_s - (time.time() - t0)))
    if r == z3.unsat:
        return Outcome(q.name, "unsat", time.time() - t0, family=q.family, meta=q.meta)
    if r != z3.sat:
        return Outcome(q.name, "unknown", time.time() - t0, reason=s.reason_unknown(), family=q.family, meta=q.meta)
    m = s.model()
    if q.minimise is not None:
        budget = time.time() + min(20.0, timeout_s)
        lo = 0
        cur = pos_of(m.eval(q.minimise, model_completion=True))
        # binary search on the minimised term; every probe is a one-shot query, an inconclusive probe ends the search
        while lo < cur and time.time() < budget:
            mid = (lo + cur - 1) // 2
            r2, s2 = _solve(full + [q.minimise <= mid], min(10.0, timeout_s))
            if r2 == z3.sat:
                m = s2.model()
                cur = pos_of(m.eval(q.minimise, model_completion=True))
            elif r2 == z3.unsat:
                lo = mid + 1
            else:
                break
    wit = {"texts": {}, "ints": {}}
    for tag, t in q.texts.items():
        wit["texts"][tag] = {"text": t.string_of(m), "prev": t.prev_of(m), "circuit_lex1": list(t.eval_lex1(m))}
    for tag, term in q.ints.items():
        wit["ints"][tag] = pos_of(m.eval(term, model_completion=True))
    return Outcome(q.name, "sat", time.time() - t0, witness=wit, family=q.family, meta=q.meta)


def _child(conn, build: Callable[[], Query], timeout_s: float, vacuity: bool):
    try:
        q = build()
        conn.send(decide(q, timeout_s, vacuity))
    except NotEncodable as e:
        conn.send(Outcome("?", "notencodable", reason=str(e)))
    except BaseException as e:  # noqa: BLE001
        conn.send(Outcome("?", "error", reason="".join(traceback.format_exception(type(e), e, e.__traceback__))[-1500:]))
    finally:
        conn.close()


class Pool:
    """Fork one process per query (the engines and symbolic texts built in the parent are inherited
    copy-on-write); at most `workers` at a time; hard kill after 1.5 x timeout + 20 s."""

    def __init__(self, workers: Optional[int] = None):
        self.workers = workers or int(os.environ.get("VERIF_WORKERS", "0")) or min(16, os.cpu_count() or 4)
        self.ctx = mp.get_context("fork")
        self.running: Dict[Any, Tuple[Any, Any, float, float, str]] = {}
        self.queue: List[Tuple[Any, Callable[[], Query], float, bool, str]] = []

    def submit(self, key: Any, build: Callable[[], Query], timeout_s: float, vacuity: bool = True, name: str = "") -> None:
        self.queue.append((key, build, timeout_s, vacuity, name or str(key)))

    def _start(self) -> None:
        while self.queue and len(self.running) < self.workers:
            key, build, timeout_s, vac, name = self.queue.pop(0)
            pc, cc = self.ctx.Pipe(duplex=False)
            p = self.ctx.Process(target=_child, args=(cc, build, timeout_s, vac))
            p.start()
            cc.close()
            self.running[key] = (p, pc, time.time(), timeout_s, name)

    def busy(self) -> bool:
        return bool(self.queue or self.running)

    def poll(self) -> List[Tuple[Any, Outcome]]:
        """Outcomes that became available (blocks briefly when nothing finished)."""
        self._start()
        done: List[Tuple[Any, Outcome]] = []
        for key, (p, pc, t0, to, name) in list(self.running.items()):
            out: Optional[Outcome] = None
            if pc.poll(0):
                try:
                    out = pc.recv()
                except EOFError:
                    out = Outcome(name, "error", time.time() - t0, reason="worker died")
                p.join(5)
            elif not p.is_alive():
                p.join()
                if pc.poll(0.2):    # the result may have arrived between the two tests above
                    try:
                        out = pc.recv()
                    except EOFError:
                        out = None
                if out is None:
                    out = Outcome(name, "error", time.time() - t0, reason=f"worker exited with {p.exitcode}")
            elif time.time() - t0 > to * 1.5 + 20:
                p.kill()
                p.join()
                out = Outcome(name, "unknown", time.time() - t0, reason="hard timeout")
            if out is not None:
                if out.name == "?":
                    out.name = name
                self.running.pop(key)
                done.append((key, out))
        if not done and self.busy():
            time.sleep(0.02)
        self._start()
        return done

    def drain(self) -> Iterable[Tuple[Any, Outcome]]:
        while self.busy():
            for item in self.poll():
                yield item


# --------------------------------------------------------------------------------------------------
# a checking session: live spec -> alphabet -> engines per bound, translator validation, obligation driver
# --------------------------------------------------------------------------------------------------
REF_FLAGS = re.I | re.A
REGION_FLAGS = re.I | re.A | re.S


@dataclass
class Region:
    """A named set of lexemes (regex over the complete lexeme s) that a finding covers.

    Known findings are selected by `id` in known_findings.json; the region is conjoined negatively to the
    solver query once a reproduced counterexample fell into it, so that a different violation is still found."""
    id: str
    pattern: str
    what: str
    flags: int = REGION_FLAGS

    def contains(self, s: str) -> bool:
        return re.fullmatch(self.pattern, s, self.flags) is not None


@dataclass
class Obligation:
    name: str
    family: str
    N: int
    build: Callable[["SymText", List[Region]], Query]
    replay: Callable[[dict], dict]
    regions: List[Region] = field(default_factory=list)
    informational: bool = False
    timeout: Optional[float] = None
    max_rounds: Optional[int] = None
    lexeme_of: Optional[Callable[[dict], str]] = None   # witness -> the string regions are tested on


class Session:
    def __init__(self, run, bounds: Iterable[int], ref_patterns: Iterable[Tuple[str, int]] = (),
                 spec: Optional[LexSpec] = None, prefix: str = "c"):
        self.run = run
        self.spec = spec or LexSpec.live()
        pats = [(self.spec.pattern, self.spec.flags)] + list(ref_patterns)
        self.alphabet = Alphabet(pats)
        self.engines: Dict[int, Engine] = {}
        self.texts: Dict[int, SymText] = {}
        self.build_s = self.alphabet.build_s
        for N in sorted(set(bounds)):
            t0 = time.time()
            eng = Engine(self.spec, N, self.alphabet)
            txt = eng.text(prefix)
            txt.lex1()
            self.engines[N] = eng
            self.texts[N] = txt
            self.build_s += time.time() - t0
        self.validation: Dict[int, Validation] = {}
        self.witnesses_checked = 0

    # ---- evidence
    def describe(self) -> dict:
        e0 = next(iter(self.engines.values()))
        return {
            "lexer": self.spec.origin,
            "master_pattern_chars": len(self.spec.pattern),
            "regex_flags": self.spec.flags,
            "rules": len(e0.rules),
            "nfa_states": {str(N): len(e.nfa) for N, e in self.engines.items()},
            "alphabet_size": len(self.alphabet),
            "alphabet": "ASCII 0-127 + " + " ".join(f"U+{ord(c):04X}" for c in self.alphabet.chars[128:]),
            "nonascii_behaviour_classes": self.alphabet.nonascii_classes,
            "alphabet_representatives_added_automatically": [f"U+{ord(c):04X}" for c in self.alphabet.auto_added],
            "uses_previous_character": e0.uses_prev,
            "literals": sorted(self.spec.literals),
            "build_s": round(self.build_s, 2),
        }

    def fill(self, run) -> None:
        run.encode("odata_query.grammar.ODataLexer._master_re (pattern + flags, every token rule)",
                   "odata_query.grammar.ODataLexer.literals", "odata_query.grammar.ODataLexer.ignore",
                   "odata_query.grammar.ODataLexer._remapping",
                   "sly.lex.Lexer.tokenize (loop body: ignore / master match / literals / error) as lex1")
        run.extra["rexcirc"] = self.describe()
        a = ("characters outside the working alphabet are represented by the alphabet member that every leaf "
             "character class of the encoded patterns treats identically (partition computed over all of Unicode "
             "with the real re engine on this run)")
        if a not in run.assumptions:
            run.assumptions.append(a)
            run.assumptions.append("token actions do not switch lexer states (SLY begin/push_state) and do not move "
                                   "`index`: lex1 is then stateless and one symbolic step from an arbitrary suffix is an "
                                   "inductive step for the whole scan")

    # ---- translator validation on the repo's own strings
    def validate(self, run, tests_dir: str, z3_cap: int, extra: Iterable[str] = ()) -> bool:
        strings = harvest_strings(tests_dir) + list(extra)
        ok = True
        info = {}
        # the circuit models the master regex; if a token action re-types or drops tokens (so that the public tokenizer
        # disagrees with the loop model) the lexer is outside the encodable fragment: exit 2, not a harness error
        n0 = min(self.engines)
        for smp in lex1_samples(self.spec, strings, n0, self.alphabet):
            real = self.spec.real_lex1(smp)
            tok = self.spec.tokenize_first(smp)
            if tok is not None and real[0] not in ("EOF", "IGNORE") and tok != real:
                raise NotEncodable(f"the public tokenizer yields {tok} where the master regex yields {real} on {smp!r}: "
                                   "a token action changes token types / extents, which the regex circuit does not model")
        for N, eng in self.engines.items():
            samples = lex1_samples(self.spec, strings, N, self.alphabet)
            v = validate(eng, self.texts[N], samples, z3_cap, seed=run.seed)
            self.validation[N] = v
            info[str(N)] = {"strings_harvested": len(strings), "lex1_samples": v.checked_nfa,
                            "through_z3_terms": v.checked_z3, "mismatches": len(v.mismatches), "seconds": round(v.seconds, 2)}
            run.traces_validated += v.checked_nfa
            if v.checked_nfa == 0:
                ok = False
                run.harness_error(f"translator-validation:N={N}", "translator-validation", "no strings harvested from the repo's tests")
            for m in v.mismatches[:5]:
                ok = False
                run.harness_error(f"translator-validation:N={N}:{m['text']!r}", "translator-validation", m)
        run.extra["translator_validation"] = info
        return ok

    # ---- checking one solver witness against the real lexer
    def check_lex1(self, wtext: dict) -> Tuple[bool, Tuple[str, int], str]:
        """(consistent?, real (kind, end), explanation).  Circuit value vs regex object vs public tokenizer."""
        text, prev = wtext["text"], wtext.get("prev", "")
        real = self.spec.real_lex1(text, prev)
        self.witnesses_checked += 1
        if list(real) != list(wtext["circuit_lex1"]):
            return False, real, f"circuit says {wtext['circuit_lex1']} but _master_re gives {list(real)} on {text!r}"
        tok = self.spec.tokenize_first(text, prev)
        if tok is not None and real[0] not in ("EOF", "IGNORE") and tok != real:
            return False, real, f"tokenize() gives {tok} but the loop model gives {real} on {text!r}"
        return True, real, ""

    # ---- the obligation driver (regions, known findings, informational families)
    def drive(self, obligations: Sequence[Obligation], timeout: float, max_rounds: int = 5,
              workers: Optional[int] = None, progress: bool = False) -> None:
        run = self.run
        pool = Pool(workers)
        state: Dict[str, dict] = {}
        for ob in obligations:
            state[ob.name] = {"ob": ob, "excl": [], "round": 0, "spent": 0.0, "hits": []}
            self._submit(pool, ob, [], timeout)
        for key, out in pool.drain():
            st = state[key]
            ob: Obligation = st["ob"]
            st["spent"] += out.seconds
            st["round"] += 1
            excl_ids = [r.id for r in st["excl"]]
            oname = ob.name if not excl_ids else ob.name + "#outside:" + ",".join(excl_ids)
            if progress:
                print(f"    {oname}: {out.status} {out.seconds:.1f}s {out.reason[:80]}", flush=True)
            if out.status == "unsat":
                run.discharged(oname, ob.family, out.seconds, detail={"excluded_regions": excl_ids} if excl_ids else None)
            elif out.status == "vacuous" and excl_ids:
                # nothing of this obligation's domain lies outside the regions of the findings already reported
                run.notes.append(f"{ob.name}: the whole quantifier domain is covered by the reported regions {excl_ids}")
            elif out.status in ("unknown", "vacuous", "notencodable"):
                run.inconclusive(oname, ob.family, {"solver": out.status, "reason": out.reason}, out.seconds)
            elif out.status == "error":
                run.harness_error(oname, ob.family, out.reason, out.seconds)
            else:
                try:
                    rep = ob.replay(out.witness)
                except Exception as e:  # noqa: BLE001
                    rep = {"consistent": False, "why": f"replay raised {e!r}"}
                if not rep.get("consistent"):
                    run.harness_error(oname, ob.family, {"witness": out.witness, "why": rep.get("why")}, out.seconds)
                    continue
                if rep.get("inconclusive"):
                    run.inconclusive(oname, ob.family, {"witness": out.witness, "why": rep.get("why") or rep.get("what")}, out.seconds)
                    continue
                if not rep.get("reproduced"):
                    run.harness_error(oname, ob.family, {"witness": out.witness, "why": "the solver witness does not "
                                                         "reproduce on the real lexer: " + str(rep.get("what"))}, out.seconds)
                    continue
                lexeme = rep.get("lexeme", "")
                region = next((r for r in ob.regions if r not in st["excl"] and r.contains(lexeme)), None)
                auto = region is None
                if auto:
                    region = Region(f"exact:{lexeme!r}", re.escape(lexeme), "exactly this lexeme (any letter case)", flags=REGION_FLAGS)
                repeated = region.id in st["hits"]
                st["hits"].append(region.id)
                wit = {"text": rep.get("text"), "prev": rep.get("prev", ""), "lexeme": lexeme, "expected": rep.get("expected"),
                       "real_lexer": rep.get("real"), "region": region.id, "region_what": region.what,
                       "how_to_replay": rep.get("how_to_replay") or "list(odata_query.grammar.ODataLexer().tokenize(text)) / "
                                        "ODataLexer._master_re.match(text): compare the first token with `expected`"}
                if ob.informational or rep.get("informational"):
                    run.add(f"{ob.name}@{region.id}", "informational", ob.family, {"what": rep.get("what"), **wit}, out.seconds)
                    run.notes.append(f"{ob.name} [{region.id}]: {rep.get('what')}")
                else:
                    entry = None if auto else run.match_known(lambda k: k.get("id") == region.id and self._still_fails(k))
                    if entry is not None:
                        run.known_finding(entry, entry.get("what", rep.get("what")), name=f"{ob.name}#known:{region.id}",
                                          family=ob.family, solver_s=out.seconds, detail=wit)
                    else:
                        run.violation(f"{ob.name}@{region.id}", wit, rep.get("what"), ob.family, out.seconds)
                rounds = ob.max_rounds or max_rounds
                if repeated:
                    run.harness_error(oname + ":exclusion-ineffective", ob.family, f"region {region.id} was excluded but hit again")
                elif st["round"] < rounds:
                    st["excl"].append(region)
                    self._submit(pool, ob, list(st["excl"]), ob.timeout or timeout)
                elif rounds > 1:
                    run.inconclusive(oname + ":after-exclusions", ob.family,
                                     "maximum number of exclusion rounds reached; further counterexamples may exist")

    def _submit(self, pool: Pool, ob: Obligation, excl: List[Region], timeout: float) -> None:
        txt = self.texts[ob.N]
        pool.submit(ob.name, (lambda ob=ob, excl=excl, txt=txt: ob.build(txt, excl)), ob.timeout or timeout, True, ob.name)

    def _still_fails(self, entry: dict) -> bool:
        """A known-finding entry is honoured only while its recorded witness still fails (DESIGN.md section 1)."""
        w = entry.get("witness")
        if isinstance(w, dict) and isinstance(w.get("text"), str) and w.get("expected"):
            try:
                return list(self.spec.real_lex1(w["text"], w.get("prev", ""))) != list(w["expected"])
            except Exception:  # noqa: BLE001
                return True
        return True


# --------------------------------------------------------------------------------------------------
# generic obligations on lex1 (parameterised by reference patterns; nothing property specific)
# --------------------------------------------------------------------------------------------------
def _excl(txt: SymText, S, regions: Sequence[Region]) -> List[Any]:
    return [z3.Not(txt.member(txt.eng.ref(r.pattern, r.flags), S)) for r in regions]


def ob_accept(sess: Session, name: str, family: str, N: int, kind: str, ref: str, delims: str,
              regions: Sequence[Region] = (), not_in: Sequence[str] = (), timeout: Optional[float] = None) -> Obligation:
    """forall text = s.d.rest with s in L(ref) (and s in none of `not_in`), d in delims or end:  lex1(text) = (kind, |s|)."""

    def build(txt: SymText, excl: List[Region]) -> Query:
        eng = txt.eng
        S = pos_var("S")
        k, e = txt.lex1()
        pre = [S >= 1, S <= txt.L, txt.member(eng.ref(ref), S), txt.delim_after(S, eng.alphabet.idx(delims), lo=1)]
        pre += [z3.Not(txt.member(eng.ref(p), S)) for p in not_in]
        pre += _excl(txt, S, excl)
        neg = [z3.Not(z3.And(k == eng.kind_index(kind), e == S))]
        return Query(name, pre, neg, {"t": txt}, {"S": S}, minimise=txt.L, family=family)

    def replay(w: dict) -> dict:
        t = w["texts"]["t"]
        text, S = t["text"], w["ints"]["S"]
        s = text[:S]
        ok, real, why = sess.check_lex1(t)
        if not ok:
            return {"consistent": False, "why": why}
        if re.fullmatch(ref, s, REF_FLAGS) is None or any(re.fullmatch(p, s, REF_FLAGS) for p in not_in):
            return {"consistent": False, "why": f"reference NFA accepted {s!r} but re.fullmatch(reference) does not"}
        if not (S == len(text) or text[S] in delims):
            return {"consistent": False, "why": f"no delimiter after {s!r} in {text!r}"}
        got = f"{real[0]} spanning {text[:max(real[1], 0)]!r}" if real[1] >= 0 else "a tokenizing ERROR"
        return {"consistent": True, "reproduced": list(real) != [kind, S], "lexeme": s, "text": text, "prev": t["prev"],
                "expected": [kind, S], "real": list(real),
                "what": f"{text!r}: expected one {kind} token spanning {s!r}, the lexer produces {got}"}

    return Obligation(name, family, N, build, replay, list(regions), timeout=timeout)


def ob_overaccept(sess: Session, name: str, family: str, N: int, kind: str, ref: str, delims: str,
                  regions: Sequence[Region] = (), timeout: Optional[float] = None, max_rounds: Optional[int] = None) -> Obligation:
    """forall text: lex1(text) = (kind, e) and a delimiter (or the end) follows  =>  text[:e] in L(ref).   Informational."""

    def build(txt: SymText, excl: List[Region]) -> Query:
        eng = txt.eng
        S = pos_var("S")
        k, e = txt.lex1()
        pre = [S >= 1, S <= txt.L, k == eng.kind_index(kind), e == S, txt.delim_after(S, eng.alphabet.idx(delims), lo=1)]
        pre += _excl(txt, S, excl)
        neg = [z3.Not(txt.member(eng.ref(ref), S))]
        return Query(name, pre, neg, {"t": txt}, {"S": S}, minimise=txt.L, family=family)

    def replay(w: dict) -> dict:
        t = w["texts"]["t"]
        text, S = t["text"], w["ints"]["S"]
        s = text[:S]
        ok, real, why = sess.check_lex1(t)
        if not ok:
            return {"consistent": False, "why": why}
        if re.fullmatch(ref, s, REF_FLAGS) is not None:
            return {"consistent": False, "why": f"reference NFA rejected {s!r} but re.fullmatch(reference) accepts it"}
        return {"consistent": True, "reproduced": list(real) == [kind, S], "lexeme": s, "text": text, "prev": t["prev"],
                "expected": None, "real": list(real),
                "what": f"{s!r} is lexed as one {kind} token although it is not a well-formed {kind} literal of the reference grammar"}

    return Obligation(name, family, N, build, replay, list(regions), informational=True, timeout=timeout, max_rounds=max_rounds)


def ob_operator(sess: Session, name: str, family: str, N: int, op: str, kind: str, ws: str, max_run: int,
                leading_ws: bool = True, timeout: Optional[float] = None, layout: Optional[str] = None) -> Obligation:
    """forall w1, w2 in ws{1,max_run}, x not a layout character (or end of text):
         lex1(w1.op.w2.x...) = (kind, |w1|+|op|+|w2|)       (op in any ASCII letter case; w1 absent for prefix operators)"""

    def build(txt: SymText, excl: List[Region]) -> Query:
        eng = txt.eng
        wsx = eng.alphabet.idx(ws)
        stop = eng.alphabet.idx(layout if layout is not None else ws)
        A, B, S = pos_var("A"), pos_var("B"), pos_var("S")
        k, e = txt.lex1()
        conds = []
        for a in (range(1, max_run + 1) if leading_ws else [0]):
            for b in range(1, max_run + 1):
                endp = a + len(op) + b
                if endp > txt.N:
                    continue
                cs = [txt.incls(i, wsx) for i in range(a)]
                cs.append(txt.is_text(op, a, fold_ascii=True))
                cs += [txt.incls(a + len(op) + j, wsx) for j in range(b)]
                cs.append(txt.L >= endp)
                if endp < txt.N:
                    cs.append(z3.Or(txt.L == endp, z3.Not(txt.incls(endp, stop))))
                else:
                    cs.append(txt.L == endp)
                conds.append(z3.And(A == a, B == b, *cs))
        pre = [z3.Or(conds), S == A + len(op) + B] + _excl(txt, S, excl)
        neg = [z3.Not(z3.And(k == eng.kind_index(kind), e == S))]
        return Query(name, pre, neg, {"t": txt}, {"A": A, "B": B}, minimise=txt.L, family=family)

    def replay(w: dict) -> dict:
        t = w["texts"]["t"]
        text, a, b = t["text"], w["ints"]["A"], w["ints"]["B"]
        ok, real, why = sess.check_lex1(t)
        if not ok:
            return {"consistent": False, "why": why}
        n = a + len(op) + b
        shape_ok = (all(ch in ws for ch in text[:a]) and text[a:a + len(op)].lower() == op
                    and all(ch in ws for ch in text[a + len(op):n]) and len(text[a + len(op):n]) == b
                    and (len(text) == n or text[n] not in (layout if layout is not None else ws)))
        if not shape_ok:
            return {"consistent": False, "why": f"witness {text!r} is not of the shape ws.{op}.ws.x"}
        got = f"{real[0]} spanning {text[:max(real[1], 0)]!r}" if real[1] >= 0 else "a tokenizing ERROR"
        return {"consistent": True, "reproduced": list(real) != [kind, n], "lexeme": text[:n], "text": text, "prev": t["prev"],
                "expected": [kind, n], "real": list(real),
                "what": f"{text!r}: expected the operator token {kind} spanning {text[:n]!r}, the lexer produces {got}"}

    return Obligation(name, family, N, build, replay, [], timeout=timeout)


def _consistent_all(sess: Session, w: dict) -> Tuple[bool, Dict[str, Tuple[str, int]], str]:
    reals: Dict[str, Tuple[str, int]] = {}
    for tag, t in w["texts"].items():
        ok, real, why = sess.check_lex1(t)
        if not ok:
            return False, reals, why
        reals[tag] = real
    return True, reals, ""


def ob_caseflip(sess: Session, name: str, family: str, N: int, timeout: Optional[float] = None) -> Obligation:
    """forall texts c, d of equal length that differ only by the case of ASCII letters:  lex1(c) = lex1(d)."""

    def build(txt: SymText, excl: List[Region]) -> Query:
        eng = txt.eng
        other = eng.text("d")
        k1, e1 = txt.lex1()
        k2, e2 = other.lex1()
        ix = eng.alphabet.index
        lower = eng.alphabet.idx("abcdefghijklmnopqrstuvwxyz")
        upper = eng.alphabet.idx("ABCDEFGHIJKLMNOPQRSTUVWXYZ")
        delta = ix["a"] - ix["A"]
        pre = [txt.L == other.L, txt.has_prev == other.has_prev]
        pre.append(z3.Or(txt.prev == other.prev, z3.And(txt._ranges(txt.prev, lower), other.prev == txt.prev - delta),
                         z3.And(txt._ranges(txt.prev, upper), other.prev == txt.prev + delta)))
        for i in range(txt.N):
            pre.append(z3.Or(txt.c[i] == other.c[i],
                             z3.And(txt.incls(i, lower), other.c[i] == txt.c[i] - delta),
                             z3.And(txt.incls(i, upper), other.c[i] == txt.c[i] + delta)))
        neg = [z3.Or(k1 != k2, e1 != e2)]
        return Query(name, pre, neg, {"t": txt, "u": other}, {}, minimise=txt.L, family=family)

    def replay(w: dict) -> dict:
        ok, reals, why = _consistent_all(sess, w)
        if not ok:
            return {"consistent": False, "why": why}
        a, b = w["texts"]["t"]["text"], w["texts"]["u"]["text"]
        if len(a) != len(b) or any(x != y and not (x.isascii() and y.isascii() and x.isalpha() and x.swapcase() == y) for x, y in zip(a, b)):
            return {"consistent": False, "why": f"{a!r} / {b!r} differ by more than ASCII letter case"}
        return {"consistent": True, "reproduced": reals["t"] != reals["u"], "lexeme": a, "text": a, "prev": w["texts"]["t"]["prev"],
                "expected": list(reals["t"]), "real": list(reals["u"]),
                "what": f"{a!r} starts with {reals['t']} but its case variant {b!r} starts with {reals['u']}"}

    return Obligation(name, family, N, build, replay, [], timeout=timeout)


def ob_ws_token(sess: Session, name: str, family: str, N: int, ws_kind: str, layout: str, also: Sequence[str] = (),
                timeout: Optional[float] = None) -> Obligation:
    """forall text:  c[0] is a layout character  =>  lex1 is the white-space token spanning exactly the maximal run of
    layout characters, or one of the tokens `also` (operators that own their surrounding white space);
    and  lex1 = white-space token  =>  its extent is exactly the maximal run."""

    def build(txt: SymText, excl: List[Region]) -> Query:
        eng = txt.eng
        lay = eng.alphabet.idx(layout)
        k, e = txt.lex1()
        R = pos_var("R")
        runs = []
        for r in range(1, txt.N + 1):
            cs = [txt.L >= r] + [txt.incls(i, lay) for i in range(r)]
            cs.append(z3.Or(txt.L == r, z3.Not(txt.incls(r, lay))) if r < txt.N else txt.L == r)
            runs.append(z3.And(R == r, *cs))
        is_ws = k == eng.kind_index(ws_kind)
        pre = [txt.L >= 1, z3.Or(is_ws, txt.incls(0, lay)), z3.Or(z3.Or(runs), z3.And(R == 0, z3.Not(txt.incls(0, lay))))]
        good = z3.Or(z3.And(is_ws, e == R, R >= 1), *[z3.And(k == eng.kind_index(o), e > R) for o in also if o in eng.kinds])
        return Query(name, pre, [z3.Not(good)], {"t": txt}, {"R": R}, minimise=txt.L, family=family)

    def replay(w: dict) -> dict:
        ok, reals, why = _consistent_all(sess, w)
        if not ok:
            return {"consistent": False, "why": why}
        text = w["texts"]["t"]["text"]
        r = 0
        while r < len(text) and text[r] in layout:
            r += 1
        real = reals["t"]
        good = (real[0] == ws_kind and real[1] == r and r >= 1) or (real[0] in also and real[1] > r)
        return {"consistent": True, "reproduced": not good, "lexeme": text[:max(r, 1)], "text": text, "prev": w["texts"]["t"]["prev"],
                "expected": [ws_kind, r], "real": list(real),
                "what": f"{text!r}: the leading white-space run has length {r}; the lexer produces {real}"}

    return Obligation(name, family, N, build, replay, [], timeout=timeout)


def ob_progress(sess: Session, name: str, family: str, N: int, timeout: Optional[float] = None) -> Obligation:
    """forall non-empty text: lex1 is ERROR, a literal character (extent 1), or a rule match with 1 <= extent <= |text|."""

    def build(txt: SymText, excl: List[Region]) -> Query:
        k, e = txt.lex1()
        good = z3.Or(z3.And(k == K_ERROR, e == FAIL), z3.And(k == K_LITERAL, e == 1), z3.And(k == K_IGNORE, e == 1),
                     z3.And(k >= 0, e >= 1, e <= txt.L))
        return Query(name, [txt.L >= 1], [z3.Not(good)], {"t": txt}, {}, minimise=txt.L, family=family)

    def replay(w: dict) -> dict:
        ok, reals, why = _consistent_all(sess, w)
        if not ok:
            return {"consistent": False, "why": why}
        text = w["texts"]["t"]["text"]
        kind, end = reals["t"]
        good = (kind == "ERROR" and end == -1) or (kind in ("LITERAL", "IGNORE") and end == 1) or (1 <= end <= len(text))
        return {"consistent": True, "reproduced": not good, "lexeme": text, "text": text, "prev": w["texts"]["t"]["prev"],
                "expected": "progress", "real": [kind, end],
                "what": f"{text!r}: the lexer step yields {kind} with extent {end} (no progress: tokenize would not terminate)"}

    return Obligation(name, family, N, build, replay, [], timeout=timeout)


def ob_rule_extents(sess: Session, name: str, family: str, N: int, rule: str, timeout: Optional[float] = None) -> Obligation:
    """token rule `rule`, tried on its own at the start of any text (also when shadowed, also on the empty text), either
    fails or matches at least one character: it does not match the empty string."""

    def build(txt: SymText, excl: List[Region]) -> Query:
        e = txt.rule_end(rule)
        # (extent <= |text| is a guarantee of the re module itself - match.end() never exceeds the text - and is not re-proved)
        return Query(name, [txt.L >= 0], [e != FAIL, e <= 0], {"t": txt}, {}, minimise=txt.L, family=family)

    def replay(w: dict) -> dict:
        t = w["texts"]["t"]
        text, prev = t["text"], t["prev"]
        try:   # the rule on its own: its named group of the live master pattern, compiled alone by the real engine
            m = re.compile(_rule_source(sess.spec.pattern, rule), sess.spec.flags).match(prev + text, len(prev))
        except Exception as e:  # noqa: BLE001
            return {"consistent": False, "why": f"cannot isolate rule {rule}: {e!r}"}
        bad = m is not None and not (1 <= m.end() - len(prev) <= len(text))
        return {"consistent": True, "reproduced": bad, "lexeme": text, "text": text, "prev": prev, "expected": "extent in 1..|text|",
                "real": [rule, (m.end() - len(prev)) if m else None],
                "what": f"token rule {rule} matches the empty string at the start of {text!r} (tokenize would never advance)"}

    return Obligation(name, family, N, build, replay, [], timeout=timeout)


def _rule_source(master: str, name: str) -> str:
    """Source text of the named top-level alternative `(?P<name>...)` of a SLY master pattern (balanced scan)."""
    start = master.index(f"(?P<{name}>")
    depth, i, in_cls = 0, start, False
    while i < len(master):
        ch = master[i]
        if ch == "\\":
            i += 2
            continue
        if in_cls:
            if ch == "]":
                in_cls = False
        elif ch == "[":
            in_cls = True
            if master[i + 1:i + 2] == "^":
                i += 1
            if master[i + 1:i + 2] == "]":
                i += 1
        elif ch == "(":
            depth += 1
        elif ch == ")":
            depth -= 1
            if depth == 0:
                return master[start:i + 1]
        i += 1
    raise ValueError(name)


def ob_rule_excludes(sess: Session, name: str, family: str, N: int, rule: str, chars: str,
                     timeout: Optional[float] = None) -> Obligation:
    """L(rule) contains no string with a character of `chars`: forall text, if `rule` matches c[0:e) then no c[i<e] in chars.
    (reusable, e.g. C07: an identifier token can never contain a double quote)"""

    def build(txt: SymText, excl: List[Region]) -> Query:
        e = txt.rule_end(rule)
        bad = txt.eng.alphabet.idx(chars)
        hit = z3.Or([z3.And(e > i, txt.incls(i, bad)) for i in range(txt.N)])
        return Query(name, [e != FAIL], [hit], {"t": txt}, {}, minimise=txt.L, family=family)

    def replay(w: dict) -> dict:
        t = w["texts"]["t"]
        text, prev = t["text"], t["prev"]
        try:
            m = re.compile(_rule_source(sess.spec.pattern, rule), sess.spec.flags).match(prev + text, len(prev))
        except Exception as e:  # noqa: BLE001
            return {"consistent": False, "why": f"cannot isolate rule {rule}: {e!r}"}
        lexeme = m.group() if m else ""
        return {"consistent": True, "reproduced": any(ch in lexeme for ch in chars), "lexeme": lexeme, "text": text, "prev": prev,
                "expected": f"no character of {chars!r}", "real": [rule, len(lexeme)],
                "what": f"token rule {rule} matches {lexeme!r}, which contains a character of {chars!r}"}

    return Obligation(name, family, N, build, replay, [], timeout=timeout)


# --------------------------------------------------------------------------------------------------
# self-test mutants of the *encoding input* (vacuity guard, DESIGN.md section 6): no file is written anywhere -
# a mutant is just another master pattern handed to the same machinery, replayed against re.compile(mutant)
# --------------------------------------------------------------------------------------------------
class Collector:
    """Run look-alike for self-tests: records outcomes, prints nothing, writes nothing."""

    def __init__(self, run):
        self.pid, self.tier, self.seed = run.pid, run.tier, run.seed
        self.obls: List[dict] = []
        self.notes: List[str] = []
        self.extra: Dict[str, Any] = {}
        self.assumptions: List[str] = []
        self.traces_validated = 0

    def add(self, name, status, family="", detail=None, solver_s=0.0, nontrivial=True):
        self.obls.append({"name": name, "status": status, "family": family, "detail": detail})

    def discharged(self, name, family="", solver_s=0.0, detail=None, nontrivial=True):
        self.add(name, "discharged", family, detail)

    def inconclusive(self, name, family="", why=None, solver_s=0.0):
        self.add(name, "inconclusive", family, why)

    def harness_error(self, name, family="", why=None, solver_s=0.0):
        self.add(name, "harness_error", family, why)

    def violation(self, name, witness, what, family="", solver_s=0.0):
        self.add(name, "violation", family, {"what": what, "witness": witness})
        return ""

    def known_finding(self, entry, what, name="", family="", solver_s=0.0, detail=None):
        self.add(name, "known", family, detail)

    def match_known(self, predicate):
        return None

    def encode(self, *names):
        pass


def swap_rules(pattern: str, a: str, b: str) -> str:
    sa, sb = _rule_source(pattern, a), _rule_source(pattern, b)
    return pattern.replace(sa, "\0A\0").replace(sb, sa).replace("\0A\0", sb)


@dataclass
class Mutant:
    name: str
    edit: Callable[[LexSpec], Optional[LexSpec]]     # None: not applicable to the current pattern
    expect: Sequence[str]                             # prefixes of obligation names one of which must be violated


def respec(spec: LexSpec, pattern: Optional[str] = None, flags: Optional[int] = None) -> Optional[LexSpec]:
    pattern = spec.pattern if pattern is None else pattern
    flags = spec.flags if flags is None else flags
    if pattern == spec.pattern and flags == spec.flags:
        return None
    try:
        return LexSpec(pattern, flags, spec.literals, spec.ignore, spec.remapping, origin="self-test mutant")
    except re.error:
        return None


def edit_replace(old: str, new: str) -> Callable[[LexSpec], Optional[LexSpec]]:
    return lambda spec: respec(spec, spec.pattern.replace(old, new)) if old in spec.pattern else None


def edit_optional(rule: str) -> Callable[[LexSpec], Optional[LexSpec]]:
    """the whole body of `rule` becomes optional (the rule can match the empty string)"""
    def f(spec: LexSpec) -> Optional[LexSpec]:
        try:
            src = _rule_source(spec.pattern, rule)
        except ValueError:
            return None
        head = f"(?P<{rule}>"
        return respec(spec, spec.pattern.replace(src, f"{head}(?:{src[len(head):-1]})?)"))
    return f


def edit_swap(a: str, b: str) -> Callable[[LexSpec], Optional[LexSpec]]:
    def f(spec: LexSpec) -> Optional[LexSpec]:
        try:
            return respec(spec, swap_rules(spec.pattern, a, b))
        except ValueError:
            return None
    return f


def selftest(run, live: LexSpec, mutants: Sequence[Mutant], bounds: Iterable[int], ref_patterns: Iterable[Tuple[str, int]],
             make: Callable[[Session], List[Obligation]], timeout: float, progress: bool = False) -> None:
    """Every mutant must make at least one obligation whose name starts with one of `expect` fail (replayed on the
    mutant regex).  A mutant that goes undetected is a harness error of the check."""
    report: Dict[str, Any] = {}
    for mu in mutants:
        spec = mu.edit(live)
        if spec is None:
            report[mu.name] = "not applicable to the current pattern"
            continue
        col = Collector(run)
        try:
            sess = Session(col, bounds, ref_patterns, spec=spec)
        except NotEncodable as e:
            report[mu.name] = f"mutant not encodable: {e}"
            continue
        obs = [o for o in make(sess) if any(o.name.startswith(p) for p in mu.expect)]
        sess.drive(obs, timeout=timeout, max_rounds=1, progress=progress)
        hit = [o for o in col.obls if o["status"] == "violation"]
        herr = [o for o in col.obls if o["status"] == "harness_error"]
        if hit and not herr:
            report[mu.name] = {"detected_by": hit[0]["name"], "what": hit[0]["detail"]["what"]}
            run.add(f"selftest:{mu.name}", "selftest-detected", "selftest", report[mu.name], nontrivial=False)
        else:
            report[mu.name] = {"detected_by": None, "outcomes": [(o["name"], o["status"]) for o in col.obls][:6]}
            run.harness_error(f"selftest:{mu.name}", "selftest",
                              f"the seeded mutant was not detected by {list(mu.expect)}: {report[mu.name]['outcomes']}")
    run.extra["selftest_mutants"] = report


def attach_results(run, cap: int = 600) -> None:
    """Per-obligation results (name, status, solver seconds) into the evidence file."""
    run.extra["obligation_results"] = [[o["name"][:160], o["status"], o["solver_s"]] for o in run.obls[:cap]]


def ob_caseflip_rule(sess: Session, name: str, family: str, N: int, rule: str, timeout: Optional[float] = None) -> Obligation:
    """Lemma: token rule `rule`, tried on its own, has the same extent on two texts that differ only by ASCII letter case.
    All lemmas together imply the lex1-level statement (the `literals` are not letters); a lemma that fails is only
    informational - a case-sensitive rule may be shadowed - and the lex1-level obligation decides."""

    def build(txt: SymText, excl: List[Region]) -> Query:
        eng = txt.eng
        other = eng.text("d")
        ix = eng.alphabet.index
        lower = eng.alphabet.idx("abcdefghijklmnopqrstuvwxyz")
        upper = eng.alphabet.idx("ABCDEFGHIJKLMNOPQRSTUVWXYZ")
        delta = ix["a"] - ix["A"]
        pre = [txt.L == other.L, txt.has_prev == other.has_prev]
        pre.append(z3.Or(txt.prev == other.prev, z3.And(txt._ranges(txt.prev, lower), other.prev == txt.prev - delta),
                         z3.And(txt._ranges(txt.prev, upper), other.prev == txt.prev + delta)))
        for i in range(txt.N):
            pre.append(z3.Or(txt.c[i] == other.c[i],
                             z3.And(txt.incls(i, lower), other.c[i] == txt.c[i] - delta),
                             z3.And(txt.incls(i, upper), other.c[i] == txt.c[i] + delta)))
        neg = [txt.rule_end(rule) != other.rule_end(rule)]
        return Query(name, pre, neg, {"t": txt, "u": other}, {}, minimise=txt.L, family=family)

    def replay(w: dict) -> dict:
        a, b = w["texts"]["t"], w["texts"]["u"]
        try:
            cre = re.compile(_rule_source(sess.spec.pattern, rule), sess.spec.flags)
        except Exception as e:  # noqa: BLE001
            return {"consistent": False, "why": f"cannot isolate rule {rule}: {e!r}"}
        ma = cre.match(a["prev"] + a["text"], len(a["prev"]))
        mb = cre.match(b["prev"] + b["text"], len(b["prev"]))
        ea, eb = (ma.end() if ma else -1), (mb.end() if mb else -1)
        return {"consistent": True, "reproduced": ea != eb, "lexeme": a["text"], "text": a["text"], "prev": a["prev"], "expected": None,
                "real": [rule, ea, eb], "what": f"rule {rule} alone: extent {ea} on {a['text']!r} but {eb} on its case variant {b['text']!r}"}

    return Obligation(name, family, N, build, replay, [], informational=True, timeout=timeout, max_rounds=1)


# --------------------------------------------------------------------------------------------------
# exponential backtracking (termination of the scan in practice)
# --------------------------------------------------------------------------------------------------
def _path_to(nfa: Nfa, entry: int, target: int, chars: Sequence[str]) -> Optional[str]:
    """some string that leads the NFA from `entry` to `target` (breadth-first, assertions as epsilon)"""
    from collections import deque
    seen = {entry: ""}
    dq = deque([entry])
    while dq:
        s = dq.popleft()
        if s == target:
            return seen[s]
        k = nfa.kind[s]
        nxt: List[Tuple[int, str]] = []
        if k == Nfa.CHAR:
            cls = nfa.cls[s]
            if cls:
                pref = [i for i in cls if 33 <= i < 127] or sorted(cls)
                nxt.append((nfa.a[s], chars[pref[0]]))
        elif k == Nfa.SPLIT:
            nxt += [(nfa.a[s], ""), (nfa.b[s], "")]
        elif k != Nfa.MATCH:
            nxt.append((nfa.a[s], ""))
        for t, ch in nxt:
            if t is not None and t not in seen:
                seen[t] = seen[s] + ch
                dq.append(t)
    return None


def time_pumped(master: re.Pattern, prefix: str, pump: str, suffixes: Sequence[str], budget_s: float = 12.0,
                per_match_s: float = 3.0, max_n: int = 4000) -> dict:
    """Time `master.match(prefix + pump*n + suffix)` for growing n in a forked child (killed after the budget).
    Returns {"suffix", "series": [(n, seconds)], "timed_out_at": n or None}."""
    ctx = mp.get_context("fork")
    pc, cc = ctx.Pipe(duplex=False)

    def child():
        try:
            # pick the suffix that makes the matcher work hardest at a small n
            best, best_t = suffixes[0], -1.0
            for sfx in suffixes:
                t0 = time.perf_counter()
                master.match(prefix + pump * 8 + sfx)
                dt = time.perf_counter() - t0
                if dt > best_t:
                    best, best_t = sfx, dt
            cc.send(("suffix", best))
            n = 8
            while n <= max_n:
                cc.send(("start", n))
                t0 = time.perf_counter()
                master.match(prefix + pump * n + best)
                dt = time.perf_counter() - t0
                cc.send(("done", n, dt))
                if dt > per_match_s:
                    break
                n += 1 if dt > 0.001 else max(1, n // 4)
        finally:
            cc.close()

    p = ctx.Process(target=child)
    p.start()
    cc.close()
    out = {"suffix": None, "series": [], "timed_out_at": None}
    started = None
    deadline = time.time() + budget_s
    while time.time() < deadline:
        if pc.poll(0.05):
            try:
                msg = pc.recv()
            except EOFError:
                break
            if msg[0] == "suffix":
                out["suffix"] = msg[1]
            elif msg[0] == "start":
                started = msg[1]
            else:
                out["series"].append((msg[1], round(msg[2], 5)))
                started = None
        elif not p.is_alive():
            break
    if p.is_alive():
        p.kill()
        out["timed_out_at"] = started
    p.join()
    return out


def exponential(series: Sequence[Tuple[int, float]], timed_out_at: Optional[int]) -> Tuple[bool, str]:
    """super-linear (exponential) growth: the time at least doubles per +2 repeats over the measurable range, or a single
    match ran into the kill after the measured times had been climbing."""
    pts = [(n, t) for n, t in series if t >= 0.002]
    ratios = []
    for (n1, t1), (n2, t2) in zip(pts, pts[1:]):
        if n2 > n1:
            ratios.append((t2 / t1) ** (2.0 / (n2 - n1)))
    if len(ratios) >= 3 and sorted(ratios)[len(ratios) // 2] >= 1.8 and pts[-1][1] >= 0.2:
        return True, f"time grows by a factor of about {sorted(ratios)[len(ratios) // 2]:.1f} per two more repeats (last: n={pts[-1][0]} {pts[-1][1]:.2f}s)"
    if timed_out_at is not None and timed_out_at <= 200:
        return True, f"a single match with n={timed_out_at} repeats did not return within the time budget"
    return False, "no exponential growth measured"


def ob_no_eda(sess: Session, name: str, family: str, N: int, loop_index: int, timeout: Optional[float] = None) -> Obligation:
    """Loop number `loop_index` of the live pattern is not exponentially ambiguous: there is no string that the loop can
    consume, from loop head back to loop head, along two different NFA paths (one iteration vs. several, or two different
    ways through the body).  sat => the witness is pumped and the real `_master_re.match` is timed; only measured
    exponential growth is a violation."""
    eng = sess.engines[N]
    lp = eng.nfa.loops[loop_index]

    def build(txt: SymText, excl: List[Region]) -> Query:
        K = pos_var("K")
        _g1, g2 = txt.loop_paths(txt.eng.nfa, lp["state"], lp["body"], K)
        pre = [K >= 1, K <= txt.L, txt.L == K]
        return Query(name, pre, [g2], {"t": txt}, {"K": K}, minimise=txt.L, family=family)

    def replay(w: dict) -> dict:
        t = w["texts"]["t"]
        pump = t["text"][:w["ints"]["K"]]
        entry = dict(eng.rules).get(lp["rule"])
        prefix = _path_to(eng.nfa, entry, lp["state"], eng.alphabet.chars) if entry is not None else None
        if prefix is None:
            return {"consistent": False, "why": f"no path from the entry of rule {lp['rule']} to the loop head"}
        suffixes = ["", "\x00", "\n", "!", "'", "a", "0", " ", pump[:1] + "\x00"]
        res = time_pumped(sess.spec.master, prefix, pump, suffixes)
        bad, why = exponential(res["series"], res["timed_out_at"])
        text = prefix + pump * 3 + (res["suffix"] or "")
        return {"consistent": True, "reproduced": True, "informational": not bad, "lexeme": pump, "text": text, "prev": "",
                "expected": "time linear in the length of the input",
                "how_to_replay": "time ODataLexer._master_re.match(prefix + pump * n + suffix) (or list(ODataLexer().tokenize(...))) "
                                 "for n = 10, 12, 14, ...",
                "real": {"prefix": prefix, "pump": pump, "suffix": res["suffix"], "seconds_by_repeats": res["series"][-8:],
                         "timed_out_at_repeats": res["timed_out_at"]},
                "what": (f"rule {lp['rule']}: the loop can consume {pump!r} in two different ways; "
                         f"_master_re.match({prefix!r} + {pump!r}*n + {res['suffix']!r}): {why}")}

    return Obligation(name, family, N, build, replay, [], timeout=timeout, max_rounds=1)


# --------------------------------------------------------------------------------------------------
# counted repeats whose upper bound lies beyond the text bound N ("repeat-bounds")
# --------------------------------------------------------------------------------------------------
def _path_to_match(nfa: Nfa, start: int, chars: Sequence[str]) -> Optional[str]:
    from collections import deque
    seen = {start: ""}
    dq = deque([start])
    while dq:
        s = dq.popleft()
        k = nfa.kind[s]
        if k == Nfa.MATCH:
            return seen[s]
        nxt: List[Tuple[int, str]] = []
        if k == Nfa.CHAR:
            cls = nfa.cls[s]
            if cls:
                pref = [i for i in cls if 33 <= i < 127] or sorted(cls)
                nxt.append((nfa.a[s], chars[pref[0]]))
        elif k == Nfa.SPLIT:
            nxt += [(nfa.a[s], ""), (nfa.b[s], "")]
        else:
            nxt.append((nfa.a[s], ""))
        for t, ch in nxt:
            if t is not None and t not in seen:
                seen[t] = seen[s] + ch
                dq.append(t)
    return None


def check_repeat_caps(run, sess: Session, N: int, rules: Iterable[str], expected: Dict[str, Iterable[int]],
                      refs: Dict[str, Tuple[str, int]], family: str = "repeat-bounds(structure + replay)") -> None:
    """Counted repeats {m,n} with n > N are invisible to the bounded circuit (they behave like unbounded ones inside N).
    For each of them in the given rules: the numeric bound must be one the reference also has (`expected[rule]`);
    otherwise a witness of n + 1 iterations is built from the NFA (path to the loop, one iteration, path to the end of the
    rule) and replayed: if the reference language (`refs[rule]` = (python regex, flags)) contains the whole text but the
    real lexer does not produce that one token, that is a VIOLATION.  Structural reading of the live pattern plus a concrete
    replay - not a solver verdict."""
    eng = sess.engines[N]
    rules = set(rules)
    for li, lp in enumerate(eng.nfa.loops):
        if lp["max"] is None or lp["rule"] not in rules:
            continue
        rule, cap = lp["rule"], lp["max"]
        name = f"repeat-bounds:{rule}#loop{li}:{{{lp['min']},{cap}}}"
        if cap in set(expected.get(rule, ())):
            run.discharged(name + " equals the reference's bound", family, nontrivial=False)
            continue
        entry = dict(eng.rules)[rule]
        prefix = _path_to(eng.nfa, entry, lp["state"], eng.alphabet.chars)
        pump = _path_to(eng.nfa, lp["body"], lp["state"], eng.alphabet.chars)
        exit_ = eng.nfa.b[lp["state"]] if lp["greedy"] else eng.nfa.a[lp["state"]]
        tail = _path_to_match(eng.nfa, exit_, eng.alphabet.chars)
        if prefix is None or not pump or tail is None or rule not in refs:
            run.inconclusive(name, family, "the live pattern bounds a repeat that the reference does not bound, and no witness could "
                                           "be built from the NFA (or no reference language is known for this rule)")
            continue
        text = prefix + pump * (cap + 1) + tail
        ref, flags = refs[rule]
        real = sess.spec.real_lex1(text)
        tok = sess.spec.tokenize_first(text)
        if re.fullmatch(ref, text, flags) is None:
            run.inconclusive(name, family, {"why": "bounded repeat without a counterpart in the reference; the constructed text is not "
                                                   "in the reference language, so nothing is claimed", "length": len(text)})
        elif real == (rule, len(text)) and (tok is None or tok == real):
            run.discharged(name + f": a token with {cap + 1} iterations is still lexed as one {rule}", family, nontrivial=False)
        else:
            wit = {"python": f"{prefix!r} + {pump!r} * {cap + 1} + {tail!r}", "length": len(text), "expected": [rule, len(text)],
                   "real_lexer": list(real), "how_to_replay": "ODataLexer._master_re.match(text) / list(ODataLexer().tokenize(text))"}
            run.violation(name, wit, f"rule {rule} bounds a repeat at {cap} that the reference grammar does not bound: the {len(text)}-character "
                                     f"text {prefix!r}+{pump!r}*{cap + 1}+{tail!r} is lexed as {real[0]} of extent {real[1]} instead of one {rule} token",
                          family)


def scaled_spec(spec: LexSpec, rule: str, cap: int, k: int) -> Optional[LexSpec]:
    """the live pattern with every `{m,cap}` of `rule` replaced by `{m,k}` (the counted-repeat structure at a small scale)"""
    try:
        src = _rule_source(spec.pattern, rule)
    except ValueError:
        return None
    new = re.sub(r"\{(\d*),%d\}" % cap, lambda m: "{%s,%d}" % (m.group(1), k), src)
    if new == src:
        return None
    return respec(spec, spec.pattern.replace(src, new))


def ob_blank_before(sess: Session, name: str, family: str, N: int, ws_kind: str, layout: str, ref: str, delims: str,
                    not_in: Sequence[str] = (), max_run: int = 3, timeout: Optional[float] = None,
                    regions: Sequence[Region] = ()) -> Obligation:
    """forall w in layout{1,max_run}, s in L(ref) (in none of `not_in`), d in delims or end:
         lex1(w.s.d.rest) = (ws_kind, |w|)
    i.e. a blank run in front of such a lexeme is a white-space token of exactly that run: no keyword rule that owns its
    surrounding white space may bite into the lexeme (`, order_id` must not become `,` OR `der_id`).  Because lex1 is
    stateless this is the step after `,` / `(` / `:` + blank; the step on s itself is the 'accept' obligation."""

    def build(txt: SymText, excl: List[Region]) -> Query:
        eng = txt.eng
        lay = eng.alphabet.idx(layout)
        dl = eng.alphabet.idx(delims)
        A, S = pos_var("A"), pos_var("S")
        k, e = txt.lex1()
        alts = []
        for a in range(1, max_run + 1):
            if a + 1 > txt.N:
                break
            cs = [txt.L > a] + [txt.incls(i, lay) for i in range(a)] + [z3.Not(txt.incls(a, lay))]
            cs.append(txt.member(eng.ref(ref), S, start=a))
            cs += [z3.Not(txt.member(eng.ref(p), S, start=a)) for p in not_in]
            alts.append(z3.And(A == a, S > a, *cs))
        pre = [z3.Or(alts), S <= txt.L, txt.delim_after(S, dl, lo=2)] + [z3.Not(txt.member(eng.ref(r.pattern, r.flags), S)) for r in excl]
        neg = [z3.Not(z3.And(k == eng.kind_index(ws_kind), e == A))]
        return Query(name, pre, neg, {"t": txt}, {"A": A, "S": S}, minimise=txt.L, family=family)

    def replay(w: dict) -> dict:
        t = w["texts"]["t"]
        text, a, S = t["text"], w["ints"]["A"], w["ints"]["S"]
        ok, real, why = sess.check_lex1(t)
        if not ok:
            return {"consistent": False, "why": why}
        s = text[a:S]
        if (not all(ch in layout for ch in text[:a]) or re.fullmatch(ref, s, REF_FLAGS) is None
                or any(re.fullmatch(p, s, REF_FLAGS) for p in not_in) or not (S == len(text) or text[S] in delims)):
            return {"consistent": False, "why": f"witness {text!r} is not blank-run . lexeme . delimiter"}
        got = f"{real[0]} spanning {text[:max(real[1], 0)]!r}" if real[1] >= 0 else "a tokenizing ERROR"
        return {"consistent": True, "reproduced": list(real) != [ws_kind, a], "lexeme": text[:S], "text": text, "prev": t["prev"],
                "expected": [ws_kind, a], "real": list(real),
                "what": f"{text!r}: the blank run before {s!r} must be one {ws_kind} token of {a} character(s); the lexer produces {got}"}

    return Obligation(name, family, N, build, replay, list(regions), timeout=timeout)
