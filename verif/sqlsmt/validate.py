"""Model validation (guards the `unsat` side): run on every check run.

  * sqlite_model vs the real sqlite3: every operator / function of the model is evaluated on boundary rows and on
    solver-chosen rows (rows that drive the expression to pairwise different results) and compared with
    `SELECT <expr> FROM t` on a real in-memory database.
  * odata_ref symbolic vs odata_ref concrete (plain Python) on the same kind of rows.
  * the independent parser re-parses its own canonical unparse of every expression (both precedence modes).

Any disagreement is a harness error (exit 3), never a property verdict.  One task = one expression, so the work is
spread over the worker pool together with the programs.
"""
from __future__ import annotations

import itertools
import random
import sqlite3
from typing import Any, Dict, List, Optional, Tuple

import z3

from . import filtergen as G
from . import odata_ref as R
from . import sqlparse_ind as SP
from . import values as V
from .sqlite_model import SqliteModel
from .symdb import SymDB, T_SCALAR

INTS = [-8, -3, -1, 0, 1, 2, 3, 8, None]
STRS = ["", "a", "A", "b", "B", "%", "_", "'", "\\", " ", "ab", "aA", "Ab", "a%", "%a", "_b", "a_", "  ", " a", "a ",
        "a\\", "\\%", "\\_", "%%", "aab", "aba", "abA", " a ", "a%b", "_%_", "'a'", "\\\\a", None]
BOOLS = [True, False, None]

SQL_EXPRS = [
    # arithmetic
    '"a" + "b"', '"a" - "b"', '"a" * "b"', '"a" / "b"', '"a" % "b"', '- "a"', '"a" + "b" * 2', '("a" + "b") * 2',
    '"a" - ("b" - 2)', '"a" / "b" % 3', 'ABS("a")', '"a" - -1',
    # comparisons, null tests, IN
    '"a" = "b"', '"a" != "b"', '"a" <> "b"', '"a" < "b"', '"a" <= "b"', '"a" > "b"', '"a" >= "b"',
    '"a" IS "b"', '"a" IS NOT "b"', '"a" IS NULL', '"a" IS NOT NULL', '"a" IN ("b", 1, NULL)', '"a" NOT IN ("b", 2)',
    '"a" IN ()', '"a" BETWEEN "b" AND 3', 'NULL = "a"', '"s" IS NULL', '"f" IS NOT NULL',
    # logic
    '"f" AND ("a" = 1)', '"f" OR ("a" = 1)', 'NOT "f"', '("a" = 1) = "f"', '("a" < "b") = ("b" < 2)', '"f" = 1',
    '"f" = 0', '"f"', 'NOT ("a" < 1 OR "f" = 1)', '"a" = 1 OR "b" = 2 AND "f"', '"a" < "b" = "f"', '"f" = "a" < "b"',
    # strings
    '"s" = "u"', '"s" != "u"', '"s" < "u"', '"s" <= "u"', '"s" > "u"', '"s" >= "u"', '"s" || "u"',
    "'%' || \"u\" || '%'", 'LENGTH("s")', 'LENGTH("s" || "u")', 'LOWER("s")', 'UPPER("s")', 'TRIM("s")', 'LTRIM("s")',
    'RTRIM("s")', 'INSTR("s", "u")', "INSTR(\"s\", 'a')", "INSTR(\"s\", '')", 'SUBSTR("s", "a")', 'SUBSTR("s", "a", "b")',
    'SUBSTR("s" || "u", "a", "b")', 'SUBSTR("s", "a" + 1)', 'SUBSTR("s", "a" + 1, "b")', "\"s\" IN ('a', \"u\")",
    '"s" IS "u"', "\"s\" = 'a''b'",
    # LIKE
    '"s" LIKE "u"', "\"s\" LIKE \"u\" ESCAPE '\\'", '"s" NOT LIKE "u"', "\"s\" LIKE '%' || \"u\" || '%'",
    "\"s\" LIKE \"u\" || '%'", "\"s\" LIKE '%' || \"u\"", "\"s\" LIKE '%a%'", "\"s\" LIKE '%%%%'", "\"s\" LIKE '%__%'",
    "\"s\" LIKE '_' || \"u\"", "\"s\" LIKE 'a%'", "\"s\" LIKE '%\\%%' ESCAPE '\\'", "\"s\" LIKE '%\\_' ESCAPE '\\'",
    "\"s\" LIKE '%a''%'", 'UPPER("s") LIKE \'%a%\'', '"s" || "u" LIKE \'%b%\'',
    # REPLACE / Django's escaping idiom
    "REPLACE(\"s\", '%', '\\%')", "REPLACE(\"s\", 'a', '')", "REPLACE(\"s\", 'a', 'b')", "REPLACE(\"s\", '_', '\\_')",
    "REPLACE(REPLACE(REPLACE(\"u\", '\\', '\\\\'), '%', '\\%'), '_', '\\_')",
    "\"s\" LIKE '%' || REPLACE(REPLACE(REPLACE(\"u\", '\\', '\\\\'), '%', '\\%'), '_', '\\_') || '%' ESCAPE '\\'",
    "\"s\" LIKE REPLACE(REPLACE(REPLACE(\"u\", '\\', '\\\\'), '%', '\\%'), '_', '\\_') || '%' ESCAPE '\\'",
    # conditional / conversion
    'COALESCE("a", "b")', 'COALESCE("s", "u")', 'IFNULL("a", 0)', 'COALESCE("a", "b", 3)',
    'CASE WHEN "a" > 0 THEN "a" ELSE "b" END', 'CASE WHEN "a" > 0 THEN "s" END', 'CASE "a" WHEN 1 THEN "s" WHEN 2 THEN "u" ELSE \'b\' END',
    'CAST("f" AS INTEGER)', 'CAST("a" = 1 AS INTEGER)', 'NULLIF("a", "b")',
    # what the ORMs emit: REAL division (SQLAlchemy's div), NULL-coalescing concat (Django), nested trims, parameters
    '"a" / ("b" + 0.0)', '"a" / ("b" + 0.0) = 1', '("a" + 1) / (2 + 0.0) * "b" > 1', '"a" / ("b" + 0.0) + 1 <= "b"',
    '"a" / (2 + 0.0) - "b" / (3 + 0.0)', 'CAST("a" / ("b" + 0.0) AS INTEGER)', '("a" / ("b" + 0.0)) % 2', '- ("a" / (2 + 0.0))',
    '7 / ("a" / ("b" + 0.0) + 0.0)', 'SUBSTR("s", "a" / (2 + 0.0) + 1)', 'SUBSTR("s", 1, "a" / (2 + 0.0))', '"a" / (2 + 0.0) IN (1, "b")', '"a" / ("b" + 0.0) = "b" / ("a" + 0.0)', '"a" + 0.0', '"a" * 1.5 > "b"',
    "COALESCE(\"s\", '') || COALESCE(\"u\", '')", "(COALESCE(\"s\", '') || COALESCE('a', '')) = \"u\"", 'LTRIM(RTRIM("s"))',
    "(\"s\" LIKE \"u\" || '%') = 1", "1 = (\"s\" NOT LIKE '%' || \"u\")", "(\"s\" LIKE '%' || \"u\" || '%') = \"f\"",
    '(INSTR("s", "u") - 1) + 1 = "a"', 'SUBSTR("s", ("a" + 1), "b") = "u"', '("a" = 1) = ("b" = 2)', '"f" = ("a" = 1)',
    'NOT ("a" = 1 AND NOT ("b" IS NULL))', '"f" <> 1', '"a" IN (1, 2)',
    # rounding of exact fractions (halves / quarters, negative midpoints)
    'ROUND("a" / (2 + 0.0))', 'ROUND("a" * 0.5)', 'ROUND("a" / 2.0, 0)', 'FLOOR("a" / 2.0)', 'CEIL("a" / 2.0)', 'CEILING("a" * 0.25)',
    'TRUNC("a" / 2.0 + 0.5)', 'ROUND("a" / 4.0) = "b"', 'FLOOR("a" / ("b" + 0.0))', 'ROUND("a" / ("b" + 0.0))', 'ROUND("a")', '"a" / 2e0 > 2',
    'FLOOR("a" + 0.5) < "b"', 'ROUND("a" / 2.0 - 0.5)',
    # number / text mixtures (what mis-grouped SQL produces)
    '"a" = "s"', '1 = "s"', '"s" != 1', '("a" = "s") LIKE "u"', '"f" LIKE "u"', '"a" LIKE "u"', "1 = \"s\" LIKE '%a%'",
    "\"s\" LIKE '%a%' = 1", '"a" * "b" LIKE "u"',
]

_a, _b, _s, _u, _f = ("field", "a"), ("field", "b"), ("field", "s"), ("field", "u"), ("field", "f")
ODATA_TERMS = (
    [("arith", op, _a, _b) for op in G.ARITH] + [("neg", _a), ("arith", "sub", _a, ("arith", "sub", _b, ("int", 2)))] +
    [("cmp", op, _a, _b) for op in G.CMP] + [("cmp", op, _s, _u) for op in G.CMP] +
    [("cmp", "eq", _f, ("bool", True)), ("cmp", "ne", _f, ("cmp", "lt", _a, _b)), ("cmp", "eq", _a, ("null",)),
     ("cmp", "ne", _s, ("null",)), ("cmp", "eq", ("null",), _f), ("in", _a, [_b, ("int", 1)]), ("in", _s, [("str", "a"), _u]),
     ("and", _f, ("cmp", "eq", _a, ("int", 1))), ("or", _f, ("cmp", "eq", _a, ("int", 1))), ("not", _f),
     ("not", ("or", ("cmp", "lt", _a, ("int", 1)), _f))] +
    [("call", fn, [("arith", "div", _a, ("float", "2.0"))]) for fn in ("round", "floor", "ceiling")] +
    [("call", "round", [("arith", "mul", _a, ("float", "0.25"))]), ("cmp", "gt", ("arith", "div", _a, ("float", "2e0")), ("int", 2)),
     ("cmp", "eq", ("call", "round", [("arith", "sub", ("arith", "div", _a, ("float", "2.0")), ("float", "0.5"))]), _b)] +
    [("call", fn, [_s, _u]) for fn in ("contains", "startswith", "endswith", "indexof", "concat")] +
    [("call", fn, [_s]) for fn in ("length", "tolower", "toupper", "trim")] +
    [("call", "substring", [_s, _a]), ("call", "substring", [_s, _a, _b]),
     ("call", "substring", [("call", "concat", [_s, _u]), _a, _b]), ("call", "contains", [_s, ("str", "%")]),
     ("call", "indexof", [_s, ("str", "")]), ("call", "length", [("call", "concat", [_s, _u])]),
     ("call", "endswith", [("call", "concat", [_s, _u]), ("str", "a")])]
)


# ---------------------------------------------------------------------- concrete evaluation of a symbolic value
def _subst_pairs(db: SymDB, row: Dict[str, Any]) -> List[Tuple[Any, Any]]:
    pairs = []
    for name, v in db.slot("t").cells.items():
        py = row.get(name)
        if not z3.is_true(v.null) and not z3.is_false(v.null):
            pairs.append((v.null, z3.BoolVal(py is None)))
        if v.kind == "int":
            pairs.append((v.val, V.bv(int(py) if py is not None else 0)))
        elif v.kind == "bool":
            pairs.append((v.val, z3.BoolVal(bool(py))))
        else:
            txt = py or ""
            pairs.append((v.len, V.lv(len(txt))))
            for k, c in enumerate(v.c):
                pairs.append((c, V.cv(V.IDX[txt[k]] if k < len(txt) else 0)))
    return pairs


def _concrete(expr, pairs):
    return z3.simplify(z3.substitute(expr, *pairs))


def eval_value(v, pairs) -> Any:
    """Python value of a symbolic Value under a concrete row (None for NULL)."""
    if v.kind == "null":
        return None
    if z3.is_true(_concrete(v.null, pairs)):
        return None
    if v.kind == "int":
        return _concrete(v.val, pairs).as_signed_long()
    if v.kind == "real":
        from fractions import Fraction
        return Fraction(_concrete(v.num, pairs).as_signed_long(), _concrete(v.den, pairs).as_signed_long())
    if v.kind == "bool":
        return bool(z3.is_true(_concrete(v.val, pairs)))
    n = _concrete(v.len, pairs).as_long()
    idx = [_concrete(c, pairs).as_long() for c in v.c[:n]]
    return "".join(V.ALPH[i] if i < V.NALPH else "#" for i in idx)


def _side_ok(side, pairs) -> bool:
    return all(z3.is_true(_concrete(c, pairs)) for c in side)


def _result_differs(v, py) -> Any:
    """z3 constraint: value v differs from the Python result py (drives the solver to new outcomes)."""
    if v.kind == "null":
        return V.FALSE
    if py is None:
        return z3.Not(v.null)
    if v.kind == "int":
        return z3.Or(v.null, v.val != int(py))
    if v.kind == "real":
        return z3.Or(v.null, v.num * py.denominator != v.den * py.numerator)
    if v.kind == "bool":
        return z3.Or(v.null, v.val != bool(py))
    conds = [v.null, v.len != len(py)]
    for k, ch in enumerate(py):
        if k < v.cap and ch in V.IDX:
            conds.append(v.c[k] != V.IDX[ch])
    return z3.Or(conds)


def _rows_for(cols: List[str], rng: random.Random, cap: int) -> List[Dict[str, Any]]:
    dom = {"a": INTS, "b": INTS, "s": STRS, "u": STRS, "f": BOOLS}
    base = {"id": 1, "a": 1, "b": 2, "s": "a", "u": "b", "f": True}
    cols = [c for c in cols if c in dom]
    combos = list(itertools.product(*[dom[c] for c in cols])) if cols else [()]
    if len(combos) > cap:
        combos = rng.sample(combos, cap)
    return [dict(base, **dict(zip(cols, cb))) for cb in combos]


def _solver_rows(db: SymDB, side, value, n: int) -> List[Dict[str, Any]]:
    s = z3.Solver()
    s.set("timeout", 5000)
    s.add(db.cons + list(side))
    rows = []
    for _ in range(n):
        if s.check() != z3.sat:
            break
        m = s.model()
        rows.append(db.decode(m)["t"][0])
        s.add(_result_differs(value, V.decode(m, value) if value.kind != "null" else None))
    return rows


def _norm_sqlite(x):
    if isinstance(x, float) and x == int(x):
        return int(x)
    return x


def _same_result(want, got) -> bool:
    from fractions import Fraction
    if isinstance(want, Fraction):
        if got is None or isinstance(got, str):
            return False
        return abs(float(want) - float(got)) < 1e-9
    return want == got


# ---------------------------------------------------------------------- tasks
def validate_sql_expr(expr: str, seed: int = 0, cap: int = 160) -> dict:
    rng = random.Random(f"{seed}:{expr}")
    out = {"expr": expr, "rows": 0, "skipped": 0, "solver_rows": 0, "mismatches": []}
    tree = SP.parse_expr(expr, "sqlite")
    for mode in ("sqlite", "standard"):
        try:
            if SP.parse_expr(SP.unparse(tree), mode) != tree:
                out["mismatches"].append({"kind": "parser-unparse", "mode": mode, "text": SP.unparse(tree)})
        except SP.SqlIllFormed as e:
            out["mismatches"].append({"kind": "parser-unparse", "mode": mode, "error": str(e)})
    db = SymDB.single_row(T_SCALAR)
    model = SqliteModel(db, scope=[{"t": db.slot("t")}])
    value = model.ev(tree)
    cols = sorted({c[2] for c in SP.columns(tree)})
    rows = _rows_for(cols, rng, cap)
    chosen = _solver_rows(db, model.side, value, 8)
    out["solver_rows"] = len(chosen)
    conn = sqlite3.connect(":memory:")
    db.create(conn)
    for row in rows + chosen:
        pairs = _subst_pairs(db, row)
        if not _side_ok(model.side, pairs):
            out["skipped"] += 1
            continue
        want = eval_value(value, pairs)
        if isinstance(want, bool):
            want = int(want)
        conn.execute('DELETE FROM "t"')
        db.load(conn, {"t": [row]})
        try:
            got = _norm_sqlite(conn.execute(f'SELECT {expr} FROM "t"').fetchone()[0])
        except sqlite3.Error as e:
            got = f"sqlite3 error: {e}"
        out["rows"] += 1
        if not _same_result(want, got) and len(out["mismatches"]) < 5:
            out["mismatches"].append({"kind": "sqlite-model", "row": row, "model": str(want), "sqlite3": got})
    conn.close()
    out["ops"] = model.used
    return out


def validate_odata_term(term, seed: int = 0, cap: int = 160) -> dict:
    rng = random.Random(f"{seed}:{term!r}")
    text = G.to_text(term)
    out = {"expr": text, "rows": 0, "skipped": 0, "solver_rows": 0, "mismatches": []}
    db = SymDB.single_row(T_SCALAR)
    ref = R.OdataRef(db.slot("t").cells)
    value = ref.ev(term)
    cols = sorted({x[1] for x in G.subterms(term) if x[0] == "field"})
    rows = _rows_for(cols, rng, cap)
    chosen = _solver_rows(db, ref.side, value, 8)
    out["solver_rows"] = len(chosen)
    for row in rows + chosen:
        pairs = _subst_pairs(db, row)
        try:
            want = R.eval_concrete(term, row)
            defined = True
        except R.Undefined:
            defined = False
        if not _side_ok(ref.side, pairs):
            out["skipped"] += 1
            # a row the symbolic side assumes away must be undefined or an overflow for the concrete one too
            continue
        if not defined:
            out["mismatches"].append({"kind": "odata-ref-domain", "row": row,
                                      "note": "concrete evaluator undefined where the symbolic one is defined"})
            continue
        got = eval_value(value, pairs)
        out["rows"] += 1
        if (got != want or type(got) is not type(want)) and len(out["mismatches"]) < 5:
            if isinstance(got, bool) != isinstance(want, bool) and got == want:
                continue
            out["mismatches"].append({"kind": "odata-ref", "row": row, "symbolic": got, "concrete": want})
    return out


def tasks() -> List[Tuple[str, Any]]:
    return [("sql", e) for e in SQL_EXPRS] + [("odata", t) for t in ODATA_TERMS] + [("relational", None)]


def run_task(task: Tuple[str, Any], seed: int = 0) -> dict:
    kind, payload = task
    try:
        if kind == "relational":
            r = validate_relational(seed)
        else:
            r = validate_sql_expr(payload, seed) if kind == "sql" else validate_odata_term(payload, seed)
    except Exception as e:                       # noqa: BLE001 - the validation itself broke: harness error
        import traceback
        r = {"expr": payload if kind == "sql" else (kind if payload is None else G.to_text(payload)), "rows": 0, "skipped": 0, "solver_rows": 0,
             "mismatches": [{"kind": "exception", "error": f"{type(e).__name__}: {e}", "tb": traceback.format_exc(limit=4)}]}
    r["task"] = kind
    return r


# ---------------------------------------------------------------------- the parser on the repo's pinned SQL strings
def harvest_pinned_sql(repo) -> List[Tuple[str, str, str]]:
    """(file, dialect mode, sql) for every SQL string pinned in the repo's SQL test parametrisations."""
    import ast as pyast
    from pathlib import Path
    out = []
    for sub in ("tests/unit/sql", "tests/integration/sql"):
        for path in sorted(Path(repo, sub).glob("test_*.py")):
            try:
                mod = pyast.parse(path.read_text())
            except (OSError, SyntaxError):
                continue
            mode = "sqlite" if "sqlite" in path.name else "standard"
            for node in pyast.walk(mod):
                if not (isinstance(node, pyast.Call) and getattr(node.func, "attr", "") == "parametrize" and len(node.args) >= 2):
                    continue
                names = node.args[0]
                if not isinstance(names, pyast.Constant) or not isinstance(names.value, str):
                    continue
                cols = [n.strip() for n in names.value.split(",")]
                idx = [i for i, n in enumerate(cols) if n in ("sql_expected", "expected")]
                if not idx or not isinstance(node.args[1], (pyast.List, pyast.Tuple)):
                    continue
                for elt in node.args[1].elts:
                    if isinstance(elt, pyast.Tuple) and len(elt.elts) > idx[0]:
                        c = elt.elts[idx[0]]
                        if isinstance(c, pyast.Constant) and isinstance(c.value, str):
                            out.append((path.name, mode, c.value))
    return out


def validate_parser_on_pinned(repo) -> dict:
    ok, rejected, broken = 0, [], []
    for fname, mode, sql in harvest_pinned_sql(repo):
        try:
            tree = SP.parse_expr(sql, mode)
        except SP.SqlIllFormed as e:
            rejected.append({"file": fname, "sql": sql, "error": f"{e.kind}: {e}"})
            continue
        except SP.SqlUnsupported as e:
            rejected.append({"file": fname, "sql": sql, "error": f"unsupported: {e}"})
            continue
        try:
            again = SP.parse_expr(SP.unparse(tree), mode)
        except (SP.SqlIllFormed, SP.SqlUnsupported) as e:
            broken.append({"file": fname, "sql": sql, "error": str(e)})
            continue
        if again != tree:
            broken.append({"file": fname, "sql": sql, "error": "parse(unparse(tree)) != tree"})
        else:
            ok += 1
    return {"ok": ok, "rejected": rejected, "broken": broken}


# ---------------------------------------------------------------------- relational part of the model (EXISTS, joins)
def _rel_specs():
    from .symdb import Col, TableSpec
    parent = TableSpec("parent", [Col("id", "int", nullable=False, pk=True), Col("n", "int"), Col("name", "str")], slots=2)
    child = TableSpec("child", [Col("id", "int", nullable=False, pk=True), Col("pid", "int", fk="parent"),
                                Col("k", "int"), Col("label", "str")], slots=3)
    return [parent, child]


REL_WHERE = [
    'EXISTS (SELECT 1 AS "x" FROM "child" U0 WHERE U0."pid" = "parent"."id" AND U0."k" = 1 LIMIT 1)',
    'NOT EXISTS (SELECT 1 FROM "child" U0 WHERE U0."pid" = "parent"."id" AND NOT (U0."k" > "parent"."n"))',
    'EXISTS (SELECT 1 FROM "child" U0 LEFT OUTER JOIN "parent" U1 ON (U0."pid" = U1."id") WHERE U1."n" IS NULL AND U0."k" = "parent"."n")',
    'EXISTS (SELECT 1 FROM "child" U0 INNER JOIN "parent" U1 ON (U0."pid" = U1."id") WHERE U1."id" = "parent"."id" AND U0."label" LIKE "parent"."name" || \'%\')',
    '"parent"."n" = 1 OR NOT EXISTS (SELECT 1 FROM "child" c WHERE c."pid" = "parent"."id")',
    '"parent"."id" IN (SELECT U0."pid" FROM "child" U0 WHERE U0."k" > 1)',
    'NOT ("parent"."id" IN (SELECT U0."pid" FROM "child" U0 WHERE U0."k" > 1))',
    '"parent"."id" NOT IN (SELECT U0."pid" FROM "child" U0)',
    '"parent"."n" IN (SELECT U0."k" FROM "child" U0 INNER JOIN "parent" U1 ON (U0."pid" = U1."id") WHERE U1."n" IS NOT NULL)',
]


def _full_subst(db: SymDB, content: Dict[str, List[dict]]) -> List[Tuple[Any, Any]]:
    pairs = []
    for tname, slots in db.tables.items():
        rows = content.get(tname, [])
        for i, s in enumerate(slots):
            row = rows[i] if i < len(rows) else None
            if not z3.is_true(s.present):
                pairs.append((s.present, z3.BoolVal(row is not None)))
            for name, v in s.cells.items():
                py = row.get(name) if row else None
                if not z3.is_true(v.null) and not z3.is_false(v.null):
                    pairs.append((v.null, z3.BoolVal(py is None)))
                if v.kind == "int":
                    dflt = (i + 1) if s.spec.col(name).pk else 0
                    pairs.append((v.val, V.bv(int(py) if py is not None else dflt)))
                elif v.kind == "bool":
                    pairs.append((v.val, z3.BoolVal(bool(py))))
                else:
                    txt = py or ""
                    pairs.append((v.len, V.lv(len(txt))))
                    for k, c in enumerate(v.c):
                        pairs.append((c, V.cv(V.IDX[txt[k]] if k < len(txt) else 0)))
    return pairs


def validate_relational(seed: int = 0, rounds: int = 60) -> dict:
    """EXISTS / JOIN unrolling of the model vs the real sqlite3 on random small databases."""
    rng = random.Random(f"rel:{seed}")
    out = {"expr": "relational (EXISTS / JOIN)", "rows": 0, "skipped": 0, "solver_rows": 0, "mismatches": []}
    specs = _rel_specs()
    for where in REL_WHERE:
        tree = SP.parse_expr(where, "sqlite")
        db = SymDB(specs)
        keeps = {}
        model = SqliteModel(db)
        for slot in db.tables["parent"]:
            model.scope = [{"parent": slot}]
            keeps[slot.index] = z3.And(slot.present, model.where(tree))
        for _ in range(rounds):
            nparent = rng.randint(0, 2)
            parents = [{"id": i + 1, "n": rng.choice([None, 0, 1, 2]), "name": rng.choice([None, "", "a", "ab", "%"])}
                       for i in range(nparent)]
            children = [{"id": j + 1, "pid": rng.choice([None] + [p["id"] for p in parents]),
                         "k": rng.choice([None, 0, 1, 2, 3]), "label": rng.choice([None, "", "a", "ab", "b", "aab"])}
                        for j in range(rng.randint(0, 3))]
            content = {"parent": parents, "child": children}
            pairs = _full_subst(db, content)
            if not _side_ok(model.side, pairs):
                out["skipped"] += 1
                continue
            want = sorted(parents[i]["id"] for i in range(nparent) if z3.is_true(_concrete(keeps[i], pairs)))
            conn = sqlite3.connect(":memory:")
            db.create(conn)
            db.load(conn, content)
            try:
                got = sorted(r[0] for r in conn.execute(f'SELECT "id" FROM "parent" WHERE {where}').fetchall())
            except sqlite3.Error as e:
                got = f"sqlite3 error: {e}"
            conn.close()
            out["rows"] += 1
            if got != want and len(out["mismatches"]) < 5:
                out["mismatches"].append({"kind": "sqlite-model-relational", "where": where, "db": content,
                                          "model": want, "sqlite3": got})
    return out
