"""Shared run plumbing of the ORM properties: program sets, worker pool, turning worker results into Run obligations."""
from __future__ import annotations

import os
import random
import sys
import time
from multiprocessing import get_context
from typing import Any, Callable, Dict, List, Optional, Tuple

from ..common import REPLAY_DIR, VIOLATION, Run
from . import filtergen as G

REPLAYS_PER_CLASS = 3


def clear_replays(pid: str) -> None:
    d = REPLAY_DIR / pid
    if d.is_dir():
        for f in d.glob("*.json"):
            f.unlink()


def scalar_items(tier: str, seed: int, sizes_quick: Dict[int, int], sizes_thorough: Dict[int, int], size2_quick: int,
                 extra_quick: Tuple[int, int], extra_thorough: Tuple[int, int]) -> Tuple[List[dict], Dict[str, Any]]:
    """The scalar program set (same generator as C01): special families, exhaustive size <= 1, sampled beyond."""
    rng = random.Random(seed)
    quick = tier == "quick"
    items: List[dict] = []
    seen = set()

    def add(fam, term, mode="abstract", full=False, values=None):
        key = (repr(term), mode, full, tuple(values or ()))
        if key in seen:
            return
        seen.add(key)
        items.append({"name": f"p{len(items)}", "family": fam, "term": term, "mode": mode, "full": full, "values": values})

    for fam, term in G.special_families():
        add(fam, term)
    for fam, term in G.same_field_chains():
        add(fam, term)
    for fam, term in G.real_family():
        add(fam, term)
    before = len(items)
    for fam, term in G.deep_bool((2, 3, 4) if quick else (2, 3, 4), G.bool_atoms(), rng, {3: 160, 4: 90} if quick else {4: 1200}):
        add(fam, term)
    for fam, term in G.deep_arith((2, 3), rng, {2: 40, 3: 60} if quick else {3: 600}):
        add(fam, term)
    for it in items[before:]:
        it["extra_alphabet"] = "()"
    for fam, term, extra in G.compact_family():
        add(fam, term)
        items[-1]["extra_alphabet"] = extra
    n_special = len(items)
    reduced = G.Cfg(G.scalar_leaves(["a", "%"]))
    for n in (0, 1):
        for t in reduced.terms("bool", n):
            add(f"size{n}", t)
    size2 = reduced.terms("bool", 2)
    take2 = size2_quick if quick else len(size2)
    for t in G.sample(size2, take2, rng):
        add("size2", t)
    core = G.Cfg(G.scalar_leaves(G.STR_POOL_CORE))
    full_pool = G.Cfg(G.scalar_leaves(G.STR_POOL_FULL))
    plan = sizes_quick if quick else sizes_thorough
    for n, cnt in plan.items():
        for i in range(cnt):
            try:
                add(f"size{n}", (core if i % 3 else full_pool).random_term(rng, "bool", n))
            except KeyError:
                continue
    nfull, nconc = extra_quick if quick else extra_thorough
    pool = [it for it in items if it["family"] != "strlit"]
    for it in G.sample(pool, nfull, rng):
        add(it["family"] + "+fullparens", it["term"], full=True)
    with_ints = [it for it in items if G.int_slots(it["term"]) and not it["full"]]
    small = [0, 1, 2, -1, 3, -2, 8, -8]
    for it in G.sample(with_ints, nconc, rng):
        k = G.int_slots(it["term"])
        add(it["family"] + "+concrete", it["term"], mode="concrete", values=[rng.choice(small) for _ in range(k)])
    info = {"special_families": n_special, "exhaustive": {"size0": reduced.count("bool", 0), "size1": reduced.count("bool", 1)},
            "size2": {"total": len(size2), "taken": min(take2, len(size2))}, "sampled": plan,
            "full_parentheses_variants": nfull, "concrete_literal_variants": nconc, "filters": len(items)}
    return items, info


def run_pool(fn: Callable[[dict], Any], items: List[dict], pid: str, pre: Optional[List[Tuple[Callable, tuple]]] = None,
             after_pre: Optional[Callable[[List[Any]], None]] = None) -> Tuple[List[Any], List[Any]]:
    """Map fn over items in a fork pool; `pre` tasks run first *inside the pool* (the parent never opens a database)
    and `after_pre(results)` may still adjust the items (known-finding regions) before they are dispatched."""
    progress = bool(os.environ.get("VERIF_PROGRESS"))
    nproc = min(16, os.cpu_count() or 4)
    out: List[Any] = []
    pre_out: List[Any] = []
    t0 = time.time()
    items = sorted(items, key=_cost, reverse=True)        # expensive programs first: no long tail on one worker
    with get_context("fork").Pool(nproc) as pool:
        for f, args in pre or []:
            pre_out.append(pool.apply(f, args))
        if after_pre is not None:
            after_pre(pre_out)
        for i, r in enumerate(pool.imap_unordered(fn, items, chunksize=2)):
            out.append(r)
            if progress and i % 200 == 0:
                print(f"[{pid}] {i}/{len(items)} {time.time() - t0:.0f}s", file=sys.stderr, flush=True)
    return pre_out, out


def _cost(item: dict) -> int:
    """Rough cost estimate of a program (only used to order the work)."""
    t = item.get("term")
    if t is None:
        return 0
    c = 0
    likes = concat = 0
    for x in G.subterms(t):
        if x[0] == "call":
            c += 2
            likes += x[1] in G.STR_FUNCS_BOOL
            concat += x[1] in ("concat", "substring")
        elif x[0] == "lambda":
            c += 4
    return c + 10 * likes * (1 + concat)


def _num(name: str) -> int:
    d = "".join(ch for ch in name if ch.isdigit())
    return int(d) if d else -1


def ingest(run: Run, results: List[dict], classify: Callable[[dict], str], label: Callable[[dict], str]) -> Dict[str, Any]:
    """Register obligation results with the Run; returns summary statistics for the evidence."""
    results.sort(key=lambda r: (_num(r.get("name", "")), r.get("backend", ""), r.get("ob", ""), str(r.get("variant", ""))))
    counts: Dict[str, Dict[str, int]] = {}
    classes: Dict[str, List[dict]] = {}
    refused: Dict[str, int] = {}
    crashes: Dict[str, dict] = {}
    outside: Dict[str, int] = {}
    for r in results:
        ob, st, b = r["ob"], r["status"], r.get("backend", "-")
        c = counts.setdefault(f"{ob}/{b}", {})
        c[st] = c.get(st, 0) + 1
        name = f"{r['name']}:{label(r)}"
        fam = f"{ob}/{b}"
        if ob == "accept":
            why = (r.get("why") or "").split("\n")[0]
            key = f"{b}: {st}: {why.split(':')[0]}"
            refused[key] = refused.get(key, 0) + 1
            if st in ("crash", "parser_rejected"):
                ck = f"{b}: {why[:110]}"
                e = crashes.setdefault(ck, {"count": 0, "filter": r.get("filter")})
                e["count"] += 1
                if len(r.get("filter", "")) < len(e["filter"]):
                    e["filter"] = r["filter"]
            continue
        if st == "discharged":
            run.discharged(name, fam, r.get("solver_s", 0.0), detail=r.get("detail") or {"sql": r.get("sql")},
                           nontrivial=r.get("nontrivial", True))
        elif st == "known":
            entry = next((e for e in run.known if e.get("id") == r.get("known_id")), {"id": r.get("known_id")})
            run.known_finding(entry, f"program inside region {r.get('known_id')}", name=name, family=fam)
        elif st == "violation":
            cls = classify(r)
            r["class"] = cls
            r.setdefault("witness", {})["defect_class"] = cls
            lst = classes.setdefault(cls, [])
            lst.append(r)
            if len(lst) <= REPLAYS_PER_CLASS:
                run.violation(name, r["witness"], f"[{cls}] {r['what']}", fam, r.get("solver_s", 0.0))
            else:
                run.add(name, VIOLATION, fam, {"what": f"[{cls}] {r['what']}"}, r.get("solver_s", 0.0))
        elif st == "inconclusive":
            run.inconclusive(name, fam, r.get("why"), r.get("solver_s", 0.0))
        elif st == "harness_error":
            run.harness_error(name, fam, {"why": r.get("why"), "witness": r.get("witness"), "sql": r.get("sql")})
        elif st == "outside":
            key = f"{b}: {(r.get('why') or '?')[:100]}"
            outside[key] = outside.get(key, 0) + 1
        if st in ("discharged", "violation") and ob == "ref" and r.get("sql"):
            run.sample({"filter": r["filter"], "backend": b, "sql": r["sql"], "params": r.get("params"), "verdict": st}, cap=12)
    for cls, lst in sorted(classes.items()):
        if len(lst) > REPLAYS_PER_CLASS:
            print(f"  ... {len(lst) - REPLAYS_PER_CLASS} more replayed violations of class [{cls}] (see evidence)", flush=True)
    minimal = {}
    for cls, lst in classes.items():
        best = min(lst, key=lambda r: (len(r["witness"].get("filter", r["filter"])), r["witness"].get("filter", r["filter"])))
        w = best["witness"]
        minimal[cls] = {"count": len(lst), "obligation": best["ob"], "backend": best.get("backend"), "filter": w.get("filter", best["filter"]),
                        "sql": w.get("sql"), "params": w.get("params"), "rows": w.get("rows"), "orm_result": w.get("orm_result"),
                        "odata_keeps_row": w.get("odata_keeps_row"), "other": {k: w[k] for k in ("other_backend", "other_filter", "other_sql", "other_result") if k in w} or None,
                        "what": best["what"],
                        "more_filters": sorted({r["witness"].get("filter", r["filter"]) for r in lst}, key=lambda x: (len(x), x))[1:20]}
    slow = sorted(results, key=lambda r: -r.get("solver_s", 0.0))[:8]
    return {"slowest_obligations": [{"filter": r.get("filter"), "ob": r["ob"], "backend": r.get("backend"), "status": r["status"],
                                     "solver_s": r.get("solver_s", 0.0)} for r in slow],
            "obligation_verdicts": counts, "violation_classes": minimal, "refused_or_crashed": refused,
            "foreign_exceptions": crashes, "outside_encoded_fragment": dict(sorted(outside.items(), key=lambda kv: -kv[1])[:25]),
            "n_outside": sum(outside.values())}
