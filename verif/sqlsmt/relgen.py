"""Relational OData filter grammar (C04 / C15): to-one paths, any / all lambdas, composition with plain predicates.

Roots: Parent (collections children / owned / minions / tags, self-referential to-one boss) and Child (to-one parent /
owner).  Terms use ('field', col) for columns of the root, ('path', [...]) for navigation, ('lambda', op, owner path,
variable, body) for collection predicates; integer literals are ('int', '?') slots (sentinels).
"""
from __future__ import annotations

import itertools
import random
from typing import Any, Dict, List, Sequence, Tuple

from . import filtergen as G

K = G.INT_Q
CMPS = ("eq", "gt", "le", "ne", "lt", "ge")


def P(*segs: str):
    return ("path", list(segs))


def F(name: str):
    return ("field", name)


def S(text: str):
    return ("str", text)


def cmp_(op, l, r):
    return ("cmp", op, l, r)


def lam(op: str, owner: Sequence[str], var=None, body=None):
    return ("lambda", op, list(owner), var, body)


# ---------------------------------------------------------------------- bodies over a child / parent / tag variable
def child_bodies(v: str, rich: bool) -> List[tuple]:
    out = [cmp_("gt", P(v, "k"), K), cmp_("eq", P(v, "k"), K), cmp_("eq", P(v, "label"), S("a")),
           ("and", cmp_("gt", P(v, "k"), K), cmp_("eq", P(v, "label"), S("a"))),
           ("not", cmp_("eq", P(v, "k"), K)),
           cmp_("gt", P(v, "owner", "n"), K), cmp_("eq", P(v, "parent", "n"), K)]
    if rich:
        out += [("or", cmp_("le", P(v, "k"), K), cmp_("ne", P(v, "label"), S("a"))),
                cmp_("gt", ("arith", "add", P(v, "k"), K), K), ("call", "startswith", [P(v, "label"), S("a")]),
                cmp_("eq", P(v, "owner", "name"), S("a")), cmp_("eq", P(v, "owner"), ("null",)),
                cmp_("ne", P(v, "k"), ("null",)), cmp_("eq", P(v, "owner", "boss", "n"), K),
                cmp_("eq", P(v, "k"), P(v, "owner", "n")), ("in", P(v, "k"), [K, K])]
    return out


def parent_bodies(v: str, rich: bool) -> List[tuple]:
    out = [cmp_("gt", P(v, "n"), K), cmp_("eq", P(v, "name"), S("a"))]
    if rich:
        out += [("not", cmp_("le", P(v, "n"), K)), cmp_("eq", P(v, "boss", "n"), K), cmp_("eq", P(v, "boss"), ("null",)),
                ("and", cmp_("ne", P(v, "n"), K), cmp_("ne", P(v, "name"), S("%")))]
    return out


def tag_bodies(v: str, rich: bool) -> List[tuple]:
    out = [cmp_("eq", P(v, "t"), S("a"))]
    if rich:
        out += [cmp_("ne", P(v, "t"), S("%")), ("call", "contains", [P(v, "t"), S("a")])]
    return out


# ---------------------------------------------------------------------- atoms per root
def parent_plain() -> List[tuple]:
    return [cmp_("eq", F("n"), K), cmp_("gt", F("n"), K), cmp_("eq", F("name"), S("a")), cmp_("eq", F("n"), ("null",)),
            cmp_("ne", F("name"), ("null",))]


def child_plain() -> List[tuple]:
    return [cmp_("eq", F("k"), K), cmp_("lt", F("k"), K), cmp_("eq", F("label"), S("a")), cmp_("eq", F("k"), ("null",))]


def parent_atoms(rich: bool) -> List[Tuple[str, tuple]]:
    out: List[Tuple[str, tuple]] = []
    # to-one paths (self-referential boss), depth <= 3, incl. through NULL keys
    for depth in (1, 2, 3):
        pre = ["boss"] * depth
        out.append(("to-one", cmp_("gt", P(*pre, "n"), K)))
        out.append(("to-one", cmp_("eq", P(*pre, "name"), S("a"))))
        out.append(("to-one", cmp_("eq", P(*pre, "n"), ("null",))))
        if rich:
            out.append(("to-one", cmp_("ne", P(*pre, "name"), ("null",))))
            out.append(("to-one", cmp_("le", K, P(*pre, "n"))))
    out.append(("to-one", cmp_("eq", F("boss"), ("null",))))
    out.append(("to-one", cmp_("ne", F("boss"), ("null",))))
    out.append(("to-one", cmp_("eq", P("boss", "n"), F("n"))))
    out.append(("to-one", cmp_("eq", P("boss", "boss"), ("null",))))
    if rich:
        out.append(("to-one", ("call", "contains", [P("boss", "name"), S("a")])))
        out.append(("to-one", cmp_("gt", ("arith", "add", P("boss", "n"), F("n")), K)))
        out.append(("to-one", ("in", P("boss", "n"), [K, F("n")])))
    # collections
    for coll, bodies, var in (("children", child_bodies, "c"), ("owned", child_bodies, "o"), ("minions", parent_bodies, "m"),
                              ("tags", tag_bodies, "t")):
        out.append(("any()", lam("any", [coll])))
        for b in bodies(var, rich):
            out.append(("any", lam("any", [coll], var, b)))
            out.append(("all", lam("all", [coll], var, b)))
    # collection through a to-one path
    out.append(("coll-via-to-one", lam("any", ["boss", "children"], "c", cmp_("eq", P("c", "k"), K))))
    out.append(("coll-via-to-one", lam("any", ["boss", "tags"])))
    out.append(("coll-via-to-one", lam("all", ["boss", "minions"], "m", cmp_("gt", P("m", "n"), K))))
    out.append(("coll-via-to-one", lam("any", ["boss", "boss", "children"])))
    # nested lambdas (depth 2)
    out.append(("nested", lam("any", ["children"], "c", lam("all", ["c", "owner", "children"], "d", cmp_("eq", P("d", "k"), K)))))
    out.append(("nested", lam("any", ["children"], "c", lam("any", ["c", "owner", "tags"]))))
    out.append(("nested", lam("any", ["minions"], "m", lam("any", ["m", "children"], "c", cmp_("gt", P("c", "k"), K)))))
    out.append(("nested", lam("all", ["minions"], "m", lam("all", ["m", "children"], "c", cmp_("gt", P("c", "k"), K)))))
    out.append(("nested", lam("all", ["children"], "c", lam("any", ["c", "parent", "minions"]))))
    out.append(("nested", lam("any", ["tags"], "t", lam("any", ["t", "parents"], "p", cmp_("gt", P("p", "n"), K)))))
    # two lambdas over the SAME collection with different bodies, joined by and / or (they must not be merged)
    for coll, var, p1, p2 in (("children", "c", cmp_("gt", P("c", "k"), K), cmp_("eq", P("c", "label"), S("a"))),
                              ("children", "c", cmp_("gt", P("c", "k"), K), cmp_("lt", P("c", "k"), K)),
                              ("tags", "t", cmp_("eq", P("t", "t"), S("a")), cmp_("eq", P("t", "t"), S("b"))),
                              ("minions", "m", cmp_("gt", P("m", "n"), K), cmp_("eq", P("m", "name"), S("a")))):
        v2 = var + "2"
        q2 = G.map_term(p2, lambda x: ("path", [v2] + x[1][1:]) if x[0] == "path" and x[1][0] == var else x)
        for q, op in (("any", "and"), ("any", "or"), ("all", "or"), ("all", "and")):
            out.append(("lambda-pair", (op, lam(q, [coll], var, p1), lam(q, [coll], v2, q2))))
        out.append(("lambda-pair", ("not", ("and", lam("any", [coll], var, p1), lam("any", [coll], v2, q2)))))
        out.append(("lambda-pair", ("not", ("or", lam("all", [coll], var, p1), lam("all", [coll], v2, q2)))))
        out.append(("lambda-pair", ("and", lam("any", [coll], var, p1), lam("all", [coll], v2, q2))))
        out.append(("lambda-pair", ("and", ("and", lam("any", [coll], var, p1), lam("any", [coll], v2, q2)), cmp_("gt", F("n"), K))))
    # `notes` is a collection on Parent AND on Child: both used as lambda owners in one filter
    pn = lambda v, txt: lam("any", ["notes"], v, cmp_("eq", P(v, "text"), S(txt)))
    cn = lambda q, txt: lam("any", ["children"], "c", lam(q, ["c", "notes"], "y", cmp_("eq", P("y", "text"), S(txt))))
    out.append(("same-name-colls", pn("x", "a")))
    out.append(("same-name-colls", lam("all", ["notes"], "x", cmp_("eq", P("x", "text"), S("a")))))
    out.append(("same-name-colls", cn("any", "b")))
    out.append(("same-name-colls", cn("all", "b")))
    for op in ("and", "or"):
        out.append(("same-name-colls", (op, pn("x", "a"), cn("any", "b"))))
        out.append(("same-name-colls", (op, cn("any", "b"), pn("x", "a"))))
        out.append(("same-name-colls", (op, ("not", pn("x", "a")), cn("all", "b"))))
    out.append(("same-name-colls", lam("any", ["notes"], "x", lam("any", ["x", "child", "notes"], "y", cmp_("eq", P("y", "text"), S("a"))))))
    out.append(("same-name-colls", lam("any", ["notes"])))
    # the root's own column inside a lambda body ($it)
    out.append(("outer-ref", lam("any", ["children"], "c", cmp_("gt", P("c", "k"), F("n")))))
    out.append(("outer-ref", lam("all", ["minions"], "m", cmp_("le", P("m", "n"), F("n")))))
    return out


def child_atoms(rich: bool) -> List[Tuple[str, tuple]]:
    out: List[Tuple[str, tuple]] = []
    for rel in ("parent", "owner"):
        out.append(("to-one", cmp_("gt", P(rel, "n"), K)))
        out.append(("to-one", cmp_("eq", P(rel, "name"), S("a"))))
        out.append(("to-one", cmp_("eq", P(rel, "n"), ("null",))))
        out.append(("to-one", cmp_("eq", F(rel), ("null",))))
        out.append(("to-one", cmp_("ne", F(rel), K)))
        out.append(("to-one", cmp_("gt", P(rel, "boss", "n"), K)))
        out.append(("to-one", cmp_("eq", P(rel, "boss", "boss", "name"), S("a"))))
        out.append(("coll-via-to-one", lam("any", [rel, "children"], "c", cmp_("gt", P("c", "k"), K))))
        out.append(("coll-via-to-one", lam("all", [rel, "children"], "c", cmp_("gt", P("c", "k"), F("k")))))
        out.append(("coll-via-to-one", lam("any", [rel, "tags"], "t", cmp_("eq", P("t", "t"), S("a")))))
        out.append(("coll-via-to-one", lam("any", [rel, "minions"])))
        # all() over a collection reached through a to-one path: vacuously true when the key is NULL
        out.append(("coll-via-to-one", lam("all", [rel, "children"], "c", cmp_("gt", P("c", "k"), K))))
        out.append(("coll-via-to-one", lam("all", [rel, "tags"], "t", cmp_("eq", P("t", "t"), S("a")))))
        out.append(("coll-via-to-one", lam("all", [rel, "minions"], "m", cmp_("gt", P("m", "n"), K))))
        out.append(("coll-via-to-one", ("not", lam("all", [rel, "children"], "c", cmp_("eq", P("c", "label"), S("a"))))))
        out.append(("coll-via-to-one", ("or", lam("all", [rel, "owned"], "o", cmp_("gt", P("o", "k"), K)), cmp_("eq", F("k"), K))))
        out.append(("coll-via-to-one", ("and", lam("all", [rel, "children"], "c", cmp_("gt", P("c", "k"), K)), cmp_("eq", F(rel), ("null",)))))
        if rich:
            out.append(("to-one", cmp_("le", K, P(rel, "n"))))
            out.append(("to-one", ("call", "startswith", [P(rel, "name"), S("a")])))
            out.append(("to-one", cmp_("eq", P(rel, "n"), F("k"))))
    out.append(("same-name-colls", lam("any", ["notes"], "x", cmp_("eq", P("x", "text"), S("a")))))
    out.append(("same-name-colls", lam("all", ["notes"], "x", cmp_("eq", P("x", "text"), S("a")))))
    out.append(("same-name-colls", lam("any", ["notes"])))
    out.append(("same-name-colls", ("and", lam("any", ["notes"], "x", cmp_("eq", P("x", "text"), S("a"))), lam("any", ["parent", "notes"]))))
    out.append(("to-one", cmp_("eq", P("parent", "n"), P("owner", "n"))))
    out.append(("to-one", ("and", cmp_("gt", P("parent", "n"), K), cmp_("eq", P("owner", "name"), S("a")))))
    return out


def ticket_atoms() -> List[Tuple[str, tuple]]:
    """Second schema: Ticket.owner -> User and Project.owner -> Team are different relationships with the same name."""
    a1 = cmp_("eq", P("project", "owner", "name"), S("a"))
    a2 = cmp_("eq", P("owner", "name"), S("b"))
    out = [("same-name-rels", ("and", a1, a2)), ("same-name-rels", ("and", a2, a1)), ("same-name-rels", ("or", a1, a2)),
           ("same-name-rels", ("and", ("not", a1), a2)), ("same-name-rels", cmp_("eq", P("project", "owner", "name"), P("owner", "name"))),
           ("same-name-rels", ("and", cmp_("ne", P("owner", "name"), ("null",)), cmp_("eq", P("project", "owner", "name"), ("null",)))),
           ("same-name-rels", ("and", ("and", a1, a2), cmp_("gt", F("n"), K))),
           ("same-name-rels", ("or", cmp_("eq", P("project", "name"), S("a")), ("and", a2, a1))),
           ("to-one2", a1), ("to-one2", a2), ("to-one2", cmp_("eq", P("project", "name"), S("a"))),
           ("to-one2", cmp_("eq", P("project", "owner"), ("null",))), ("to-one2", ("or", a1, cmp_("eq", F("n"), K))),
           # Project.owner_id is NOT NULL but follows the nullable hop Ticket.project: the team may still be missing
           ("notnull-after-nullable", cmp_("eq", P("project", "owner", "name"), ("null",))),
           ("notnull-after-nullable", ("or", cmp_("eq", P("project", "owner", "name"), ("null",)), cmp_("eq", F("n"), K))),
           ("notnull-after-nullable", ("not", a1)),
           ("notnull-after-nullable", ("or", ("not", a1), cmp_("gt", F("n"), K))),
           ("notnull-after-nullable", ("and", cmp_("eq", P("project"), ("null",)) if False else cmp_("eq", F("project"), ("null",)),
                                       cmp_("eq", P("project", "owner", "name"), ("null",)))),
           ("notnull-after-nullable", ("or", a1, cmp_("eq", F("project"), ("null",))))]
    return out


# ---------------------------------------------------------------------- composition
def compose(atoms: List[Tuple[str, tuple]], plain: List[tuple], rng: random.Random, budget: int, pairs: int
            ) -> List[Tuple[str, tuple]]:
    out: List[Tuple[str, tuple]] = []
    for fam, a in atoms:
        out.append((fam, a))
    shapes = [lambda a, p: ("not", a), lambda a, p: ("and", a, p), lambda a, p: ("or", a, p),
              lambda a, p: ("or", p, ("not", a)), lambda a, p: ("not", ("or", a, p)), lambda a, p: ("and", ("not", p), a)]
    combos = [(fam, sh, a, p) for (fam, a) in atoms for sh in shapes for p in plain]
    rng.shuffle(combos)
    # every atom gets at least `not`, one `and`, one `or`
    for fam, a in atoms:
        out.append((fam + "+not", ("not", a)))
        out.append((fam + "+or", ("or", a, plain[len(out) % len(plain)])))
        out.append((fam + "+and", ("and", a, plain[(len(out) + 1) % len(plain)])))
    for fam, sh, a, p in combos[:budget]:
        out.append((fam + "+comp", sh(a, p)))
    pool = list(atoms)
    for _ in range(pairs):
        (f1, a1), (f2, a2) = rng.choice(pool), rng.choice(pool)
        op = rng.choice(["and", "or"])
        t = (op, a1, a2) if rng.random() < 0.7 else (op, ("not", a1), a2)
        out.append((f1 + "&" + f2, t))
    return out


def vary_ops(t, rng: random.Random):
    """Replace comparison operators (not null tests) by seeded other ones - more programs from the same shapes."""
    def f(x):
        if x[0] == "cmp" and x[2][0] != "null" and x[3][0] != "null" and rng.random() < 0.5:
            strs = any(o[0] == "str" for o in (x[2], x[3]))
            return ("cmp", rng.choice(("eq", "ne") if strs else CMPS), x[2], x[3])
        return x
    return G.map_term(t, f)


def programs(tier: str, seed: int) -> Tuple[List[dict], Dict[str, Any]]:
    rng = random.Random(seed)
    quick = tier == "quick"
    items: List[dict] = []
    seen = set()

    def add(model, fam, term):
        key = (model, repr(term))
        if key in seen:
            return
        seen.add(key)
        items.append({"name": f"r{len(items)}", "model": model, "family": fam, "term": term})

    pa, ca = parent_atoms(not quick), child_atoms(not quick)
    for fam, t in compose(pa, parent_plain(), rng, 120 if quick else 1500, 40 if quick else 800):
        add("Parent", fam, t)
    for fam, t in compose(ca, child_plain(), rng, 40 if quick else 500, 15 if quick else 300):
        add("Child", fam, t)
    for fam, t in ticket_atoms():
        add("Ticket", fam, t)
    # deep boolean skeletons (every association shape of 3 connectives, and/or assignment, optional not) over atoms
    rel_atoms = [cmp_("gt", F("n"), K), lam("any", ["children"], "c", cmp_("gt", P("c", "k"), K)), cmp_("eq", F("name"), S("a")),
                 lam("any", ["tags"]), cmp_("eq", F("n"), ("null",))]
    for fam, t in G.deep_bool((3,), rel_atoms, rng, {3: 40 if quick else 320}):
        add("Parent", fam, t)
    if not quick:
        base = list(items)
        for it in base:
            for _ in range(2):
                add(it["model"], it["family"] + "+ops", vary_ops(it["term"], rng))
    info = {"parent_atoms": len(pa), "child_atoms": len(ca), "filters": len(items),
            "paths": "to-one depth <= 3 (boss/boss/boss/n, parent/boss/boss/name), through NULL keys",
            "lambdas": "any(), any(x: p), all(x: p) over children / owned / minions / tags, nesting <= 2, collection "
                       "reached through to-one paths, to-one paths and the root's own column inside bodies"}
    return items, info


def features(t) -> List[str]:
    f = set(G.features(t))
    self_rels = {"boss", "minions"}

    def walk(x, depth, bound):
        k = x[0]
        if k == "path":
            segs = x[1]
            nav = segs[1:-1] if segs[0] in bound else segs[:-1]
            if nav:
                f.add("path")
                if bound:
                    f.add("path-inside-lambda")
                if any(s in self_rels for s in nav):
                    f.add("self-path")
        elif k == "field" and bound:
            f.add("outer-ref-in-lambda")
        elif k == "lambda":
            f.add("lambda:" + x[1])
            if depth >= 1:
                f.add("nested-lambda")
            owner = x[2]
            nav = owner[1:-1] if owner[0] in bound else owner[:-1]
            if nav:
                f.add("collection-via-to-one")
                if bound:
                    f.add("collection-via-to-one-inside-lambda")
                if any(s in self_rels for s in nav):
                    f.add("self-path")
            if owner[-1] in self_rels:
                f.add("self-collection")
            if owner[-1] in ("tags", "parents"):
                f.add("m2m")
            if x[4] is not None:
                walk(x[4], depth + 1, bound | {x[3]})
            return
        for c in _children(x):
            walk(c, depth, bound)

    walk(t, 0, frozenset())
    # two different top-level to-one paths into the same table (each needs its own aliased join)
    from ..models.schema import REL
    for root in ("vt_parent", "vt_child", "vt2_ticket", "vt2_project"):
        targets: Dict[str, set] = {}
        for x in _toplevel(t):
            segs = x[1] if x[0] == "path" else x[2]
            tb = root
            for i, sname in enumerate(segs[:-1]):
                rel = REL.get((tb, sname))
                if rel is None or rel[0] != "one":
                    break
                targets.setdefault(rel[1], set()).add(tuple(segs[:i + 1]))
                tb = rel[1]
        if any(len(v) > 1 for v in targets.values()):
            f.add("two-paths-same-table")
    return sorted(f)


def _toplevel(t):
    """paths and lambdas outside any lambda body"""
    if t[0] in ("path", "lambda"):
        yield t
        return
    for c in _children(t):
        yield from _toplevel(c)


def _children(x):
    k = x[0]
    if k in ("neg", "not"):
        return [x[1]]
    if k in ("and", "or"):
        return [x[1], x[2]]
    if k in ("cmp", "arith"):
        return [x[2], x[3]]
    if k == "in":
        return [x[1]] + list(x[2])
    if k == "call":
        return list(x[2])
    return []
