"""ORM back ends as compilers: program extraction, parsing, symbolic semantics, replay (C02, C03, C04, C15).

A *backend* turns (root model, filter text) into a SQL program by running the REAL shorthand:
  django      odata_query.django.apply_odata_query(Model.objects.all(), f).query.sql_with_params()     (%s, %%)
  sa_select   odata_query.sqlalchemy.apply_odata_query(select(M), f)              compiled for the SQLite dialect (?)
  sa_query    odata_query.sqlalchemy.apply_odata_query(session.query(M), f).statement
  sa_core     odata_query.sqlalchemy.apply_odata_core(select(M.__table__), f)
The whole SELECT statement is parsed by the independent parser (placeholders bound to the parameter list), its
FROM / JOIN / WHERE is given SQLite-model semantics over the symbolic database, and z3 compares the set of root rows
it returns with the OData reference.  Counterexamples are replayed through the same ORM on a real in-memory SQLite.
"""
from __future__ import annotations

import time
import traceback
from typing import Any, Dict, List, Optional, Sequence, Tuple

import z3

from . import filtergen as G
from . import odata_ref as R
from . import regions
from . import sqlparse_ind as SP
from . import values as V
from .sqlite_model import SqliteModel
from .symdb import Col, SymDB, TableSpec

BACKENDS = ("django", "sa_select", "sa_query", "sa_core")
ASSUMED_ID = "sa-function-missing-on-sqlite"
SA_BACKENDS = ("sa_select", "sa_query", "sa_core")
FIELD_MAP = {"a": "n", "b": "m", "s": "name", "u": "title", "f": "flag"}
T_ITEM = TableSpec("vt_item", [Col("id", "int", nullable=False, pk=True), Col("n", "int"), Col("m", "int"),
                               Col("name", "str"), Col("title", "str"), Col("flag", "bool")], slots=1)
NEUTRAL_ITEM = {"id": 1, "n": 0, "m": 0, "name": "", "title": "", "flag": False}
ITEM_ROWS = [
    {"id": 1, "n": 1, "m": 2, "name": "a", "title": "b", "flag": True},
    {"id": 1, "n": 0, "m": -1, "name": "", "title": "a", "flag": False},
    {"id": 1, "n": None, "m": 3, "name": None, "title": "%", "flag": None},
    {"id": 1, "n": 3, "m": 2, "name": "aA", "title": "a", "flag": True},
]
IDENTS = {"vt_item", "vt_parent", "vt_child", "vt_tag", "vt_parent_tags", "id", "n", "m", "name", "title", "flag", "k",
          "label", "t", "boss_id", "parent_id", "owner_id", "tag_id", "vt2_user", "vt2_team", "vt2_project", "vt2_ticket",
          "project_id", "vt_note", "text", "child_id"}


# ====================================================================== program extraction (the live code)
def _models(backend: str, model: str = "Item"):
    from ..models.schema import SCHEMA2_MODELS
    if model in SCHEMA2_MODELS:
        if backend == "django":
            raise KeyError(f"{model} exists in the SQLAlchemy schema only")
        from ..models import sa2
        return sa2
    if backend == "django":
        from ..models import setup
        return setup.django_setup()
    from ..models import sa
    return sa


def build(backend: str, text: str, model: str = "Item", base: Optional[str] = None) -> Tuple[str, Any]:
    """-> ('ok', (sql, params)) | ('parser_rejected' | 'refused' | 'crash', message).
    `base` names a pre-built host query (C15); None = the plain `Model.objects.all()` / `select(Model)`."""
    from odata_query import exceptions as ex
    try:
        if backend == "django":
            from odata_query.django import apply_odata_query
            qs = base_query(backend, model, base)
            out = apply_odata_query(qs, text)
            from django.core.exceptions import EmptyResultSet
            try:
                sql, params = out.query.sql_with_params()
            except EmptyResultSet:
                # Django's way of saying "this queryset can never match" - the queryset itself evaluates to []
                t = out.model._meta.db_table
                return "ok", (f'SELECT "{t}"."id" FROM "{t}" WHERE 0 = 1', [])
            return "ok", (sql, list(params))
        from sqlalchemy.dialects import sqlite
        stmt = sa_statement(backend, text, model, base)
        c = stmt.compile(dialect=sqlite.dialect())
        names = list(c.positiontup or [])
        return "ok", (c.string, [c.params[k] for k in names])
    except (ex.ParsingException, ex.TokenizingException) as e:
        return "parser_rejected", f"{type(e).__name__}: {e}"
    except ex.ODataException as e:
        return "refused", f"{type(e).__name__}: {e}"
    except NotImplementedError as e:
        if backend == "sa_core":
            return "refused", f"NotImplementedError: {e}"       # documented for Core paths / lambdas
        return "crash", f"NotImplementedError: {e}"
    except Exception as e:                                         # noqa: BLE001 - a foreign exception (C12's business)
        return "crash", f"{type(e).__name__}: {e}"


def base_query(backend: str, model: str, base: Optional[str], session=None):
    """The host query the shorthand is applied to.  `base` (C15) selects a pre-built variant."""
    M = _models(backend, model)
    cls = getattr(M, model)
    if backend == "django":
        from .ormbases import django_base
        return django_base(M, cls, base)
    from .ormbases import sa_base
    return sa_base(M, cls, backend, base, session)


def sa_statement(backend: str, text: str, model: str, base: Optional[str], session=None):
    from odata_query.sqlalchemy import apply_odata_core, apply_odata_query
    q = base_query(backend, model, base, session)
    if backend == "sa_core":
        return apply_odata_core(q, text)
    out = apply_odata_query(q, text)
    return out.statement if backend == "sa_query" else out


def parse_program(backend: str, sql: str, params: Sequence[Any]):
    style = "format" if backend == "django" else "qmark"
    return SP.parse_select(sql, "sqlite", params=list(params), paramstyle=style, idents=IDENTS)


# ====================================================================== functions the real engine has
_FUNCS: Dict[str, set] = {}


def available_functions(backend: str) -> set:
    """Names of the SQL functions of the connection the ORM would use (asked from the real sqlite3 at run time)."""
    key = "django" if backend == "django" else "sa"
    if key not in _FUNCS:
        if key == "django":
            from ..models import setup
            setup.django_tables()
            from django.db import connection
            with connection.cursor() as cur:
                cur.execute("SELECT DISTINCT name FROM pragma_function_list")
                names = {r[0].upper() for r in cur.fetchall()}
        else:
            from ..models import setup
            eng = setup.sa_engine()
            with eng.connect() as conn:
                names = {r[0].upper() for r in conn.exec_driver_sql("SELECT DISTINCT name FROM pragma_function_list")}
            eng.dispose()
        _FUNCS[key] = names
    return _FUNCS[key]


def missing_functions(backend: str, tree) -> List[str]:
    have = available_functions(backend)
    out = []
    for n in SP.walk(tree):
        if n[0] == "call" and n[1].upper() not in have and n[1] not in out:
            out.append(n[1])
    return out


# ====================================================================== replay through the real ORM
def replay(backend: str, text: str, content: Dict[str, List[dict]], model: str = "Item", base: Optional[str] = None,
           assumed: bool = False) -> Tuple[str, Any]:
    """-> ('rows', sorted list of root primary keys, duplicates kept) | ('error', message)"""
    try:
        if backend == "django":
            return _replay_django(text, content, model, base)
        return _replay_sa(backend, text, content, model, base, assumed)
    except Exception as e:                                         # noqa: BLE001
        return "error", f"{type(e).__name__}: {str(e).splitlines()[0] if str(e) else ''}"


_DJ_ORDER = ("vt_item", "vt_tag", "vt_parent", "vt_child", "vt_parent_tags", "vt_note")
_SA_ORDER = _DJ_ORDER + ("vt2_user", "vt2_team", "vt2_project", "vt2_ticket")
_NOFILTER = object()


def _replay_django(text, content, model, base):
    from ..models import setup
    M = setup.django_tables()
    setup.django_clear()
    from odata_query.django import apply_odata_query
    cls_of = {"vt_item": M.Item, "vt_tag": M.Tag, "vt_parent": M.Parent, "vt_child": M.Child, "vt_note": M.Note,
              "vt_parent_tags": M.Parent.tags.through}
    for t in _DJ_ORDER:
        rows = content.get(t, [])
        if t == "vt_parent":                      # self-reference: insert without the boss first
            for r in rows:
                cls_of[t].objects.create(**{k: v for k, v in r.items() if k != "boss_id"})
            for r in rows:
                if r.get("boss_id") is not None:
                    cls_of[t].objects.filter(pk=r["id"]).update(boss_id=r["boss_id"])
        else:
            for r in rows:
                cls_of[t].objects.create(**r)
    qs = base_query("django", model, base)
    qs = qs.all() if text is None else apply_odata_query(qs, text)
    return "rows", sorted(qs.values_list("pk", flat=True))


def _replay_sa(backend, text, content, model, base, assumed=False):
    import sqlalchemy as sa
    from sqlalchemy.orm import Session
    from ..models import sa as S, sa2 as S2, setup
    eng = setup.sa_engine(register_assumed=assumed)
    tables = dict(S.Base.metadata.tables)
    tables.update(S2.Base.metadata.tables)
    try:
        with eng.begin() as conn:
            conn.exec_driver_sql("PRAGMA foreign_keys=OFF")
            for t in _SA_ORDER:
                for r in content.get(t, []):
                    conn.execute(tables[t].insert().values(**r))
        with Session(eng) as s:
            if text is None:
                stmt = base_query(backend, model, base, s)
                stmt = stmt.statement if backend == "sa_query" else stmt
            else:
                stmt = sa_statement(backend, text, model, base, session=s)
            res = s.execute(stmt)
            if backend == "sa_core":
                ids = [row[0] for row in res]
            else:
                ids = [obj.id for obj in res.scalars()]
        return "rows", sorted(ids)
    finally:
        eng.dispose()


# ====================================================================== one filter, scalar table (C02 / C03)
def _instantiate(item: dict):
    term0 = G.rename_fields(item["term"], FIELD_MAP)
    if item.get("mode", "abstract") == "abstract" and G.int_slots(term0):
        return G.with_sentinels(term0)
    vals = item.get("values") or [1, 2, 3, 0, -1, 2, 1, 3]
    n = G.int_slots(term0)
    vals = (list(vals) * (n // max(len(vals), 1) + 1))[:n]
    return G.with_values(term0, vals), []


def _prefs(db: SymDB, table: str, consts, term) -> List[Any]:
    used = {x[1] for x in G.subterms(term) if x[0] == "field"}
    prefs: List[Any] = []
    cells = db.slot(table).cells
    strs = [v for c, v in cells.items() if c in used and v.kind == "str"]
    ints = [v for c, v in cells.items() if c in used and v.kind == "int"] + list(consts.values())
    for n in (1, 2):
        prefs += [z3.Or(v.null, z3.ULE(v.len, n)) for v in strs]
    for lo, hi in ((0, 2), (-2, 3)):
        prefs += [z3.Or(v.null, z3.And(v.val >= lo, v.val <= hi)) for v in ints]
    return prefs


def _shrink(solver, prefs) -> Any:
    m = solver.model()
    for p in prefs:
        solver.push()
        solver.add(p)
        if solver.check() == z3.sat:
            m = solver.model()
        else:
            solver.pop()
    return m


class ScalarCheck:
    """All obligations of one filter over the scalar table: reference per backend, pairwise agreement, keyword case."""

    def __init__(self, item: dict):
        self.item = item
        self.res: List[dict] = []
        self.full = bool(item.get("full"))
        self.timeout_ms = int(item.get("timeout_ms", 10000))
        self.active: List[str] = list(item.get("regions", []))
        self.term, self.sent = _instantiate(item)
        self.text = G.to_text(self.term, self.full)
        self.feats = G.features(self.term)
        self.db = SymDB.single_row(T_ITEM)
        self.slot = self.db.slot("vt_item")
        self.consts: Dict[int, V.IntV] = {}
        self.ccons: List[Any] = []
        for s in self.sent:
            v, cons = V.ivar(f"lit{s}", nullable=False)
            self.consts[s] = v
            self.ccons += cons
        self.ref = None
        self.ref_keep = None
        self._adj = None
        self.progs: Dict[str, dict] = {}

    # -------------------------------------------------------------- helpers
    def emit(self, ob: str, backend: str, status: str, **kw):
        d = {"name": self.item["name"], "family": self.item.get("family", ""), "filter": self.text, "ob": ob,
             "backend": backend, "status": status, "features": self.feats, "solver_s": 0.0}
        p = self.progs.get(backend)
        if p and "sql" in p:
            d["sql"], d["params"] = p["sql"], p["params"]
        d.update(kw)
        self.res.append(d)

    def reference(self):
        if self.ref is None:
            self.ref = R.OdataRef(self.slot.cells, self.consts)
            self.ref_keep = self.ref.keeps(self.term)
        return self.ref_keep

    def solver(self, extra_side: Sequence[Any] = ()):
        s = z3.Solver()
        s.set("timeout", self.timeout_ms)
        s.add(self.db.cons + self.ccons + list(extra_side))
        return s

    def program(self, backend: str, text: str) -> dict:
        """Build + parse + symbolic semantics of one program; never raises."""
        p: Dict[str, Any] = {"backend": backend, "text": text}
        st, payload = build(backend, text)
        p["status"] = st
        if st != "ok":
            p["why"] = payload
            return p
        p["sql"], p["params"] = payload
        try:
            p["tree"] = parse_program(backend, p["sql"], p["params"])
        except SP.SqlIllFormed as e:
            p["status"] = "illformed"
            p["why"] = f"{e.kind}: {e}"
            return p
        except SP.SqlUnsupported as e:
            p["status"] = "outside"
            p["why"] = f"SQL outside the parser's subset: {e}"
            return p
        sel = p["tree"][1]
        missing = missing_functions(backend, sel["where"]) if sel["where"] is not None else []
        p["assumed"] = []
        if missing and ASSUMED_ID in self.active and backend in SA_BACKENDS and {m.upper() for m in missing} <= {"STRPOS", "CONCAT"}:
            p["assumed"] = missing           # known finding: check the program with strpos = INSTR, concat = ||
        elif missing:
            p["status"] = "nofunc"
            p["why"] = f"function(s) {missing} do not exist in this SQLite"
            p["missing"] = missing
            return p
        try:
            track = any(r in regions.DYNAMIC for r in self.active)
            model = SqliteModel(self.db, scope=[{"vt_item": self.slot}], consts=self.consts, track_like=track,
                                assume_functions=bool(p["assumed"]))
            p["keep"] = model.where(sel["where"]) if sel["where"] is not None else V.TRUE
            p["side"] = model.side
            p["likes"] = model.likes
            p["coalesced"] = model.coalesced
            p["ops"] = model.used
        except V.Unmodelled as e:
            p["status"] = "outside"
            p["why"] = str(e)
        return p

    def region_constraints(self, backend: str, p: dict) -> Tuple[Dict[str, Any], List[Any]]:
        """({id -> `not region`} for every active dynamic known finding that applies, extra side conditions)"""
        if not self.active:
            return {}, []
        ctx: Dict[str, Any] = {"likes": p.get("likes", []), "coalesced": p.get("coalesced", []), "sql_keep": p.get("keep"),
                               "adjusted": {}, "nonliteral_patterns": []}
        if "like-field-pattern-wildcards" in self.active:
            # OData-level statement of the region: the reference value of a non-literal pattern argument has % or _
            for sub in G.subterms(self.term):
                if sub[0] == "call" and sub[1] in G.STR_FUNCS_BOOL and len(sub[2]) == 2 and sub[2][1][0] != "str":
                    try:
                        v = self.ref.ev(sub[2][1])
                    except V.Unmodelled:
                        continue
                    if getattr(v, "kind", None) == "str":
                        ctx["nonliteral_patterns"].append(v)
        extra: List[Any] = []
        if "sa-div-true-division" in self.active and backend in SA_BACKENDS and "op:div" in self.feats:
            if self._adj is None:
                try:
                    adj = R.OdataRef(self.slot.cells, self.consts, real_div=True)
                    self._adj = (adj.keeps(self.term), adj.side)
                except V.Unmodelled:
                    self._adj = (None, [])
            if self._adj[0] is not None:
                ctx["adjusted"]["real_div"] = self._adj[0]
                extra += self._adj[1]
        return regions.dynamic_map(self.active, ctx), extra

    def decode(self, m) -> Tuple[dict, Dict[int, int], tuple, str]:
        content = self.db.decode(m)
        row = content["vt_item"][0]
        used = {x[1] for x in G.subterms(self.term) if x[0] == "field"}
        for col, dflt in NEUTRAL_ITEM.items():
            if col not in used:
                row[col] = dflt
        lit_vals = {s: V.decode(m, self.consts[s]) for s in self.sent}
        cterm = G.replace_ints(self.term, lit_vals)
        return content, lit_vals, cterm, G.to_text(cterm, self.full)

    # -------------------------------------------------------------- obligation: program == reference
    def check_reference(self, backend: str):
        p = self.progs[backend]
        st = p["status"]
        ob = "ref"
        if st in ("refused", "crash", "parser_rejected"):
            self.emit("accept", backend, st, why=p["why"])
            if st != "parser_rejected" and not self.sent and any(x[0] == "int" for x in G.subterms(self.term)):
                # concrete literals: is the same filter accepted once no two literals have equal values?
                dterm = G.decouple_ints(self.term)
                dtext = G.to_text(dterm, self.full)
                st2, payload2 = build(backend, dtext)
                if st2 == "ok":
                    kind, got = replay(backend, self.text, {"vt_item": [dict(ITEM_ROWS[0])]})
                    w = {"filter": self.text, "term": self.term, "backend": backend, "rows": {"vt_item": [dict(ITEM_ROWS[0])]},
                         "other_filter": dtext, "outcome": p["why"], "orm_result": got, "expect_crash": p["why"].split(":")[0]}
                    if kind == "error":
                        self.emit(ob, backend, "violation", witness=w,
                                  what=f"the filter is {st} ({p['why'][:150]}) although the same filter with other literal "
                                       f"values ({dtext!r}) is translated: literal values that compare equal are confused")
                    else:
                        self.emit(ob, backend, "harness_error", witness=w, why="building the statement fails but executing it does not")
            return
        ctx = {"term": self.term, "features": self.feats, "backend": backend, "sql": p.get("sql", "")}
        hit = regions.static_hit(self.active, ctx)
        if hit:
            self.emit(ob, backend, "known", known_id=hit)
            return
        if st in ("illformed", "nofunc"):
            self._replay_unusable(backend, p)
            return
        if st == "outside":
            self.emit(ob, backend, "outside", why=p["why"])
            return
        try:
            ref_keep = self.reference()
        except V.Unmodelled as e:
            self.emit(ob, backend, "outside", why=f"reference: {e}")
            return
        rmap, rside = self.region_constraints(backend, p)
        res = regions.solve_with_regions(lambda: self.solver(p["side"] + self.ref.side), p["keep"] != ref_keep, rmap, rside)
        dt = res["solver_s"]
        if res["status"] == "unknown":
            self.emit(ob, backend, "inconclusive", solver_s=dt, why=res["why"])
            return
        if res["status"] == "vacuous":
            self.emit(ob, backend, "outside", solver_s=dt, why="vacuous: the assumptions exclude every row")
            return
        if res["status"] == "known":
            self.emit(ob, backend, "known", solver_s=dt, known_id=res["known_id"],
                      detail="counterexamples exist only inside the known-finding region(s) " + ", ".join(rmap))
            return
        if res["status"] == "unsat":
            if p.get("assumed"):
                # right under the assumption strpos = INSTR / concat = ||, but the functions do not exist here
                self.emit(ob, backend, "known", solver_s=dt, known_id=ASSUMED_ID,
                          detail=f"equivalent to the reference when {p['assumed']} are read as INSTR / ||")
            else:
                self.emit(ob, backend, "discharged", solver_s=dt)
            return
        s = res["solver"]
        m = _shrink(s, _prefs(self.db, "vt_item", self.consts, self.term))
        pred_sql = bool(z3.is_true(m.eval(p["keep"], True)))
        pred_ref = bool(z3.is_true(m.eval(ref_keep, True)))
        content, lit_vals, cterm, ctext = self.decode(m)
        row = content["vt_item"][0]
        w = {"filter": ctext, "term": cterm, "backend": backend, "rows": content, "abstract_filter": self.text if self.sent else None,
             "model_says": {"orm_selects": pred_sql, "odata_keeps": pred_ref}}
        st2, payload = build(backend, ctext)
        if st2 != "ok":
            self.emit(ob, backend, "harness_error", solver_s=dt, why=f"concrete re-rendering failed: {st2} {payload}", witness=w)
            return
        w["sql"], w["params"] = payload
        try:
            keep = R.keeps_concrete(cterm, row)
        except R.Undefined as e:
            self.emit(ob, backend, "harness_error", solver_s=dt, why=f"witness in an assumed-away region: {e}", witness=w)
            return
        kind, got = replay(backend, ctext, content, assumed=bool(p.get("assumed")))
        if p.get("assumed"):
            w["assumption"] = f"{p['assumed']} registered on the replay connection as INSTR / NULL-propagating ||"
        w["odata_keeps_row"] = keep
        w["orm_result"] = got
        if kind == "error":
            self.emit(ob, backend, "violation", solver_s=dt, witness=w,
                      what=f"executing the ORM query fails ({got}); OData keeps the row: {keep}")
            return
        selected = bool(got)
        if selected != keep:
            if pred_sql != selected or pred_ref != keep:
                self.emit(ob, backend, "harness_error", solver_s=dt, witness=w,
                          why=f"real results differ but not as predicted (model: orm {pred_sql}, odata {pred_ref}; real: "
                              f"orm {selected}, odata {keep})")
                return
            self.emit(ob, backend, "violation", solver_s=dt, witness=w,
                      what=f"the ORM query {'returns' if selected else 'does not return'} the row, OData semantics "
                           f"{'keeps' if keep else 'drops'} it")
            return
        self.emit(ob, backend, "harness_error", solver_s=dt, witness=w,
                  why=f"solver model does not reproduce: ORM returns={selected}, reference keeps={keep} "
                      f"(model predicted orm={pred_sql}, odata={pred_ref})")

    def _replay_unusable(self, backend: str, p: dict):
        """Program that is not SQL / calls a function the engine does not have: show it on the real engine."""
        cterm = G.replace_ints(self.term, {s: (i % 3) + 1 for i, s in enumerate(self.sent)})
        ctext = G.to_text(cterm, self.full)
        differing = None
        for row in ITEM_ROWS:
            content = {"vt_item": [row]}
            kind, got = replay(backend, ctext, content)
            st2, payload = build(backend, ctext)
            w = {"filter": ctext, "term": cterm, "backend": backend, "rows": content, "problem": p["why"],
                 "sql": payload[0] if st2 == "ok" else None, "params": payload[1] if st2 == "ok" else None}
            if kind == "error":
                w["orm_result"] = got
                self.emit("ref", backend, "violation", witness=w, unusable=p["status"], missing=p.get("missing"),
                          what=f"the emitted statement cannot be executed on SQLite ({got})")
                return
            try:
                keep = R.keeps_concrete(cterm, row)
            except R.Undefined:
                continue
            if bool(got) != keep and differing is None:
                differing = dict(w, orm_result=got, odata_keeps_row=keep)
        if differing:
            self.emit("ref", backend, "violation", witness=differing, unusable=p["status"],
                      what=f"{p['why']}; and it selects wrongly on real SQLite")
        else:
            self.emit("ref", backend, "harness_error", why=f"{p['why']} - but the real engine executes it and agrees "
                                                           "with the reference on the boundary rows")

    # -------------------------------------------------------------- obligation: two programs are equivalent
    def check_equiv(self, ob: str, label: str, p1: dict, p2: dict, text1: str, text2: str):
        """p1 ~ p2 over all rows (used for pairwise backend agreement and for keyword-case variants)."""
        b1, b2 = p1["backend"], p2["backend"]
        s1, s2 = p1["status"], p2["status"]
        base = {"variant": label, "other_filter": text2 if text2 != text1 else None,
                "other_sql": p2.get("sql"), "other_params": p2.get("params")}
        hit = regions.static_hit(self.active, {"term": self.term, "features": self.feats, "backend": b1, "sql": p1.get("sql", ""),
                                               "ob": ob, "variant": label, "text2": text2})
        if hit:
            self.emit(ob, b1, "known", known_id=hit, **base)
            return
        groups = {"refused": "no", "crash": "no", "parser_rejected": "no", "illformed": "bad", "nofunc": "bad"}
        g1, g2 = groups.get(s1, s1), groups.get(s2, s2)
        if g1 == "no" and g2 == "no":
            return                                   # neither translates: nothing to compare
        if (g1 == "no") != (g2 == "no"):
            w = {"filter": text1, "term": self.term, "backend": b1, "other_backend": b2, "other_filter": text2,
                 "outcome": {b1 + ":" + text1: s1 + " " + str(p1.get("why", p1.get("sql"))),
                             b2 + ":" + text2: s2 + " " + str(p2.get("why", p2.get("sql")))}}
            # re-run to make sure the outcome is stable
            again1, again2 = build(b1, text1)[0], build(b2, text2)[0]
            if (again1 == "ok") == (again2 == "ok"):
                self.emit(ob, b1, "harness_error", why="acceptance differed only once", witness=w, **base)
            else:
                self.emit(ob, b1, "violation", witness=w, **base,
                          what=f"one is translated, the other is not: {b1} {text1!r} -> {s1}; {b2} {text2!r} -> {s2}")
            return
        if g1 == "bad" or g2 == "bad":
            if s1 == s2 and p1.get("sql") == p2.get("sql"):
                self.emit(ob, b1, "discharged", detail="identical (unusable) text", nontrivial=False, **base)
            else:
                self.emit(ob, b1, "outside", why="a program that cannot be executed is reported by the reference obligation", **base)
            return
        if s1 == "outside" or s2 == "outside":
            if p1.get("sql") == p2.get("sql") and p1.get("params") == p2.get("params"):
                self.emit(ob, b1, "discharged", detail="identical text and parameters", nontrivial=False, **base)
            else:
                self.emit(ob, b1, "outside", why=p1.get("why") or p2.get("why"), **base)
            return
        if p1["tree"][1]["where"] == p2["tree"][1]["where"]:
            self.emit(ob, b1, "discharged", detail="identical WHERE tree", nontrivial=False, **base)
            return
        s = self.solver(p1["side"] + p2["side"])
        s.add(p1["keep"] != p2["keep"])
        t0 = time.time()
        r = s.check()
        dt = round(time.time() - t0, 4)
        if r == z3.unsat:
            self.emit(ob, b1, "discharged", solver_s=dt, **base)
            return
        if r == z3.unknown:
            self.emit(ob, b1, "inconclusive", solver_s=dt, why=f"z3: {s.reason_unknown()}", **base)
            return
        m = _shrink(s, _prefs(self.db, "vt_item", self.consts, self.term))
        content, lit_vals, cterm, _ = self.decode(m)
        kw1, kw2 = p1.get("kw"), p2.get("kw")
        ct1, ct2 = G.to_text(cterm, self.full, kw1), G.to_text(cterm, self.full, kw2)
        k1, got1 = replay(b1, ct1, content, assumed=bool(p1.get("assumed")))
        k2, got2 = replay(b2, ct2, content, assumed=bool(p2.get("assumed")))
        w = {"filter": ct1, "term": cterm, "backend": b1, "rows": content, "other_backend": b2, "other_filter": ct2,
             "sql": build(b1, ct1)[1], "other_sql": build(b2, ct2)[1], "orm_result": got1, "other_result": got2}
        if (k1, got1) != (k2, got2):
            self.emit(ob, b1, "violation", solver_s=dt, witness=w, **base,
                      what=f"{b1} {ct1!r} returns {got1}, {b2} {ct2!r} returns {got2} on the same rows")
        else:
            self.emit(ob, b1, "harness_error", solver_s=dt, witness=w, **base,
                      why=f"solver model does not separate the two programs on the real engine (both {got1})")


def check_scalar(item: dict) -> List[dict]:
    """Worker entry: every obligation of one filter.  item: term, backends, pairs, spellings, regions ..."""
    try:
        chk = ScalarCheck(item)
    except Exception as e:                                         # noqa: BLE001
        return [{"name": item["name"], "ob": "harness", "backend": "-", "status": "harness_error", "filter": "?",
                 "why": f"{type(e).__name__}: {e}\n{traceback.format_exc(limit=5)}", "features": [], "solver_s": 0.0}]
    import contextlib
    mut = contextlib.nullcontext()
    if item.get("mutant"):
        from . import selftest_orm
        mut = selftest_orm.patched(item["mutant"])
    try:
        V.set_alphabet(item.get("extra_alphabet", ""))
        with mut:
            _run_scalar(chk, item)
    finally:
        V.set_alphabet("")
    for r in chk.res:
        r["term"] = chk.term
        if item.get("family") == "selftest":
            r["mutant"] = item.get("mutant")
    return chk.res


def _run_scalar(chk: "ScalarCheck", item: dict) -> None:
    try:
        backends = item["backends"]
        for b in backends:
            chk.progs[b] = chk.program(b, chk.text)
        for b in backends:
            chk.check_reference(b)
        if item.get("pairs"):
            for i, b1 in enumerate(backends):
                for b2 in backends[i + 1:]:
                    chk.check_equiv("pair", f"{b1}~{b2}", chk.progs[b1], chk.progs[b2], chk.text, chk.text)
        for sp in item.get("spellings", []):
            kw = {"upper": str.upper, "title": str.title, "lower": str.lower}[sp]
            text2 = G.to_text(chk.term, chk.full, kw)
            if text2 == chk.text:
                continue
            for b in backends:
                p2 = chk.program(b, text2)
                p2["kw"] = kw
                chk.check_equiv("case", sp, chk.progs[b], p2, chk.text, text2)
    except Exception as e:                                         # noqa: BLE001
        chk.emit("harness", "-", "harness_error", why=f"{type(e).__name__}: {e}\n{traceback.format_exc(limit=6)}")


# ====================================================================== known-finding witness replay
def replay_scalar_witness(w: dict) -> Tuple[bool, str]:
    """Witness {term, backend, rows[, other_backend, other_filter]} -> (still fails, description)."""
    from .tv import _retuple
    term = _retuple(w["term"])
    backend = w.get("backend", "django")
    rows = w.get("rows") or {"vt_item": [dict(NEUTRAL_ITEM, **w.get("row", {}))]}
    rows = {"vt_item": [dict(NEUTRAL_ITEM, **r) for r in rows["vt_item"]]}
    text = w.get("filter") or G.to_text(term)
    if w.get("other_filter") or w.get("other_backend"):
        b2 = w.get("other_backend", backend)
        t2 = w.get("other_filter", text)
        r1, r2 = replay(backend, text, rows), replay(b2, t2, rows)
        s1, s2 = build(backend, text)[0], build(b2, t2)[0]
        if (s1 == "ok") != (s2 == "ok"):
            return True, f"{backend} {text!r} is {s1}, {b2} {t2!r} is {s2}"
        if r1 != r2:
            return True, f"{backend} {text!r} -> {r1[1]}, {b2} {t2!r} -> {r2[1]} on {rows}"
        return False, f"{backend} {text!r} and {b2} {t2!r} now agree on the recorded rows"
    st, payload = build(backend, text)
    if w.get("expect_crash"):
        if st in ("crash", "refused") and w["expect_crash"] in str(payload):
            return True, f"{backend} {text!r} raises {str(payload)[:160]}"
        return False, f"{backend} {text!r} is now {st}"
    if st != "ok":
        return False, f"{backend}: filter {text!r} is now {st}"
    try:
        keep = R.keeps_concrete(term, rows["vt_item"][0])
    except R.Undefined as e:
        return False, f"witness outside the reference's domain: {e}"
    kind, got = replay(backend, text, rows)
    if kind == "error":
        return True, f"{backend} {text!r} -> {payload[0]!r} {payload[1]}: {got}"
    if bool(got) != keep:
        return True, f"{backend} {text!r} -> {payload[0]!r} {payload[1]} on {rows['vt_item'][0]}: ORM returns {got}, OData keeps={keep}"
    return False, f"{backend} {text!r} now agrees on the recorded row"


# ====================================================================== in-list length sweep (structural)
def inlist_sweep(_arg=None) -> List[dict]:
    """`n in (v1 .. vL)` for L in 2, 50, 1001: every member must arrive in the statement, in order (structural
    comparison of the parsed statement with the filter, not a solver verdict)."""
    out: List[dict] = []
    for L in (2, 50, 1001):
        vals = list(range(L))
        text = "n in (" + ", ".join(str(v) for v in vals) + ")"
        for b in BACKENDS:
            base = {"name": f"inlist{L}", "family": "inlist", "filter": f"n in (0, 1, ... {L - 1})  [{L} members]", "ob": "inlist",
                    "backend": b, "features": [], "solver_s": 0.0, "nontrivial": False}
            st, payload = build(b, text)
            if st != "ok":
                out.append(dict(base, ob="accept", status=st, why=payload))
                continue
            try:
                tree = parse_program(b, payload[0], payload[1])
                ins = [n for n in SP.walk(tree) if n[0] == "in"]
                got = [(i[2] if i[0] == "param" else i[1]) for i in ins[0][3]] if ins else None
            except (SP.SqlIllFormed, SP.SqlUnsupported) as e:
                got = f"unparsable: {e}"
            if got == vals:
                out.append(dict(base, status="discharged", detail=f"{L} members present in order"))
            else:
                n = len(got) if isinstance(got, list) else got
                out.append(dict(base, status="violation", what=f"in-list of {L} members arrives with {n} members in the statement",
                                witness={"filter": text, "term": ["in", ["field", "n"], [["int", v] for v in vals]], "backend": b,
                                         "rows": {"vt_item": [dict(NEUTRAL_ITEM, n=L - 1)]}, "sql": payload[0][-200:],
                                         "members_in_statement": n}))
    return out
