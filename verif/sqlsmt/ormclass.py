"""Defect-class labels for ORM violations (reporting only: never decides anything)."""
from __future__ import annotations

import re


def classify(r: dict) -> str:
    f = set(r.get("features", []))
    b = r.get("backend", "")
    fam = "sqlalchemy" if b.startswith("sa") else b
    w = r.get("witness") or {}
    what = (r.get("what") or "") + " " + str(w.get("orm_result", ""))
    if r["ob"] == "inlist":
        return f"{fam}: long in-list arrives truncated"
    if r["ob"] == "case":
        if "bool-literal" in f:
            return f"{fam}: boolean literal compared by spelling (TRUE/True -> false)"
        return f"{fam}: keyword spelling changes the program"
    if "literal values that compare equal" in what:
        return f"{fam}: literals with equal values are confused (filter accepted only with other literal values)"
    m = re.search(r"no such function: (\w+)", what)
    if m:
        return f"{fam}: emits {m.group(1)}() which this SQLite does not have"
    if "ambiguous column" in what:
        return f"{fam}: two to-one paths into the same table are joined without aliases (ambiguous column name)"
    if r["ob"] == "pair":
        return f"{fam}: ORM and Core programs differ"
    if r["ob"] in ("conj", "order", "once", "registry"):
        return f"{fam}: shorthand does not conjoin / preserve the host query ({r['ob']})"
    if r["ob"] == "agree":
        return "django vs sqlalchemy disagree: " + _relational(f, fam, w)
    if any(x in f for x in ("lambda:any", "lambda:all", "path")):
        return f"{fam}: " + _relational(f, fam, w)
    if fam == "django" and w.get("sql") and (" WHERE " not in w["sql"] or w["sql"].endswith("WHERE 0 = 1")):
        return "django: constant null test (literal eq/ne null) inside a comparison makes the whole condition constant"
    if fam == "django" and "cmp-operand-is-cmp-of-arith" in f:
        return "django: nested comparison with arithmetic operands is rendered without parentheses"
    if "null-on-left" in f:
        return f"{fam}: null literal on the left"
    if "op:div" in f and fam == "sqlalchemy":
        return "sqlalchemy: div rendered as true (REAL) division"
    rows = w.get("rows") or {}
    cells = [v for rr in rows.values() for row in rr for v in row.values()]
    if "fn:concat" in f and fam == "django" and any(v is None for v in cells):
        return "django: concat treats NULL as empty string"
    if "like-literal-wildcard" in f and fam == "sqlalchemy":
        return "sqlalchemy: LIKE literal wildcard not escaped"
    if "like-nonliteral-pattern" in f and fam == "sqlalchemy" and any(isinstance(v, str) and ("%" in v or "_" in v) for v in cells):
        return "sqlalchemy: non-literal LIKE pattern wildcards"
    if any(x in f for x in ("fn:contains", "fn:startswith", "fn:endswith")):
        return f"{fam}: SQLite LIKE is ASCII case-insensitive"
    return f"{fam}: other"


def _relational(f, fam, w) -> str:
    if "outer-ref-in-lambda" in f:
        return "root column ($it) used inside a lambda body"
    if "lambda:all" in f and fam == "django":
        return "all() lambda"
    if "path-inside-lambda" in f:
        return "to-one path inside a lambda body"
    if "collection-via-to-one" in f:
        return "collection reached through a to-one path"
    if "path" in f:
        return "to-one navigation path"
    if "lambda:all" in f:
        return "all() lambda"
    return "any() lambda"
