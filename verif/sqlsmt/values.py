"""Nullable Int / Bool / bounded String values as z3 bit-vector terms, and primitive string circuits.

Everything is bit-vector (DESIGN.md appendix D): integers are signed 16-bit vectors, a string is a 6-bit length
plus `cap` 4-bit indices into ALPH.  ALPH is sorted by code point, so unsigned comparison of indices *is* byte order
(SQLite BINARY collation, OData ordinal comparison).  It is the 8-character adversarial alphabet
{a, A, b, %, _, ', \\, space} closed under ASCII case mapping (B added so that UPPER('b') stays inside).

Characters at positions >= len are "don't care": no circuit below reads them without a length guard.
"""
from __future__ import annotations

from typing import Callable, List, Optional, Sequence, Tuple, Union

import z3

W = 16      # integer width
LW = 6      # string length width (lengths up to 63)
CW = 4      # character index width
BASE_ALPH: List[str] = [" ", "%", "'", "A", "B", "\\", "_", "a", "b"]
ALPH: List[str] = list(BASE_ALPH)
IDX = {c: i for i, c in enumerate(ALPH)}
NALPH = len(ALPH)
SPACE, PCT, USC = IDX[" "], IDX["%"], IDX["_"]
UPPER_OF = {IDX["a"]: IDX["A"], IDX["b"]: IDX["B"]}
LOWER_OF = {v: k for k, v in UPPER_OF.items()}


def set_alphabet(extra: str = "") -> None:
    """Adaptive alphabet: extend the value alphabet for ONE program by characters the translator itself brings into
    play (e.g. the character of an emitted ESCAPE clause).  The alphabet stays sorted by code point (index order = byte
    order) and holds at most 15 characters (index 15 is FOREIGN).  Call set_alphabet() to restore the base alphabet."""
    global ALPH, IDX, NALPH, SPACE, PCT, USC, UPPER_OF, LOWER_OF
    chars = sorted(set(BASE_ALPH) | {c for c in extra if c.isascii() and c.isprintable()})
    if len(chars) > 15:
        chars = sorted(set(BASE_ALPH) | set(sorted(set(extra) - set(BASE_ALPH))[:15 - len(BASE_ALPH)]))
    ALPH = chars
    IDX = {c: i for i, c in enumerate(ALPH)}
    NALPH = len(ALPH)
    SPACE, PCT, USC = IDX[" "], IDX["%"], IDX["_"]
    UPPER_OF = {IDX[lo]: IDX[lo.upper()] for lo in ALPH if lo.islower() and lo.upper() in IDX}
    LOWER_OF = {v: k for k, v in UPPER_OF.items()}
INT_LO, INT_HI = -8, 8
CELL_CAP = 3

TRUE = z3.BoolVal(True)
FALSE = z3.BoolVal(False)


class Unmodelled(Exception):
    """Well-formed construct that the SMT semantics does not cover (=> 'outside the encoded fragment')."""


class IntV:
    __slots__ = ("null", "val")
    kind = "int"

    def __init__(self, null, val):
        self.null = null
        self.val = val


class BoolV:
    __slots__ = ("null", "val")
    kind = "bool"

    def __init__(self, null, val):
        self.null = null
        self.val = val


class StrV:
    __slots__ = ("null", "len", "c", "cap")
    kind = "str"

    def __init__(self, null, ln, chars: Sequence):
        self.null = null
        self.len = ln
        self.c = list(chars)
        self.cap = len(self.c)


class RealV:
    """A REAL value as an exact fraction num/den (den != 0) of two W-bit integers.

    Only what the ORMs need: SQLAlchemy renders OData `div` as `x / (y + 0.0)`, i.e. SQLite REAL division.  Doubles
    are exact on the small quotients that occur inside the bounds (|operands| <= 8, a few operations), so comparing
    fractions by cross-multiplication agrees with SQLite; this is re-checked against the real sqlite3 on every run
    (validate.py) and on every witness (replay)."""
    __slots__ = ("null", "num", "den")
    kind = "real"

    def __init__(self, null, num, den):
        self.null = null
        self.num = num
        self.den = den


class NullV:
    """The untyped NULL literal; adapts to the type of whatever it meets."""
    __slots__ = ()
    kind = "null"
    null = z3.BoolVal(True)


Value = Union[IntV, BoolV, StrV, NullV]


def as_kind(x, kind: str):
    """Give an untyped NULL the type of its context."""
    return null_of(kind) if x.kind == "null" else x


def unify(x, y):
    if x.kind == "null" and y.kind == "null":
        return null_of("int"), null_of("int")
    if x.kind == "null":
        return null_of(y.kind), y
    if y.kind == "null":
        return x, null_of(x.kind)
    return x, y


def bv(n: int):
    return z3.BitVecVal(n, W)


def lv(n: int):
    return z3.BitVecVal(n, LW)


def cv(i: int):
    return z3.BitVecVal(i, CW)


def in_alphabet(text: str) -> bool:
    return all(ch in IDX for ch in text)


# ------------------------------------------------------------------ constructors
def iconst(n: int) -> IntV:
    return IntV(FALSE, bv(n))


def bconst(b: bool) -> BoolV:
    return BoolV(FALSE, z3.BoolVal(bool(b)))


def sconst(text: str) -> StrV:
    if not in_alphabet(text):
        raise Unmodelled(f"string literal {text!r} outside the alphabet")
    return StrV(FALSE, lv(len(text)), [cv(IDX[ch]) for ch in text])


def null_of(kind: str) -> Value:
    if kind == "int":
        return IntV(TRUE, bv(0))
    if kind == "real":
        return RealV(TRUE, bv(0), bv(1))
    if kind == "bool":
        return BoolV(TRUE, FALSE)
    return StrV(TRUE, lv(0), [])


def ivar(name: str, nullable: bool = True) -> Tuple[IntV, list]:
    v = z3.BitVec(name, W)
    n = z3.Bool(name + "!null") if nullable else FALSE
    return IntV(n, v), [v >= INT_LO, v <= INT_HI]


def bvar(name: str, nullable: bool = True) -> Tuple[BoolV, list]:
    return BoolV(z3.Bool(name + "!null") if nullable else FALSE, z3.Bool(name)), []


def svar(name: str, cap: int = CELL_CAP, nullable: bool = True) -> Tuple[StrV, list]:
    ln = z3.BitVec(name + "!len", LW)
    cs = [z3.BitVec(f"{name}!{i}", CW) for i in range(cap)]
    cons = [z3.ULE(ln, cap)] + [z3.ULE(c, NALPH - 1) for c in cs]
    return StrV(z3.Bool(name + "!null") if nullable else FALSE, ln, cs), cons


# ------------------------------------------------------------------ three-valued logic
def not3(x: BoolV) -> BoolV:
    return BoolV(x.null, z3.Not(x.val))


def and3(l: BoolV, r: BoolV) -> BoolV:
    lf = z3.And(z3.Not(l.null), z3.Not(l.val))
    rf = z3.And(z3.Not(r.null), z3.Not(r.val))
    is_false = z3.Or(lf, rf)
    any_null = z3.Or(l.null, r.null)
    return BoolV(z3.And(z3.Not(is_false), any_null), z3.And(z3.Not(is_false), z3.Not(any_null)))


def or3(l: BoolV, r: BoolV) -> BoolV:
    lt = z3.And(z3.Not(l.null), l.val)
    rt = z3.And(z3.Not(r.null), r.val)
    is_true = z3.Or(lt, rt)
    any_null = z3.Or(l.null, r.null)
    return BoolV(z3.And(z3.Not(is_true), any_null), is_true)


def keep(x: BoolV):
    """Row is selected / kept: the condition is (non-null and) true."""
    return z3.And(z3.Not(x.null), x.val)


def same3(x: BoolV, y: BoolV):
    """Equality of two three-valued results (null, false, true)."""
    return z3.And(x.null == y.null, z3.Or(x.null, x.val == y.val))


# ------------------------------------------------------------------ strings: primitives
def _isc(x) -> bool:
    return z3.is_bv_value(x)


def at(s: StrV, k: int):
    return s.c[k] if 0 <= k < s.cap else cv(0)


def len_w(s: StrV):
    return z3.ZeroExt(W - LW, s.len)


def pad(s: StrV, cap: int) -> StrV:
    if s.cap >= cap:
        return s
    return StrV(s.null, s.len, s.c + [cv(0)] * (cap - s.cap))


def s_ite(c, x: StrV, y: StrV) -> StrV:
    cap = max(x.cap, y.cap)
    x, y = pad(x, cap), pad(y, cap)
    return StrV(z3.If(c, x.null, y.null), z3.If(c, x.len, y.len), [z3.If(c, a, b) for a, b in zip(x.c, y.c)])


def s_eq(x: StrV, y: StrV):
    """Same length and same characters (nulls are the caller's business)."""
    conds = [x.len == y.len]
    n = min(x.cap, y.cap)
    for k in range(n):
        conds.append(z3.Or(z3.ULE(x.len, k), x.c[k] == y.c[k]))
    if x.cap != y.cap:
        conds.append(z3.ULE(x.len, n))
    return z3.And(conds)


def s_lt(x: StrV, y: StrV):
    """Byte-wise lexicographic x < y (ALPH is sorted by code point)."""
    def go(k: int):
        if k >= x.cap:           # x exhausted for sure: x < y iff y is longer
            return z3.UGT(y.len, k) if k < y.cap else FALSE
        if k >= y.cap:           # y exhausted for sure
            return FALSE
        x_end = z3.ULE(x.len, k)
        y_end = z3.ULE(y.len, k)
        return z3.If(x_end, z3.Not(y_end),
                     z3.If(y_end, FALSE,
                           z3.If(z3.ULT(x.c[k], y.c[k]), TRUE,
                                 z3.If(z3.UGT(x.c[k], y.c[k]), FALSE, go(k + 1)))))
    return go(0)


def s_concat(x: StrV, y: StrV) -> StrV:
    null = z3.Or(x.null, y.null)
    if _isc(x.len):
        n = x.len.as_long()
        return StrV(null, lv(n) + y.len if not _isc(y.len) else lv(n + y.len.as_long()), x.c[:n] + y.c)
    cap = x.cap + y.cap
    cs = []
    for k in range(cap):
        e = at(x, k) if k < x.cap else at(y, k - x.cap)      # default: len(x) == x.cap
        for l in reversed(range(x.cap)):          # l = length of x
            v = at(x, k) if k < l else at(y, k - l)
            e = z3.If(x.len == l, v, e)
        cs.append(e)
    return StrV(null, x.len + y.len, cs)


def s_match_at(x: StrV, y: StrV, p: int, eq: Optional[Callable] = None):
    """y occurs in x at the concrete 0-based position p."""
    eq = eq or (lambda a, b: a == b)
    conds = [z3.ULE(lv(p) + y.len, x.len)]
    for k in range(y.cap):
        if p + k < x.cap:
            conds.append(z3.Or(z3.ULE(y.len, k), eq(x.c[p + k], y.c[k])))
        else:
            conds.append(z3.ULE(y.len, k))
    return z3.And(conds)


def s_find(x: StrV, y: StrV):
    """(found, position) of the first occurrence of y in x, position as a W-bit vector (0-based)."""
    found = FALSE
    pos = bv(0)
    for p in reversed(range(x.cap + 1)):
        m = s_match_at(x, y, p)
        found = z3.Or(m, found)
        pos = z3.If(m, bv(p), pos)
    return found, pos


def s_slice(x: StrV, start, count) -> StrV:
    """Characters [start, start+count) of x clipped to its length; start, count are W-bit, assumed >= 0."""
    lw = len_w(x)
    rest = lw - start
    out_len = z3.If(start >= lw, bv(0), z3.If(count <= rest, count, rest))
    cs = []
    for k in range(x.cap):
        e = cv(0)
        for p in range(x.cap - k):
            e = z3.If(start == p, x.c[p + k], e)
        cs.append(e)
    return StrV(x.null, z3.Extract(LW - 1, 0, out_len), cs)


def s_map(x: StrV, table: dict) -> StrV:
    def f(c):
        e = c
        for src, dst in table.items():
            e = z3.If(c == src, cv(dst), e)
        return e
    return StrV(x.null, x.len, [f(c) for c in x.c])


def s_lower(x: StrV) -> StrV:
    return s_map(x, LOWER_OF)


def s_upper(x: StrV) -> StrV:
    return s_map(x, UPPER_OF)


def s_ltrim(x: StrV, ch: Optional[int] = None) -> StrV:
    ch = SPACE if ch is None else ch
    # n = number of leading `ch`
    n = bv(x.cap)
    for k in reversed(range(x.cap)):
        stop = z3.Or(z3.ULE(x.len, k), x.c[k] != ch)
        n = z3.If(stop, bv(k), n)
    n = z3.If(n > len_w(x), len_w(x), n)
    return s_slice(x, n, len_w(x))


def s_rtrim(x: StrV, ch: Optional[int] = None) -> StrV:
    ch = SPACE if ch is None else ch
    # new length = 1 + index of the last character that is not `ch`
    nl = lv(0)
    for k in range(x.cap):
        nl = z3.If(z3.And(z3.ULT(lv(k), x.len), x.c[k] != ch), lv(k + 1), nl)
    return StrV(x.null, nl, x.c)


def fold_ascii(c):
    e = c
    for up, lo in LOWER_OF.items():
        e = z3.If(c == up, cv(lo), e)
    return e


def s_like(t: StrV, p: StrV, esc: Optional[int] = None, ci: bool = True):
    """SQL LIKE as a memoised DP over concrete (text position, pattern position).

    `%` any run, `_` one character, optional escape character index (next pattern character is literal; a trailing
    escape never matches, as in SQLite's patternCompare); ci = SQLite's ASCII case folding."""
    eq = (lambda a, b: fold_ascii(a) == fold_ascii(b)) if ci else (lambda a, b: a == b)
    memo = {}

    def m(i: int, j: int):
        key = (i, j)
        if key in memo:
            return memo[key]
        t_end = (t.len == i) if i <= t.cap else FALSE
        in_t = z3.ULT(lv(i), t.len) if i < t.cap else FALSE
        if j >= p.cap:
            r = t_end
        else:
            p_end = z3.ULE(p.len, j)
            pj = p.c[j]
            nxt = m(i + 1, j + 1) if i < t.cap else FALSE
            lit = z3.And(in_t, eq(t.c[i], pj), nxt) if i < t.cap else FALSE
            pct = z3.Or(m(i, j + 1), z3.And(in_t, m(i + 1, j))) if i < t.cap else m(i, j + 1)
            und = z3.And(in_t, nxt)
            body = z3.If(pj == PCT, pct, z3.If(pj == USC, und, lit))
            if esc is not None:
                has2 = z3.ULT(lv(j + 1), p.len) if j + 1 < p.cap else FALSE
                e = z3.And(has2, in_t, eq(t.c[i], at(p, j + 1)), m(i + 1, j + 2)) if i < t.cap else FALSE
                body = z3.If(pj == esc, e, body)
            r = z3.If(p_end, t_end, body)
        memo[key] = r
        return r

    return m(0, 0)


def s_replace_char(x: StrV, ch: int, repl: Sequence[int]) -> StrV:
    """REPLACE(x, <one character>, <literal of 0..2 characters>) by prefix hit counts."""
    n = len(repl)
    hit = [z3.And(z3.ULT(lv(k), x.len), x.c[k] == ch) for k in range(x.cap)]
    cnt = [lv(0)]
    for k in range(x.cap):
        cnt.append(cnt[-1] + z3.If(hit[k], lv(1), lv(0)))
    if n == 1:
        return StrV(x.null, x.len, [z3.If(hit[k], cv(repl[0]), x.c[k]) for k in range(x.cap)])
    cap = x.cap * max(n, 1)
    cs = []
    for mpos in range(cap):
        e = cv(0)
        for k in range(x.cap):
            # start of k's expansion: k + hits_before*(n-1)
            st = lv(k) + cnt[k] * lv(n - 1) if n >= 1 else lv(k) - cnt[k]
            if n == 0:
                e = z3.If(z3.And(z3.Not(hit[k]), st == mpos), x.c[k], e)
            else:
                e = z3.If(st == mpos, z3.If(hit[k], cv(repl[0]), x.c[k]), e)
                for q in range(1, n):
                    e = z3.If(z3.And(hit[k], st + q == mpos), cv(repl[q]), e)
        cs.append(e)
    new_len = x.len + cnt[x.cap] * lv(n - 1) if n >= 1 else x.len - cnt[x.cap]
    return StrV(x.null, new_len, cs)


def has_char(x: StrV, chars: Sequence[int]):
    """Some character of x (within its length) is one of `chars`."""
    return z3.Or([z3.And(z3.ULT(lv(k), x.len), z3.Or([x.c[k] == c for c in chars])) for k in range(x.cap)] or [FALSE])


# ------------------------------------------------------------------ generic helpers
def v_ite(c, x: Value, y: Value) -> Value:
    x, y = unify(x, y)
    if "real" in (x.kind, y.kind) and x.kind != "str" and y.kind != "str":
        x, y = to_real(x), to_real(y)
        return RealV(z3.If(c, x.null, y.null), z3.If(c, x.num, y.num), z3.If(c, x.den, y.den))
    if x.kind != y.kind:
        if {x.kind, y.kind} == {"int", "bool"}:
            x, y = to_int(x), to_int(y)
        else:
            raise Unmodelled(f"branches of different types {x.kind}/{y.kind}")
    if x.kind == "str":
        return s_ite(c, x, y)
    cls = IntV if x.kind == "int" else BoolV
    return cls(z3.If(c, x.null, y.null), z3.If(c, x.val, y.val))


def to_real(x: Value) -> "RealV":
    if x.kind == "real":
        return x
    i = to_int(x)
    return RealV(i.null, i.val, bv(1))


def to_int(x: Value) -> IntV:
    if x.kind == "null":
        return null_of("int")
    if x.kind == "real":
        return IntV(x.null, x.num / x.den)       # CAST(real AS INTEGER) truncates toward zero
    if x.kind == "int":
        return x
    if x.kind == "bool":
        return IntV(x.null, z3.If(x.val, bv(1), bv(0)))
    raise Unmodelled("text used as a number")


def to_bool(x: Value) -> BoolV:
    if x.kind == "null":
        return null_of("bool")
    if x.kind == "real":
        return BoolV(x.null, x.num != 0)
    if x.kind == "bool":
        return x
    if x.kind == "int":
        return BoolV(x.null, x.val != 0)
    raise Unmodelled("text used as a truth value")


def real_round(x: "RealV", mode: str, guard) -> "RealV":
    """floor / ceil / round (half away from zero) / trunc of an exact fraction; the result is an integral fraction.
    guard(null, cond) records no-overflow side conditions."""
    neg_den = x.den < 0
    n = z3.If(neg_den, -x.num, x.num)                 # sign-normalised: d > 0
    d = z3.If(neg_den, -x.den, x.den)
    q = n / d                                         # truncation toward zero
    r = z3.SRem(n, d)
    if mode == "trunc":
        val = q
    elif mode == "floor":
        val = z3.If(z3.And(r != 0, n < 0), q - 1, q)
    elif mode == "ceil":
        val = z3.If(z3.And(r != 0, n > 0), q + 1, q)
    elif mode == "round":
        an = z3.If(n < 0, -n, n)
        guard(x.null, z3.And(z3.BVMulNoOverflow(bv(2), an, True), z3.BVMulNoOverflow(bv(2), d, True),
                             z3.BVAddNoOverflow(2 * an, d, True)))
        t = (2 * an + d) / (2 * d)
        val = z3.If(n < 0, -t, t)
    else:
        raise Unmodelled(mode)
    return RealV(x.null, val, bv(1))


FOREIGN = (1 << CW) - 1     # a character outside the alphabet (digit / sign of a number rendered as text)


def BoolVal(b: bool):
    return TRUE if b else FALSE


def num_to_text(x: IntV) -> StrV:
    """Text of an integer as SQLite renders it, abstracted: its length is exact, its characters are all FOREIGN
    (digits and '-' are outside the alphabet, so no pattern character can equal them)."""
    v = x.val
    mag = z3.If(v < 0, -v, v)
    digits = z3.If(mag < 10, lv(1), z3.If(mag < 100, lv(2), z3.If(mag < 1000, lv(3), z3.If(mag < 10000, lv(4), lv(5)))))
    ln = digits + z3.If(v < 0, lv(1), lv(0))
    return StrV(x.null, ln, [cv(FOREIGN)] * 6)


# ------------------------------------------------------------------ decoding a z3 model
def decode(model, v: Value):
    if v.kind == "null":
        return None
    if z3.is_true(model.eval(v.null, True)):
        return None
    if v.kind == "int":
        return model.eval(v.val, True).as_signed_long()
    if v.kind == "real":
        from fractions import Fraction
        return Fraction(model.eval(v.num, True).as_signed_long(), model.eval(v.den, True).as_signed_long())
    if v.kind == "bool":
        return bool(z3.is_true(model.eval(v.val, True)))
    n = model.eval(v.len, True).as_long()
    idx = [model.eval(c, True).as_long() for c in v.c[:n]]
    return "".join(ALPH[i] if i < NALPH else "#" for i in idx)


def fix_value(v: Value, py) -> list:
    """Constraints forcing the symbolic value v (a variable created by ivar/bvar/svar) to the Python value py."""
    if py is None:
        return [v.null]
    out = [z3.Not(v.null)]
    if v.kind == "int":
        out.append(v.val == int(py))
    elif v.kind == "bool":
        out.append(v.val == bool(py))
    else:
        out.append(v.len == len(py))
        out += [v.c[k] == IDX[ch] for k, ch in enumerate(py)]
    return out
