"""Self-test mutants for the ORM properties: the live visitor classes are monkey-patched *in the worker process, for
one item, and restored* (nothing on disk changes).  Each mutant must be reported; its unmutated twin must pass."""
from __future__ import annotations

import contextlib
import operator
from typing import Any, Dict, List

from ..common import Run

_a, _b, _s, _u, _k = ("field", "a"), ("field", "b"), ("field", "s"), ("field", "u"), ("int", "?")

# (mutant name, filter on which the unmutated back ends are right)
CASES = [
    ("lt-as-gt", ("cmp", "lt", _a, _b)),
    ("and-or-swapped", ("and", ("cmp", "eq", _a, _k), ("cmp", "eq", _b, _k))),
    ("eq-null-inverted", ("cmp", "eq", _a, ("null",))),
    ("substring-without-shift", ("cmp", "eq", ("call", "substring", [_s, _k]), _u)),
]


REL_CASES = [
    ("lt-as-gt", "Parent", ("lambda", "any", ["children"], "c", ("cmp", "lt", ("path", ["c", "k"]), _k))),
    ("and-or-swapped", "Parent", ("lambda", "any", ["children"], "c", ("and", ("cmp", "eq", ("path", ["c", "k"]), _k),
                                                                        ("cmp", "eq", ("path", ["c", "label"]), ("str", "a"))))),
    ("eq-null-inverted", "Parent", ("lambda", "any", ["children"], "c", ("cmp", "eq", ("path", ["c", "k"]), ("null",)))),
]


def rel_items(backends: List[str], timeout_ms: int) -> List[dict]:
    out = []
    for i, (name, model, term) in enumerate(REL_CASES):
        base = {"family": "selftest", "model": model, "term": term, "backends": list(backends), "regions": [],
                "timeout_ms": timeout_ms}
        out.append(dict(base, name=f"m{i}", mutant=name))
        out.append(dict(base, name=f"m{i}b", mutant=None))
    return out


def host_items(timeout_ms: int) -> List[dict]:
    """C15: a shorthand that ignores the host query must be reported on a pre-filtered / ordered host."""
    out = []
    term = ("cmp", "eq", ("field", "name"), ("str", "a"))
    for i, (backend, base) in enumerate((("django", "prefiltered"), ("sa_select", "prefiltered"), ("sa_query", "ordered"))):
        b = {"family": "selftest", "model": "Parent", "base": base, "term": term, "backends": [backend], "regions": [],
             "timeout_ms": timeout_ms}
        out.append(dict(b, name=f"m{i}", mutant="host-query-dropped"))
        out.append(dict(b, name=f"m{i}b", mutant=None))
    return out


@contextlib.contextmanager
def patched(name: str):
    """Apply the mutant to both ORM visitor families; undo on exit."""
    from django.db.models import lookups
    from odata_query import ast
    from odata_query.django import django_q
    from odata_query.sqlalchemy import common, core, orm as saorm
    saved = []

    def setm(cls, attr, fn):
        saved.append((cls, attr, cls.__dict__.get(attr)))
        setattr(cls, attr, fn)

    D, C = django_q.AstToDjangoQVisitor, common._CommonVisitors
    if name == "lt-as-gt":
        setm(D, "visit_Lt", lambda self, node: lookups.GreaterThan)
        setm(C, "visit_Lt", lambda self, node: operator.gt)
    elif name == "and-or-swapped":
        setm(D, "visit_And", lambda self, node: operator.or_)
        from sqlalchemy import or_
        setm(C, "visit_And", lambda self, node: or_)
    elif name == "eq-null-inverted":
        orig_d = D.visit_Compare

        def d_cmp(self, node):
            if isinstance(node.right, ast.Null) and isinstance(node.comparator, ast.Eq):
                return lookups.IsNull(self.visit(node.left), False)
            return orig_d(self, node)
        setm(D, "visit_Compare", d_cmp)
        for cls in (saorm.AstToSqlAlchemyOrmVisitor, core.AstToSqlAlchemyCoreVisitor):
            orig = cls.visit_Compare

            def s_cmp(self, node, orig=orig):
                if isinstance(node.right, ast.Null) and isinstance(node.comparator, ast.Eq):
                    return self.visit(node.left).is_not(None)
                return orig(self, node)
            setm(cls, "visit_Compare", s_cmp)
    elif name == "substring-without-shift":
        from django.db.models import functions

        def d_sub(self, fullstr, index, nchars=None):
            return functions.Substr(self.visit(fullstr), self.visit(index), self.visit(nchars) if nchars else None)
        setm(D, "djangofunc_substring", d_sub)
        from odata_query.sqlalchemy import functions_ext

        def s_sub(self, fullstr, index, nchars=None):
            return functions_ext.substr(self.visit(fullstr), self.visit(index))
        setm(C, "func_substring", s_sub)
    elif name == "host-query-dropped":
        import sqlalchemy as sa
        import odata_query.django as djp
        import odata_query.sqlalchemy as sap
        from sqlalchemy.orm.query import Query
        od, os_ = djp.apply_odata_query, sap.apply_odata_query

        def dj_apply(qs, f):
            return od(qs.model.objects.all(), f)

        def sa_apply(q, f):
            if isinstance(q, Query):
                return os_(q.session.query(q.column_descriptions[0]["entity"]), f)
            return os_(sa.select(q.column_descriptions[0]["entity"]), f)
        for mod, attr, fn in ((djp, "apply_odata_query", dj_apply), (sap, "apply_odata_query", sa_apply)):
            saved.append((mod, attr, getattr(mod, attr)))
            setattr(mod, attr, fn)
    else:
        raise KeyError(name)
    try:
        yield
    finally:
        for cls, attr, old in reversed(saved):
            if old is None:
                delattr(cls, attr)
            else:
                setattr(cls, attr, old)


def items(backends: List[str], timeout_ms: int) -> List[dict]:
    out = []
    for i, (name, term) in enumerate(CASES):
        base = {"family": "selftest", "term": term, "backends": list(backends), "regions": [], "timeout_ms": timeout_ms}
        out.append(dict(base, name=f"m{i}", mutant=name))
        out.append(dict(base, name=f"m{i}b", mutant=None))
    return out


def ingest(run: Run, results: List[dict]) -> None:
    groups: Dict[tuple, List[dict]] = {}
    for r in results:
        if r["ob"] not in ("ref", "conj", "order", "conjuncts"):
            continue
        groups.setdefault((r["name"], r.get("mutant") or "unmutated", r.get("backend")), []).append(r)
    for (nm, mname, b), rs in sorted(groups.items()):
        bad = [r for r in rs if r["status"] == "violation"]
        ok = all(r["status"] in ("violation", "discharged") for r in rs)
        label = f"selftest:{mname}:{b}:{rs[0].get('filter')}"
        if ok and (mname != "unmutated") == bool(bad):
            run.discharged(label, "selftest", sum(r.get("solver_s", 0.0) for r in rs), nontrivial=False,
                           detail={"mutant_sql": bad[0]["witness"].get("sql") if bad else None})
        else:
            run.harness_error(label, "selftest", f"self-test expected {'a violation' if mname != 'unmutated' else 'unsat'}; got "
                                                 f"{[(r['status'], r.get('why')) for r in rs]}")
