"""SMT semantics of SQLite for the SQL subset of sqlparse_ind (interpreted mode).

Values: values.IntV / BoolV / StrV (nullable).  Booleans are SQLite integers 0/1; they are kept as BoolV and turned
into integers where SQLite would use the number.  Three-valued logic for AND / OR / NOT / comparisons / IN / LIKE.
Integer arithmetic is 16-bit two's complement with a *no-overflow side condition* per operation (collected in
`side`), so `bvsdiv` / `bvsrem` are SQLite's truncating `/` and sign-of-dividend `%`; a zero divisor gives NULL as in
SQLite.  SUBSTR follows func.c's substrFunc (negative / zero start, negative length) literally.

Every rule here is compared with the real sqlite3 on every run (validate.py); a disagreement is a harness error.

Scopes: `scope` is a list of {qualifier -> symdb.Slot}; an unqualified column is looked up in every binding of the
innermost scope first.  EXISTS (SELECT ... FROM ... JOIN ... WHERE ...) is unrolled over the row slots of the bounded
database.
"""
from __future__ import annotations

from typing import Any, Dict, List, Optional, Sequence

import z3

from . import values as V
from .symdb import Slot, SymDB
from .values import BoolV, IntV, NullV, RealV, StrV, Unmodelled

BIG = 100          # "no length given" for SUBSTR: larger than any string capacity


class Unusable(Exception):
    """The statement is well-formed text that SQLite rejects when preparing it (e.g. the same table name twice in one
    FROM clause without aliases: 'ambiguous column name')."""


class SqliteModel:
    def __init__(self, db: SymDB, scope: Optional[List[Dict[str, Slot]]] = None, consts: Optional[Dict[int, IntV]] = None,
                 track_like: bool = False, assume_functions: bool = False):
        self.db = db
        self.scope: List[Dict[str, Slot]] = scope if scope is not None else []
        self.consts = consts or {}
        self.side: List[Any] = []          # assumed: no overflow
        self.track_like = track_like
        self.likes: List[dict] = []        # per LIKE evaluation: ci / cs results, dynamic pattern parts (for regions)
        self.coalesced: List[Any] = []     # null flags of x in COALESCE(x, '') (region: NULL read as empty string)
        self.used: List[str] = []          # operators / functions evaluated (evidence)
        # known finding sa-function-missing-on-sqlite: read strpos() as INSTR() and concat() as || (an assumption,
        # stated in the evidence; the replay registers the two functions with exactly this meaning)
        self.assume_functions = assume_functions

    # ------------------------------------------------------------------ entry points
    def where(self, tree):
        """z3 Bool: the row (bound in scope) is selected by WHERE <tree>."""
        return V.keep(self.truth(self.ev(tree)))

    def truth(self, x) -> BoolV:
        return V.to_bool(x)

    # ------------------------------------------------------------------ helpers
    def _use(self, name: str):
        if name not in self.used:
            self.used.append(name)

    def resolve(self, qual: Optional[str], name: str):
        for bindings in reversed(self.scope):
            if qual is not None:
                for q, slot in bindings.items():
                    if q.lower() == qual.lower():
                        if name in slot.cells:
                            return slot.cells[name]
                        raise Unmodelled(f'no column "{name}" in "{qual}"')
            else:
                for slot in bindings.values():
                    if name in slot.cells:
                        return slot.cells[name]
        raise Unmodelled(f"unknown column {qual + '.' if qual else ''}{name}")

    def _guard(self, null, cond):
        self.side.append(z3.Or(null, cond))

    def literal(self, py) -> Any:
        if py is None:
            return NullV()
        if isinstance(py, bool):
            return V.bconst(py)
        if isinstance(py, int):
            return self._int(py)
        if isinstance(py, float):
            from fractions import Fraction
            fr = Fraction(py)
            if abs(fr.numerator) > 1000 or fr.denominator > 1000:
                raise Unmodelled(f"REAL parameter {py} outside the modelled range")
            return RealV(V.FALSE, V.bv(fr.numerator), V.bv(fr.denominator))
        if isinstance(py, str):
            return V.sconst(py)
        raise Unmodelled(f"parameter of type {type(py).__name__}")

    def _int(self, n: int) -> IntV:
        if n in self.consts:
            return self.consts[n]
        if -n in self.consts and n != 0:
            c = self.consts[-n]
            return IntV(c.null, -c.val)
        if not (-(1 << (V.W - 2)) <= n < (1 << (V.W - 2))):
            raise Unmodelled(f"integer literal {n} outside the modelled range")
        return V.iconst(n)

    # ------------------------------------------------------------------ evaluation
    def ev(self, t) -> Any:
        k = t[0]
        f = getattr(self, "ev_" + k, None)
        if f is None:
            raise Unmodelled(f"SQL construct {k}")
        return f(t)

    def ev_int(self, t):
        return self._int(t[1])

    def ev_float(self, t):
        from fractions import Fraction
        try:
            fr = Fraction(t[1])
        except (ValueError, ZeroDivisionError):
            raise Unmodelled(f"REAL literal {t[1]}")
        if abs(fr.numerator) > 1000 or fr.denominator > 1000:
            raise Unmodelled(f"REAL literal {t[1]} outside the modelled range")
        return RealV(V.FALSE, V.bv(fr.numerator), V.bv(fr.denominator))

    # ---- REAL arithmetic on exact fractions (guards: no 16-bit overflow in any product)
    def _mul(self, null, a, b):
        self._guard(null, z3.And(z3.BVMulNoOverflow(a, b, True), z3.BVMulNoUnderflow(a, b)))
        return a * b

    def _add(self, null, a, b):
        self._guard(null, z3.And(z3.BVAddNoOverflow(a, b, True), z3.BVAddNoUnderflow(a, b)))
        return a + b

    def _sub(self, null, a, b):
        self._guard(null, z3.And(z3.BVSubNoOverflow(a, b), z3.BVSubNoUnderflow(a, b, True)))
        return a - b

    def _real_bin(self, op: str, l: RealV, r: RealV):
        null = z3.Or(l.null, r.null)
        if op in ("+", "-"):
            f = self._add if op == "+" else self._sub
            num = f(null, self._mul(null, l.num, r.den), self._mul(null, r.num, l.den))
            return RealV(null, num, self._mul(null, l.den, r.den))
        if op == "*":
            return RealV(null, self._mul(null, l.num, r.num), self._mul(null, l.den, r.den))
        if op == "/":
            null2 = z3.Or(null, r.num == 0)                     # x / 0.0 is NULL in SQLite
            den = self._mul(null2, l.den, r.num)
            return RealV(null2, self._mul(null2, l.num, r.den), z3.If(null2, V.bv(1), den))
        raise Unmodelled(f"operator {op} on REAL")

    def _real_cmp(self, op: str, l: RealV, r: RealV) -> BoolV:
        null = z3.Or(l.null, r.null)
        p = self._mul(null, l.num, r.den)
        q = self._mul(null, r.num, l.den)
        neg = self._mul(null, l.den, r.den) < 0
        lt = z3.If(neg, p > q, p < q)
        eq = p == q
        val = {"=": eq, "!=": z3.Not(eq), "<": lt, "<=": z3.Or(lt, eq), ">": z3.And(z3.Not(lt), z3.Not(eq)),
               ">=": z3.Not(lt)}[op]
        return BoolV(null, val)

    def ev_str(self, t):
        return V.sconst(t[1])

    def ev_null(self, t):
        return NullV()

    def ev_bool(self, t):
        return V.bconst(t[1])

    def ev_param(self, t):
        return self.literal(t[2])

    def ev_col(self, t):
        return self.resolve(t[1], t[2])

    def ev_neg(self, t):
        x = self.ev(t[1])
        if x.kind == "real":
            self._guard(x.null, z3.BVSNegNoOverflow(x.num))
            return RealV(x.null, -x.num, x.den)
        x = V.to_int(x)
        self._use("unary -")
        self._guard(x.null, z3.BVSNegNoOverflow(x.val))
        return IntV(x.null, -x.val)

    def ev_not(self, t):
        self._use("NOT")
        return V.not3(self.truth(self.ev(t[1])))

    def ev_and(self, t):
        self._use("AND")
        return V.and3(self.truth(self.ev(t[1])), self.truth(self.ev(t[2])))

    def ev_or(self, t):
        self._use("OR")
        return V.or3(self.truth(self.ev(t[1])), self.truth(self.ev(t[2])))

    def ev_bin(self, t):
        op = t[1]
        l, r = self.ev(t[2]), self.ev(t[3])
        self._use(op)
        if op == "||":
            l, r = V.as_kind(l, "str"), V.as_kind(r, "str")
            if l.kind != "str" or r.kind != "str":
                raise Unmodelled("|| on non-text operands")
            return V.s_concat(l, r)
        if "real" in (l.kind, r.kind) and op != "%" and "str" not in (l.kind, r.kind):
            self._use("REAL " + op)
            return self._real_bin(op, V.to_real(l), V.to_real(r))
        l, r = V.to_int(l), V.to_int(r)       # (% casts REAL operands to INTEGER, as SQLite does)
        null = z3.Or(l.null, r.null)
        a, b = l.val, r.val
        if op == "+":
            self._guard(null, z3.And(z3.BVAddNoOverflow(a, b, True), z3.BVAddNoUnderflow(a, b)))
            return IntV(null, a + b)
        if op == "-":
            self._guard(null, z3.And(z3.BVSubNoOverflow(a, b), z3.BVSubNoUnderflow(a, b, True)))
            return IntV(null, a - b)
        if op == "*":
            self._guard(null, z3.And(z3.BVMulNoOverflow(a, b, True), z3.BVMulNoUnderflow(a, b)))
            return IntV(null, a * b)
        if op == "/":
            self._guard(null, z3.BVSDivNoOverflow(a, b))
            return IntV(z3.Or(null, b == 0), a / b)
        if op == "%":
            return IntV(z3.Or(null, b == 0), z3.SRem(a, b))
        raise Unmodelled(f"operator {op}")

    def _compare(self, op: str, l, r) -> BoolV:
        l, r = V.unify(l, r)
        if l.kind == "str" and r.kind == "str":
            null = z3.Or(l.null, r.null)
            eq = V.s_eq(l, r)
            lt = V.s_lt(l, r)
            val = {"=": eq, "!=": z3.Not(eq), "<": lt, "<=": z3.Or(lt, eq), ">": z3.And(z3.Not(lt), z3.Not(eq)),
                   ">=": z3.Not(lt)}[op]
            return BoolV(null, val)
        if l.kind == "str" or r.kind == "str":
            # number vs text: a number rendered as text is digits/sign, never a string over the alphabet, and an
            # alphabet string is never numeric, so whatever affinity rule applies the two are unequal
            if op not in ("=", "!="):
                raise Unmodelled("ordering comparison between text and number (storage-class / affinity rules)")
            return BoolV(z3.Or(l.null, r.null), V.BoolVal(op == "!="))
        if "real" in (l.kind, r.kind):
            return self._real_cmp(op, V.to_real(l), V.to_real(r))
        l, r = V.to_int(l), V.to_int(r)
        a, b = l.val, r.val
        val = {"=": a == b, "!=": a != b, "<": a < b, "<=": a <= b, ">": a > b, ">=": a >= b}[op]
        return BoolV(z3.Or(l.null, r.null), val)

    def ev_cmp(self, t):
        self._use(t[1])
        return self._compare(t[1], self.ev(t[2]), self.ev(t[3]))

    def ev_isnull(self, t):
        self._use("IS NULL")
        x = self.ev(t[2])
        return BoolV(V.FALSE, z3.Not(x.null) if t[1] else x.null)

    def ev_is(self, t):
        self._use("IS")
        l, r = V.unify(self.ev(t[2]), self.ev(t[3]))
        eq = self._compare("=", l, r)
        same = z3.Or(z3.And(l.null, r.null), z3.And(z3.Not(l.null), z3.Not(r.null), eq.val))
        return BoolV(V.FALSE, z3.Not(same) if t[1] else same)

    def ev_in(self, t):
        self._use("IN")
        x = self.ev(t[2])
        res = BoolV(V.FALSE, V.FALSE)      # x IN () is false, even for NULL x
        for it in t[3]:
            res = V.or3(res, self._compare("=", x, self.ev(it)))
        return V.not3(res) if t[1] else res

    def ev_between(self, t):
        self._use("BETWEEN")
        x, lo, hi = self.ev(t[2]), self.ev(t[3]), self.ev(t[4])
        res = V.and3(self._compare(">=", x, lo), self._compare("<=", x, hi))
        return V.not3(res) if t[1] else res

    def _pattern_parts(self, pt) -> List[Any]:
        """Values of the non-literal pieces of a LIKE pattern expression."""
        if pt[0] == "bin" and pt[1] == "||":
            return self._pattern_parts(pt[2]) + self._pattern_parts(pt[3])
        if pt[0] == "str" or (pt[0] == "param" and isinstance(pt[2], str)):
            return []
        v = self.ev(pt)
        return [v] if v.kind == "str" else []

    def ev_like(self, t):
        self._use("LIKE" + (" ESCAPE" if t[4] is not None else ""))
        x, p = V.as_kind(self.ev(t[2]), "str"), V.as_kind(self.ev(t[3]), "str")
        if x.kind in ("int", "bool"):
            x = V.num_to_text(V.to_int(x))      # SQLite matches the number's text
        if x.kind != "str" or p.kind != "str":
            raise Unmodelled("LIKE on non-text operands")
        esc = None
        if t[4] is not None:
            e = t[4]
            lit = e[1] if e[0] == "str" else (e[2] if e[0] == "param" else None)
            if not isinstance(lit, str) or len(lit) != 1 or lit not in V.IDX:
                raise Unmodelled("ESCAPE that is not a one-character literal of the alphabet")
            esc = V.IDX[lit]
        null = z3.Or(x.null, p.null)
        val = V.s_like(x, p, esc, ci=True)
        if self.track_like:
            dyn = self._pattern_parts(t[3]) if esc is None else []
            self.likes.append({"null": null, "ci": val, "cs": V.s_like(x, p, esc, ci=False), "dyn": dyn})
        res = BoolV(null, val)
        return V.not3(res) if t[1] else res

    def ev_case(self, t):
        self._use("CASE")
        operand = self.ev(t[1]) if t[1] is not None else None
        res = self.ev(t[3]) if t[3] is not None else NullV()
        for w, th in reversed(t[2]):
            c = self._compare("=", operand, self.ev(w)) if operand is not None else self.truth(self.ev(w))
            res = V.v_ite(V.keep(c), self.ev(th), res)
        return res

    def ev_cast(self, t):
        self._use("CAST")
        ty = t[2].upper()
        x = self.ev(t[1])
        if ty in ("INTEGER", "INT", "BIGINT", "SMALLINT"):
            if x.kind in ("int", "bool", "null", "real"):
                return V.to_int(x)
            raise Unmodelled("CAST(text AS INTEGER)")
        raise Unmodelled(f"CAST AS {ty}")

    def ev_substring(self, t):
        args = [t[1], t[2]] + ([t[3]] if t[3] is not None else [])
        return self.fn_SUBSTR([self.ev(a) for a in args])

    def ev_position(self, t):
        raise Unmodelled("POSITION(.. IN ..) is not SQLite")

    def ev_extract(self, t):
        raise Unmodelled("EXTRACT is not SQLite")

    def ev_typed(self, t):
        raise Unmodelled("typed date/time literal")

    def ev_interval(self, t):
        raise Unmodelled("INTERVAL literal")

    def ev_kw(self, t):
        raise Unmodelled(t[1])

    def ev_call(self, t):
        if self.assume_functions and t[1] in ("STRPOS", "CONCAT"):
            self._use(t[1] + " (assumed)")
            args = [self.ev(a) for a in t[2]]
            if t[1] == "STRPOS":
                return self.fn_INSTR(args)
            out = self._str(args[0])
            for a in args[1:]:
                out = V.s_concat(out, self._str(a))
            return out
        f = getattr(self, "fn_" + t[1], None)
        if f is None:
            raise Unmodelled(f"function {t[1]}")
        self._use(t[1])
        return f([self.ev(a) for a in t[2]])

    # ------------------------------------------------------------------ functions
    @staticmethod
    def _str(x) -> StrV:
        x = V.as_kind(x, "str")
        if x.kind != "str":
            raise Unmodelled("text function on a number")
        return x

    def fn_LENGTH(self, a):
        (x,) = a
        x = self._str(x)
        return IntV(x.null, V.len_w(x))

    def fn_LOWER(self, a):
        return V.s_lower(self._str(a[0]))

    def fn_UPPER(self, a):
        return V.s_upper(self._str(a[0]))

    def fn_TRIM(self, a):
        if len(a) != 1:
            raise Unmodelled("TRIM with a character set")
        return V.s_rtrim(V.s_ltrim(self._str(a[0])))

    def fn_LTRIM(self, a):
        if len(a) != 1:
            raise Unmodelled("LTRIM with a character set")
        return V.s_ltrim(self._str(a[0]))

    def fn_RTRIM(self, a):
        if len(a) != 1:
            raise Unmodelled("RTRIM with a character set")
        return V.s_rtrim(self._str(a[0]))

    def fn_INSTR(self, a):
        x, y = self._str(a[0]), self._str(a[1])
        found, pos = V.s_find(x, y)
        return IntV(z3.Or(x.null, y.null), z3.If(found, pos + 1, V.bv(0)))

    def fn_SUBSTR(self, a):
        if len(a) not in (2, 3):
            raise Unmodelled("SUBSTR arity")
        x = self._str(a[0])
        p1 = V.to_int(a[1])
        null = z3.Or(x.null, p1.null)
        L = V.len_w(x)
        zero = V.bv(0)
        if len(a) == 3:
            p2v = V.to_int(a[2])
            null = z3.Or(null, p2v.null)
            neg_p2 = p2v.val < 0
            P2 = z3.If(neg_p2, -p2v.val, p2v.val)
        else:
            neg_p2 = V.FALSE
            P2 = V.bv(BIG)
        P1 = p1.val
        # func.c substrFunc
        P1n = P1 + L
        P2_a = z3.If(P1n < 0, z3.If(P2 + P1n < 0, zero, P2 + P1n), P2)
        P1_a = z3.If(P1n < 0, zero, P1n)
        P2_c = z3.If(P2 > 0, P2 - 1, P2)
        P1r = z3.If(P1 < 0, P1_a, z3.If(P1 > 0, P1 - 1, zero))
        P2r = z3.If(P1 < 0, P2_a, z3.If(P1 > 0, P2, P2_c))
        P1s = P1r - P2r
        P2s = z3.If(P1s < 0, P2r + P1s, P2r)
        P1f = z3.If(neg_p2, z3.If(P1s < 0, zero, P1s), P1r)
        P2f = z3.If(neg_p2, P2s, P2r)
        out = V.s_slice(x, P1f, P2f)
        return StrV(null, out.len, out.c)

    fn_SUBSTRING = fn_SUBSTR

    def fn_REPLACE(self, a):
        x, y, z = self._str(a[0]), self._str(a[1]), self._str(a[2])
        if not (z3.is_bv_value(y.len) and y.len.as_long() == 1 and z3.is_bv_value(y.c[0]) and z3.is_false(y.null)):
            raise Unmodelled("REPLACE whose search string is not a one-character literal")
        if not (z3.is_bv_value(z.len) and z.len.as_long() <= 2 and z3.is_false(z.null)
                and all(z3.is_bv_value(c) for c in z.c[:z.len.as_long()])):
            raise Unmodelled("REPLACE whose replacement is not a literal of at most 2 characters")
        return V.s_replace_char(x, y.c[0].as_long(), [c.as_long() for c in z.c[:z.len.as_long()]])

    def fn_COALESCE(self, a):
        if not a:
            raise Unmodelled("COALESCE()")
        res = a[-1]
        if len(a) == 2 and a[1].kind == "str" and z3.is_bv_value(a[1].len) and a[1].len.as_long() == 0:
            self.coalesced.append(a[0].null)
        for x in reversed(a[:-1]):
            res = V.v_ite(x.null, res, x) if x.kind != "null" else res
        return res

    fn_IFNULL = fn_COALESCE

    def fn_CONCAT(self, a):
        """SQLite >= 3.44 concat(): NULL arguments count as empty strings, the result is never NULL."""
        if not a:
            raise Unmodelled("CONCAT()")
        parts = []
        for x in a:
            x = self._str(x)
            parts.append(V.s_ite(x.null, V.sconst(""), StrV(V.FALSE, x.len, x.c)))
        out = parts[0]
        for p_ in parts[1:]:
            out = V.s_concat(out, p_)
        return StrV(V.FALSE, out.len, out.c)

    def fn_ABS(self, a):
        x = V.to_int(a[0])
        self._guard(x.null, z3.BVSNegNoOverflow(x.val))
        return IntV(x.null, z3.If(x.val < 0, -x.val, x.val))

    def _rounding(self, a, mode):
        if len(a) == 2:
            p2 = a[1]
            if not (p2.kind == "int" and z3.is_bv_value(p2.val) and p2.val.as_long() == 0):
                raise Unmodelled("ROUND with a precision other than 0")
        elif len(a) != 1:
            raise Unmodelled("rounding function arity")
        x = a[0]
        if x.kind == "null":
            return V.null_of("real")
        if x.kind not in ("int", "bool", "real"):
            raise Unmodelled("rounding of text")
        return V.real_round(V.to_real(x), mode, self._guard)

    def fn_ROUND(self, a):       # SQLite: nearest, midpoints away from zero; the result is REAL
        return self._rounding(a, "round")

    def fn_FLOOR(self, a):
        return self._rounding(a, "floor")

    def fn_CEIL(self, a):
        return self._rounding(a, "ceil")

    fn_CEILING = fn_CEIL

    def fn_TRUNC(self, a):
        return self._rounding(a, "trunc")

    def fn_NULLIF(self, a):
        x, y = V.unify(a[0], a[1])
        eq = self._compare("=", x, y)
        return V.v_ite(V.keep(eq), V.null_of(x.kind), x)

    # ------------------------------------------------------------------ sub-queries
    def _sources(self, sel: dict):
        if sel["frm"] is None:
            return []
        out = [("from", sel["frm"][1], sel["frm"][2], None)]
        for _, kind, tb, alias, on in sel["joins"]:
            out.append((kind, tb, alias, on))
        return out

    def _table(self, name: str) -> str:
        for n in self.db.tables:
            if n.lower() == name.lower():
                return n
        raise Unmodelled(f"unknown table {name}")

    def _combos(self, sources, i: int, bindings: Dict[str, Slot], cond):
        """Yield (bindings, condition) for every combination of row slots of the FROM/JOIN sources."""
        if i == len(sources):
            yield dict(bindings), cond
            return
        kind, tb, alias, on = sources[i]
        tname = self._table(tb)
        q = alias or tb
        if any(k.lower() == q.lower() for k in bindings):
            raise Unusable(f"table name {q!r} occurs twice in one FROM clause without an alias (SQLite: ambiguous column name)")
        matches = []
        for slot in self.db.tables[tname]:
            b2 = dict(bindings)
            b2[q] = slot
            c = slot.present
            if on is not None:
                self.scope.append(b2)
                try:
                    c = z3.And(c, V.keep(self.truth(self.ev(on))))
                finally:
                    self.scope.pop()
            matches.append(c)
            yield from self._combos(sources, i + 1, b2, z3.And(cond, c))
        if kind == "left":
            b2 = dict(bindings)
            b2[q] = Slot.null_row(self.db.specs[tname])
            yield from self._combos(sources, i + 1, b2, z3.And(cond, z3.Not(z3.Or(matches)) if matches else V.TRUE))

    def ev_insub(self, t):
        """x [NOT] IN (SELECT col FROM ...): SQL's three-valued membership - true if some row's value equals x, else
        NULL if x is NULL or some row's value is NULL (and there is at least one row), else false."""
        self._use("IN (SELECT)")
        x = self.ev(t[2])
        sel = t[3][1]
        if len(sel["cols"]) != 1 or sel["limit"] is not None:
            raise Unmodelled("IN sub-query with several columns or LIMIT")
        res = BoolV(V.FALSE, V.FALSE)
        for bindings, cond in self._combos(self._sources(sel), 0, {}, V.TRUE):
            self.scope.append(bindings)
            try:
                w = V.keep(self.truth(self.ev(sel["where"]))) if sel["where"] is not None else V.TRUE
                v = self.ev(sel["cols"][0][0])
            finally:
                self.scope.pop()
            member = z3.And(cond, w)
            eq = self._compare("=", x, v)
            res = V.or3(res, V.and3(BoolV(V.FALSE, member), eq))
        return V.not3(res) if t[1] else res

    def ev_exists(self, t):
        self._use("EXISTS")
        sel = t[1][1]
        if sel["limit"] is not None:
            lim = sel["limit"]
            n = lim[1] if lim[0] == "int" else (lim[2] if lim[0] == "param" else None)
            if not isinstance(n, int) or n < 1 or sel["offset"] is not None:
                raise Unmodelled("EXISTS with LIMIT other than a positive constant")
        alts = []
        for bindings, cond in self._combos(self._sources(sel), 0, {}, V.TRUE):
            self.scope.append(bindings)
            try:
                w = V.keep(self.truth(self.ev(sel["where"]))) if sel["where"] is not None else V.TRUE
            finally:
                self.scope.pop()
            alts.append(z3.And(cond, w))
        return BoolV(V.FALSE, z3.Or(alts) if alts else V.FALSE)

    def select_keeps(self, sel_tree, root_alias: Optional[str] = None):
        """For a top-level SELECT over a root table (first FROM item): {root slot index -> z3 Bool 'some joined row
        of this root slot satisfies WHERE'} - the set of root rows the statement returns."""
        sel = sel_tree[1]
        sources = self._sources(sel)
        if not sources:
            raise Unmodelled("SELECT without FROM")
        root_q = sources[0][2] or sources[0][1]
        out: Dict[int, Any] = {}
        for bindings, cond in self._combos(sources, 0, {}, V.TRUE):
            self.scope.append(bindings)
            try:
                w = V.keep(self.truth(self.ev(sel["where"]))) if sel["where"] is not None else V.TRUE
            finally:
                self.scope.pop()
            idx = bindings[root_q].index
            out[idx] = z3.Or(out.get(idx, V.FALSE), z3.And(cond, w))
        return out


MODELLED_FUNCTIONS = sorted(n[3:] for n in dir(SqliteModel) if n.startswith("fn_"))
