"""Host queries the shorthands are applied to.  None = the plain query; the named variants are C15's base queries.

For every (model, base) this module also states, independently of the ORMs,
  base_term(...)   the rows the base query itself returns, as a filter term over the root (None = all rows)
  base_paths(...)  the relationship paths the base query has already joined (for the "joined once" obligation)
"""
from __future__ import annotations

from typing import Optional, Set, Tuple

BASES = {
    None: "unfiltered",
    "manager": "Django: the Manager itself instead of a QuerySet",
    "prefiltered": "pre-filtered (n gt 0 / k gt 0)",
    "prefiltered2": "pre-filtered twice (n gt 0, then name ne null)",
    "ordered": "ordered (descending value, then id)",
    "annotated": "pre-annotated with an extra expression column",
    "prejoined_children": "Parent: already joined / filtered through the collection `children`",
    "prejoined_boss": "Parent (Django): select_related on the to-one `boss`",
    "prejoined_parent": "Child: already joined on the to-one `parent` (a relationship navigation filters use)",
    "prejoined_owner": "Child: already joined on the to-one `owner` (a relationship the filter may not use)",
    "custom_manager": "Django Parent: the non-default manager Parent.positive (get_queryset() filters n > 0), passed as a Manager",
    "custom_manager_qs": "Django Parent: Parent.positive.all()",
    "related_children": "Django Child: the related manager Parent(id=1).children (children of parent 1)",
    "related_tag_parents": "Django Parent: the many-to-many related manager Tag(id=1).parents (parents carrying tag 1)",
    "related_minions": "Django Parent: the related manager Parent(id=1).minions (parents whose boss is parent 1)",
}
VALUE_COL = {"Parent": "n", "Child": "k", "Item": "n", "Ticket": "n"}


def available(backend: str, model: str) -> list:
    common = [None, "prefiltered", "ordered", "annotated"]
    if model == "Ticket":             # second schema: SQLAlchemy ORM only
        return common + ["prejoined_owner"] if backend in ("sa_select", "sa_query") else []
    if backend == "sa_core":
        return common + (["prefiltered2"] if model == "Parent" else [])
    if backend == "django":
        extra = ["manager"] + (["prefiltered2", "prejoined_children", "prejoined_boss", "custom_manager", "custom_manager_qs",
                                "related_tag_parents", "related_minions"] if model == "Parent"
                               else ["prejoined_parent", "prejoined_owner", "related_children"])
    else:
        extra = (["prefiltered2", "prejoined_children"] if model == "Parent" else ["prejoined_parent", "prejoined_owner"])
    return common + extra


def base_term(backend: str, model: str, base: Optional[str]):
    v = ("field", VALUE_COL[model])
    pos = ("cmp", "gt", v, ("int", 0))
    if base in (None, "manager", "ordered", "annotated", "prejoined_boss"):
        return None
    if base in ("prefiltered", "custom_manager", "custom_manager_qs"):
        return pos
    if base == "related_children":
        return ("cmp", "eq", ("field", "parent"), ("int", 1))
    if base == "related_minions":
        return ("cmp", "eq", ("field", "boss"), ("int", 1))
    if base == "related_tag_parents":
        return ("lambda", "any", ["tags"], "t", ("cmp", "eq", ("path", ["t", "id"]), ("int", 1)))
    if base == "prefiltered2":
        return ("and", pos, ("cmp", "ne", ("field", "name"), ("null",)))
    if base == "prejoined_children":
        if backend == "django":       # filter(children__k__gt=0)
            return ("lambda", "any", ["children"], "c", ("and", ("cmp", "ne", ("path", ["c", "k"]), ("null",)),
                                                          ("cmp", "gt", ("path", ["c", "k"]), ("int", 0))))
        return ("lambda", "any", ["children"], None, None)            # INNER JOIN children
    if base in ("prejoined_parent", "prejoined_owner"):
        rel = base.split("_")[1]
        if backend == "django":       # select_related: LEFT OUTER JOIN
            return None
        return ("cmp", "ne", ("field", rel), ("null",))               # INNER JOIN
    raise KeyError(base)


def base_paths(backend: str, model: str, base: Optional[str]) -> Set[Tuple[str, ...]]:
    if base == "prejoined_children":
        return {("children",)}
    if base == "prejoined_boss":
        return {("boss",)}
    if base in ("prejoined_parent", "prejoined_owner"):
        return {(base.split("_")[1],)}
    return set()


def django_base(M, cls, base: Optional[str]):
    from django.db.models import F, Value
    model = cls.__name__
    v = VALUE_COL[model]
    if base is None:
        return cls.objects.all()
    if base == "manager":
        return cls.objects
    if base == "custom_manager":
        return cls.positive
    if base == "custom_manager_qs":
        return cls.positive.all()
    if base == "related_children":
        return M.Parent(id=1).children
    if base == "related_minions":
        return M.Parent(id=1).minions
    if base == "related_tag_parents":
        return M.Tag(id=1).parents
    if base == "prefiltered":
        return cls.objects.filter(**{v + "__gt": 0})
    if base == "prefiltered2":
        return cls.objects.filter(**{v + "__gt": 0}).filter(name__isnull=False)
    if base == "ordered":
        return cls.objects.order_by("-" + v, "id")
    if base == "annotated":
        return cls.objects.annotate(v2=F(v) + Value(1))
    if base == "prejoined_children":
        return cls.objects.filter(children__k__gt=0)
    if base in ("prejoined_boss", "prejoined_parent", "prejoined_owner"):
        return cls.objects.select_related(base.split("_")[1])
    raise KeyError(base)


def sa_base(S, cls, backend: str, base: Optional[str], session=None):
    import sqlalchemy as sa
    from sqlalchemy.orm import Session
    model = cls.__name__
    vname = VALUE_COL[model]
    if backend == "sa_core":
        t = cls.__table__
        q = sa.select(t)
        v = t.c[vname]
        if base is None:
            return q
        if base == "prefiltered":
            return q.where(v > 0)
        if base == "prefiltered2":
            return q.where(v > 0).where(t.c.name.is_not(None))
        if base == "ordered":
            return q.order_by(v.desc(), t.c.id)
        if base == "annotated":
            return sa.select(t, (v + 1).label("v2"))
        raise KeyError(base)
    v = getattr(cls, vname)
    q = (session or Session()).query(cls) if backend == "sa_query" else sa.select(cls)
    flt = (lambda qq, c: qq.filter(c)) if backend == "sa_query" else (lambda qq, c: qq.where(c))
    if base is None:
        return q
    if base == "prefiltered":
        return flt(q, v > 0)
    if base == "prefiltered2":
        return flt(flt(q, v > 0), cls.name.is_not(None))
    if base == "ordered":
        return q.order_by(v.desc(), cls.id)
    if base == "annotated":
        return q.add_columns((v + 1).label("v2"))
    if base == "prejoined_children":
        return q.join(cls.children)
    if base in ("prejoined_parent", "prejoined_owner"):
        return q.join(getattr(cls, base.split("_")[1]))
    raise KeyError(base)
