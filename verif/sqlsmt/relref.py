"""Reference semantics of navigation paths and any/all lambdas over a (symbolic or concrete) relational database.

Extends odata_ref with
  ('field', x)                        a column (or to-one relationship = its foreign key) of the ROOT entity ($it)
  ('path', [seg, ..., attr])          to-one navigation from the root or from a lambda variable; a missing related row
                                      (NULL key) makes the value null
  ('lambda', 'any'|'all', [seg, ..., collection], var, body)   /any(x: p) = some member makes p true;
                                      /all(x: p) = every member makes p true (true for an empty collection);
                                      body None: any() = the collection is not empty
Each entity is matched on its own related rows only.  Assumed away (side conditions / Undefined): a lambda body that
evaluates to null for some member (the property quantifies over non-null child data), plus odata_ref's regions.
The relationship table is models/schema.REL (written from the schema description, not from ORM metadata).
"""
from __future__ import annotations

from typing import Any, Dict, List, Optional, Tuple

import z3

from ..models.schema import REL
from . import odata_ref as R
from . import values as V
from .symdb import Slot, SymDB
from .values import BoolV, IntV, Unmodelled


class Ent:
    """A (possibly missing) row of `table`: `exists` flag and cells."""

    def __init__(self, table: str, exists, cells: Dict[str, Any]):
        self.table = table
        self.exists = exists
        self.cells = cells


def _attr(ent: Ent, col: str):
    if col not in ent.cells:
        raise Unmodelled(f"no column {col} on {ent.table}")
    v = ent.cells[col]
    if z3.is_true(ent.exists):
        return v
    return V.v_ite(ent.exists, v, V.null_of(v.kind))


class RelRef(R.OdataRef):
    def __init__(self, db: SymDB, root: Slot, consts=None):
        super().__init__(root.cells, consts)
        self.db = db
        self.root = Ent(root.spec.name, V.TRUE, root.cells)
        self.env: Dict[str, Ent] = {}

    # -------------------------------------------------------------- navigation
    def deref(self, ent: Ent, rel: str) -> Ent:
        kind = REL.get((ent.table, rel))
        if kind is None or kind[0] != "one":
            raise Unmodelled(f"{rel} is not a to-one relationship of {ent.table}")
        _, target, fkcol = kind
        fk = _attr(ent, fkcol)
        slots = self.db.tables[target]
        conds = [z3.And(ent.exists, z3.Not(fk.null), s.present, fk.val == s.cells["id"].val) for s in slots]
        cells = {}
        for c in slots[0].cells:
            v = V.null_of(slots[0].cells[c].kind)
            for s, cond in zip(reversed(slots), reversed(conds)):
                v = V.v_ite(cond, s.cells[c], v)
            cells[c] = v
        return Ent(target, z3.Or(conds), cells)

    def start(self, segs: List[str]) -> Tuple[Ent, List[str]]:
        if segs[0] in self.env:
            return self.env[segs[0]], segs[1:]
        return self.root, segs

    def members(self, ent: Ent, rel: str) -> List[Tuple[Ent, Any]]:
        kind = REL.get((ent.table, rel))
        if kind is None or kind[0] == "one":
            raise Unmodelled(f"{rel} is not a collection of {ent.table}")
        pk = _attr(ent, "id")
        out = []
        if kind[0] == "many":
            _, target, back = kind
            for s in self.db.tables[target]:
                fk = s.cells[back]
                cond = z3.And(ent.exists, s.present, z3.Not(fk.null), fk.val == pk.val)
                out.append((Ent(target, V.TRUE, s.cells), cond))
        else:
            _, target, through, to_me, to_target = kind
            for s in self.db.tables[target]:
                links = [z3.And(l.present, l.cells[to_me].val == pk.val, l.cells[to_target].val == s.cells["id"].val)
                         for l in self.db.tables[through]]
                cond = z3.And(ent.exists, s.present, z3.Or(links))
                out.append((Ent(target, V.TRUE, s.cells), cond))
        return out

    # -------------------------------------------------------------- evaluation
    def ev(self, t) -> Any:
        k = t[0]
        if k == "field":
            return self._value(self.root, t[1])
        if k == "path":
            ent, segs = self.start(list(t[1]))
            for seg in segs[:-1]:
                ent = self.deref(ent, seg)
            return self._value(ent, segs[-1])
        if k == "lambda":
            _, op, owner, var, body = t
            ent, segs = self.start(list(owner))
            for seg in segs[:-1]:
                ent = self.deref(ent, seg)
            mem = self.members(ent, segs[-1])
            if body is None:
                if op != "any":
                    raise Unmodelled("all() without a predicate")
                return BoolV(V.FALSE, z3.Or([c for _, c in mem]))
            vals = []
            saved = self.env.get(var)
            for m_ent, cond in mem:
                self.env[var] = m_ent
                p = V.to_bool(self.ev(body))
                self.side.append(z3.Or(z3.Not(cond), z3.Not(p.null)))      # assumed: the body is not null on a member
                vals.append((cond, p.val))
            if saved is None:
                self.env.pop(var, None)
            else:
                self.env[var] = saved
            if op == "any":
                return BoolV(V.FALSE, z3.Or([z3.And(c, v) for c, v in vals]))
            return BoolV(V.FALSE, z3.And([z3.Or(z3.Not(c), v) for c, v in vals]))
        return super().ev(t)

    def _value(self, ent: Ent, name: str):
        rel = REL.get((ent.table, name))
        if rel is not None:
            if rel[0] != "one":
                raise Unmodelled(f"collection {name} used as a value")
            return _attr(ent, rel[2])           # a to-one relationship compared as a value is its foreign key
        return _attr(ent, name)


# ====================================================================== concrete (plain Python) evaluator
class RelConcrete:
    def __init__(self, content: Dict[str, List[dict]], root_table: str, root_row: dict):
        self.content = content
        self.root = (root_table, root_row)
        self.env: Dict[str, Tuple[str, Optional[dict]]] = {}

    def _find(self, table: str, pk) -> Optional[dict]:
        for r in self.content.get(table, []):
            if r["id"] == pk:
                return r
        return None

    def deref(self, ent, rel: str):
        table, row = ent
        kind = REL.get((table, rel))
        if kind is None or kind[0] != "one":
            raise R.Undefined(f"{rel} is not a to-one relationship of {table}")
        if row is None or row.get(kind[2]) is None:
            return kind[1], None
        return kind[1], self._find(kind[1], row[kind[2]])

    def members(self, ent, rel: str):
        table, row = ent
        kind = REL.get((table, rel))
        if kind is None or kind[0] == "one":
            raise R.Undefined(f"{rel} is not a collection of {table}")
        if row is None:
            return []
        if kind[0] == "many":
            return [(kind[1], r) for r in self.content.get(kind[1], []) if r.get(kind[2]) == row["id"]]
        _, target, through, to_me, to_target = kind
        ids = {l[to_target] for l in self.content.get(through, []) if l[to_me] == row["id"]}
        return [(target, r) for r in self.content.get(target, []) if r["id"] in ids]

    def value(self, ent, name: str):
        table, row = ent
        if row is None:
            return None
        rel = REL.get((table, name))
        if rel is not None:
            return row.get(rel[2])
        return row.get(name)

    def start(self, segs):
        if segs[0] in self.env:
            return self.env[segs[0]], segs[1:]
        return self.root, segs

    def hook(self, t):
        k = t[0]
        if k == "field":
            return True, self.value(self.root, t[1])
        if k == "path":
            ent, segs = self.start(list(t[1]))
            for seg in segs[:-1]:
                ent = self.deref(ent, seg)
            return True, self.value(ent, segs[-1])
        if k == "lambda":
            _, op, owner, var, body = t
            ent, segs = self.start(list(owner))
            for seg in segs[:-1]:
                ent = self.deref(ent, seg)
            mem = self.members(ent, segs[-1])
            if body is None:
                return True, bool(mem)
            vals = []
            saved = self.env.get(var)
            for m in mem:
                self.env[var] = m
                v = R.eval_concrete(body, self.root[1], self.hook)
                if v is None:
                    raise R.Undefined("lambda body is null for a member")
                vals.append(bool(v))
            if saved is None:
                self.env.pop(var, None)
            else:
                self.env[var] = saved
            return True, (any(vals) if op == "any" else all(vals))
        return False, None

    def keeps(self, term) -> bool:
        v = R.eval_concrete(term, self.root[1], self.hook)
        if isinstance(v, str):
            raise R.Undefined("filter is not boolean")
        return v is not None and bool(v) is True


def kept_ids(term, content: Dict[str, List[dict]], root_table: str) -> List[int]:
    """Primary keys of the root rows the filter keeps (the reference answer for a concrete database)."""
    return sorted(r["id"] for r in content.get(root_table, []) if RelConcrete(content, root_table, r).keeps(term))
