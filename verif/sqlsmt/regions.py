"""Known-finding regions: the exclusion predicates named by `id` in /verif/known_findings.json.

An entry is only honoured after its witness was replayed and still fails (done by the property module).  Then
  * a *dynamic* region contributes a z3 constraint `not region(row)` that is conjoined to every solver query, so any
    counterexample the solver still finds lies outside the region and is reported as a VIOLATION;
  * a *static* region is a predicate on the program (filter term + emitted SQL); programs inside it are reported as
    covered by the known finding, all others are checked in full.

Ids implemented (C01 unless noted):
  sqlite-like-ascii-case          dynamic: some LIKE evaluation changes its result under SQLite's ASCII case folding
                                  (like_ci(text, pattern) != like_cs(text, pattern))
  like-field-pattern-wildcards    dynamic: a LIKE without ESCAPE whose pattern has a non-literal piece (field / call)
                                  whose *value* contains % or _
  like-literal-wildcards          static: contains/startswith/endswith with a literal containing % or _ (C01, C09)
  like-literal-quote              static: contains/startswith/endswith with a literal containing a quote (C01, C09)
  unary-minus-unsupported         static: the filter contains a unary minus applied to a non-literal (C01, C09)
  arith-missing-parentheses       static: an arithmetic operand that needs parentheses in SQL (C01, C09)
  null-literal-on-left            static: `null eq x` (C01, C09)
  not-operand-unparenthesised     static: `not x` used as an operand of a comparison (C01, C09)
  call-operand-unparenthesised    static: indexof(...) (rendered `.. - 1`) used as an arithmetic operand, or a boolean
                                  function on the right-hand side of a comparison (C01, C09)
  std-predicate-as-comparison-operand  static (C09): LIKE / IN predicate used as an operand of a comparison
  std-floor-ceiling-not-sql       static (C09): floor()/ceiling() in the standard dialect
  duration-empty                  static (C09): a duration literal without components
ORM properties (C02 / C03 / C04 / C15):
  django-concat-null-as-empty     dynamic: some COALESCE(x, '') (Django's Concat) reads a NULL x as the empty string
  sa-div-true-division            static: SQLAlchemy back end and the filter uses `div`
  sa-function-missing-on-sqlite   static: SQLAlchemy back end and the filter uses indexof / concat (strpos / concat do not
                                  exist in this SQLite)
  sa-boolean-literal-case         static: keyword-case obligation of a filter with a boolean literal (SQLAlchemy)
  sa-like-literal-wildcards       static: SQLAlchemy back end, contains/startswith/endswith literal with % or _
  sa-null-literal-on-left         static: SQLAlchemy back end, `null eq x`
  django-all-lambda-inverted      static: Django back end and the filter uses all(x: p)
  sa-to-one-inner-join            static: SQLAlchemy back end and the filter navigates a to-one path (also as the owner of
                                  a collection)
  sa-outer-column-in-lambda       static: SQLAlchemy back end, a column of the root used inside a lambda body
  sa-lambda-inner-join-dropped    static: SQLAlchemy back end, a to-one path inside a lambda body
  sa-self-referential-navigation  static: SQLAlchemy back end, navigation through the self-referential boss/minions
"""
from __future__ import annotations

from typing import Any, Callable, Dict, List, Optional

import z3

from . import filtergen as G
from . import values as V


def _not_case_region(ctx) -> Any:
    conds = [z3.Or(lk["null"], lk["ci"] == lk["cs"]) for lk in ctx.get("likes", [])]
    return z3.And(conds) if conds else V.TRUE


def _not_field_wildcards(ctx) -> Any:
    conds = []
    for lk in ctx.get("likes", []):
        for v in lk["dyn"]:
            conds.append(z3.Or(v.null, z3.Not(V.has_char(v, [V.PCT, V.USC]))))
    for v in ctx.get("nonliteral_patterns", []):
        conds.append(z3.Or(v.null, z3.Not(V.has_char(v, [V.PCT, V.USC]))))
    return z3.And(conds) if conds else V.TRUE


def _not_coalesced_null(ctx) -> Any:
    conds = [z3.Not(n) for n in ctx.get("coalesced", [])]
    return z3.And(conds) if conds else V.TRUE


DYNAMIC: Dict[str, Callable[[dict], Any]] = {
    "django-concat-null-as-empty": _not_coalesced_null,
    "sqlite-like-ascii-case": _not_case_region,
    "like-field-pattern-wildcards": _not_field_wildcards,
}


def _feat(name: str) -> Callable[[dict], bool]:
    return lambda ctx: name in ctx["features"]


def _dur_empty(ctx) -> bool:
    return any(x[0] == "dur" and x[1].lstrip("+-") in ("P", "PT") for x in G.subterms(ctx["term"]))


def _floor_ceiling_std(ctx) -> bool:
    return ctx.get("dialect") == "standard" and any(f in ctx["features"] for f in ("fn:floor", "fn:ceiling"))


STATIC: Dict[str, Callable[[dict], bool]] = {
    "like-literal-wildcards": _feat("like-literal-wildcard"),
    "like-literal-quote": _feat("like-literal-quote"),
    "unary-minus-unsupported": _feat("unary-minus"),
    "arith-missing-parentheses": _feat("arith-needs-parens"),
    "null-literal-on-left": _feat("null-on-left"),
    "not-operand-unparenthesised": _feat("not-as-compare-operand"),
    "call-operand-unparenthesised": lambda ctx: ("indexof-as-arith-operand" in ctx["features"]
                                                 or "boolfunc-on-right-of-compare" in ctx["features"]),
    "std-predicate-as-comparison-operand": lambda ctx: (ctx.get("dialect") in ("standard", "athena") and (
        "boolfunc-as-compare-operand" in ctx["features"] or "in-as-compare-operand" in ctx["features"])),
    "std-floor-ceiling-not-sql": _floor_ceiling_std,
    "duration-empty": _dur_empty,
}

def _is_sa(ctx) -> bool:
    return str(ctx.get("backend", "")).startswith("sa")


STATIC.update({
    # ---- ORM back ends (C02 / C03 / C04 / C15); ctx carries backend, ob, variant
    "sa-div-true-division": lambda ctx: _is_sa(ctx) and "op:div" in ctx["features"],
    "sa-function-missing-on-sqlite": lambda ctx: _is_sa(ctx) and ("fn:indexof" in ctx["features"] or "fn:concat" in ctx["features"]),
    "sa-boolean-literal-case": lambda ctx: _is_sa(ctx) and ctx.get("ob") == "case" and "bool-literal" in ctx["features"],
    "sa-like-literal-wildcards": lambda ctx: _is_sa(ctx) and "like-literal-wildcard" in ctx["features"],
    "sa-null-literal-on-left": lambda ctx: _is_sa(ctx) and "null-on-left" in ctx["features"],
    "django-all-lambda-inverted": lambda ctx: ctx.get("backend") == "django" and "lambda:all" in ctx["features"],
    "sa-to-one-inner-join": lambda ctx: _is_sa(ctx) and ("path" in ctx["features"] or "collection-via-to-one" in ctx["features"]),
    "sa-outer-column-in-lambda": lambda ctx: _is_sa(ctx) and "outer-ref-in-lambda" in ctx["features"],
    "sa-lambda-inner-join-dropped": lambda ctx: _is_sa(ctx) and "path-inside-lambda" in ctx["features"],
    "sa-self-referential-navigation": lambda ctx: _is_sa(ctx) and "self-path" in ctx["features"],
})

NEEDS_LIKE_TRACKING = set(DYNAMIC)


def static_hit(active: List[str], ctx: dict) -> Optional[str]:
    for rid in active:
        f = STATIC.get(rid)
        if f is not None and f(ctx):
            return rid
    return None


def dynamic_constraints(active: List[str], ctx: dict) -> List[Any]:
    return [DYNAMIC[rid](ctx) for rid in active if rid in DYNAMIC]
