"""Known-finding regions: the exclusion predicates named by `id` in /verif/known_findings.json.

An entry is only honoured after its witness was replayed and still fails (done by the property module).  Then
  * a *dynamic* region contributes a z3 constraint `not region(row)` that is conjoined to every solver query, so any
    counterexample the solver still finds lies outside the region and is reported as a VIOLATION;
  * a *static* region is a predicate on the program (filter term + emitted SQL); programs inside it are reported as
    covered by the known finding, all others are checked in full.

Ids implemented (C01 unless noted):
  sqlite-like-ascii-case          dynamic: some LIKE evaluation changes its result under SQLite's ASCII case folding
                                  (like_ci(text, pattern) != like_cs(text, pattern))
  like-field-pattern-wildcards    dynamic: a LIKE without ESCAPE whose pattern has a non-literal piece (field / call)
                                  whose *value* contains % or _
  like-literal-wildcards          static: contains/startswith/endswith with a literal containing % or _ (C01, C09)
  like-literal-quote              static: contains/startswith/endswith with a literal containing a quote (C01, C09)
  unary-minus-unsupported         static: the filter contains a unary minus applied to a non-literal (C01, C09)
  arith-missing-parentheses       static: an arithmetic operand that needs parentheses in SQL (C01, C09)
  null-literal-on-left            static: `null eq x` (C01, C09)
  not-operand-unparenthesised     static: `not x` used as an operand of a comparison (C01, C09)
  call-operand-unparenthesised    static: indexof(...) (rendered `.. - 1`) used as an arithmetic operand, or a boolean
                                  function on the right-hand side of a comparison (C01, C09)
  std-predicate-as-comparison-operand  static (C09): LIKE / IN predicate used as an operand of a comparison
  std-floor-ceiling-not-sql       static (C09): floor()/ceiling() in the standard dialect
  duration-empty                  static (C09): a duration literal without components
  sqlite-round-trunc-negative     dynamic (C01): the filter contains round() and the row makes the reference value of its
                                  argument <= -1/2 (the SQLite dialect renders round(x) as TRUNC(x + 0.5))
ORM properties (C02 / C03 / C04 / C15):
  sqlite-like-ascii-case, like-field-pattern-wildcards   dynamic, as above; the second one is also stated on the filter:
                                  the reference *value* of a non-literal 2nd argument of contains/startswith/endswith
                                  contains % or _ (ctx key nonliteral_patterns)
  django-concat-null-as-empty     dynamic: some COALESCE(x, '') (Django's Concat) reads a NULL x as the empty string
  sa-div-true-division            dynamic, adjusted reference: rows on which the program agrees with the reference read
                                  with `div` as REAL division are explained by the finding; a row on which it disagrees
                                  with both readings is still a VIOLATION
  sa-function-missing-on-sqlite   assumption, program still checked in full: strpos() read as INSTR(), concat() as || ;
                                  replayed on a connection with these two functions registered
  django-constant-null-test       static: Django, a null test on a constant expression used as operand of a comparison
  django-nested-compare-parens    static: Django, a comparison / null test / in / LIKE predicate whose own left operand is
                                  rendered in parentheses (arithmetic, comparison, NOT, in, indexof, concat) and that is
                                  the right operand of a comparison, or a null test applied to a `not` expression
                                  (Django wraps a nested lookup in parentheses only if its SQL does not already start
                                  with one)
  django-outer-column-in-lambda / sa-outer-column-in-lambda   static: a column of the root ($it) inside a lambda body
  sa-lambda-inner-join-dropped    static: SQLAlchemy, to-one navigation (as a value or as owner of a collection) inside a
                                  lambda body
  sa-same-table-twice             static: SQLAlchemy, two different to-one paths into the same table outside lambdas
  sa-self-referential-navigation  static: SQLAlchemy, navigation through the self-referential boss (the back end raises
                                  InvalidRequestError; witness key expect_crash)
"""
from __future__ import annotations

from typing import Any, Callable, Dict, List, Optional

import z3

from . import filtergen as G
from . import values as V


def _not_case_region(ctx) -> Any:
    conds = [z3.Or(lk["null"], lk["ci"] == lk["cs"]) for lk in ctx.get("likes", [])]
    return z3.And(conds) if conds else V.TRUE


def _not_field_wildcards(ctx) -> Any:
    conds = []
    for lk in ctx.get("likes", []):
        for v in lk["dyn"]:
            conds.append(z3.Or(v.null, z3.Not(V.has_char(v, [V.PCT, V.USC]))))
    for v in ctx.get("nonliteral_patterns", []):
        conds.append(z3.Or(v.null, z3.Not(V.has_char(v, [V.PCT, V.USC]))))
    return z3.And(conds) if conds else V.TRUE


def _not_coalesced_null(ctx) -> Any:
    conds = [z3.Not(n) for n in ctx.get("coalesced", [])]
    return z3.And(conds) if conds else V.TRUE


def _not_explained_by_real_div(ctx) -> Any:
    """Adjusted reference: the program is compared with the reference in which `div` is REAL division.  A row on
    which the program agrees with that reading is explained by the known defect; only rows on which it disagrees
    with BOTH readings remain candidates."""
    adj = ctx.get("adjusted", {}).get("real_div")
    if adj is None or ctx.get("sql_keep") is None:
        return V.TRUE
    return ctx["sql_keep"] != adj


def _not_round_negative(ctx) -> Any:
    """sqlite-round-trunc-negative: some round() argument evaluates to <= -1/2 under the row (reference value)."""
    conds = []
    for v in ctx.get("round_args", []):
        neg_den = v.den < 0
        n = z3.If(neg_den, -v.num, v.num)
        d = z3.If(neg_den, -v.den, v.den)
        conds.append(z3.Or(v.null, 2 * n > -d))          # argument > -1/2
    return z3.And(conds) if conds else V.TRUE


DYNAMIC: Dict[str, Callable[[dict], Any]] = {
    "sqlite-round-trunc-negative": _not_round_negative,
    "sa-div-true-division": _not_explained_by_real_div,
    "django-concat-null-as-empty": _not_coalesced_null,
    "sqlite-like-ascii-case": _not_case_region,
    "like-field-pattern-wildcards": _not_field_wildcards,
}


def _feat(name: str) -> Callable[[dict], bool]:
    return lambda ctx: name in ctx["features"]


def _dur_empty(ctx) -> bool:
    return any(x[0] == "dur" and x[1].lstrip("+-") in ("P", "PT") for x in G.subterms(ctx["term"]))


def _floor_ceiling_std(ctx) -> bool:
    return ctx.get("dialect") == "standard" and any(f in ctx["features"] for f in ("fn:floor", "fn:ceiling"))


STATIC: Dict[str, Callable[[dict], bool]] = {
    "like-literal-wildcards": _feat("like-literal-wildcard"),
    "like-literal-quote": _feat("like-literal-quote"),
    "unary-minus-unsupported": _feat("unary-minus"),
    "arith-missing-parentheses": _feat("arith-needs-parens"),
    "null-literal-on-left": _feat("null-on-left"),
    "not-operand-unparenthesised": _feat("not-as-compare-operand"),
    "call-operand-unparenthesised": lambda ctx: ("indexof-as-arith-operand" in ctx["features"]
                                                 or "boolfunc-on-right-of-compare" in ctx["features"]),
    "std-predicate-as-comparison-operand": lambda ctx: (ctx.get("dialect") in ("standard", "athena") and (
        "boolfunc-as-compare-operand" in ctx["features"] or "in-as-compare-operand" in ctx["features"])),
    "std-floor-ceiling-not-sql": _floor_ceiling_std,
    "duration-empty": _dur_empty,
}

def _is_sa(ctx) -> bool:
    return str(ctx.get("backend", "")).startswith("sa")


def _is_dj(ctx) -> bool:
    return ctx.get("backend") == "django"


# ids whose region is an ASSUMPTION under which the program is still checked in full (see orm.py):
#   sa-function-missing-on-sqlite   strpos() is read as INSTR() and concat() as || ; replay on a connection where the two
#                                   functions are registered with exactly that meaning
ASSUMED = {"sa-function-missing-on-sqlite"}

STATIC.update({
    # ---- ORM back ends (C02 / C03 / C04 / C15); ctx carries backend, ob, variant.  Static regions are kept only where
    # the emitted statement is structurally wrong (or the back end raises); they are as narrow as the features allow.
    "django-constant-null-test": lambda ctx: _is_dj(ctx) and "constant-null-test-as-operand" in ctx["features"],
    "django-nested-compare-parens": lambda ctx: _is_dj(ctx) and ("cmp-operand-is-cmp-of-arith" in ctx["features"]
                                                                 or "nested-lookup-with-compound-left" in ctx["features"]
                                                                 # `(not X) lt false` is emitted as `NOT (X) < %s`, which SQL
                                                                 # reads as NOT ((X) < %s); for eq / ne both readings agree
                                                                 or "not-as-ordering-compare-operand" in ctx["features"]),
    "django-outer-column-in-lambda": lambda ctx: _is_dj(ctx) and "outer-ref-in-lambda" in ctx["features"],
    "sa-outer-column-in-lambda": lambda ctx: _is_sa(ctx) and "outer-ref-in-lambda" in ctx["features"],
    "sa-lambda-inner-join-dropped": lambda ctx: _is_sa(ctx) and ("path-inside-lambda" in ctx["features"]
                                                                 or "collection-via-to-one-inside-lambda" in ctx["features"]),
    "sa-same-table-twice": lambda ctx: _is_sa(ctx) and "two-paths-same-table" in ctx["features"],
    "sa-self-referential-navigation": lambda ctx: _is_sa(ctx) and "self-path" in ctx["features"],
})

NEEDS_LIKE_TRACKING = set(DYNAMIC)


def static_hit(active: List[str], ctx: dict) -> Optional[str]:
    for rid in active:
        f = STATIC.get(rid)
        if f is not None and f(ctx):
            return rid
    return None


def dynamic_constraints(active: List[str], ctx: dict) -> List[Any]:
    return [DYNAMIC[rid](ctx) for rid in active if rid in DYNAMIC]


def dynamic_map(active: List[str], ctx: dict) -> Dict[str, Any]:
    """{id -> `not region` constraint} for the active dynamic regions that say something about this program."""
    out = {}
    for rid in active:
        if rid in DYNAMIC:
            c = DYNAMIC[rid](ctx)
            if not z3.is_true(c):
                out[rid] = c
    return out


def solve_with_regions(make_solver: Callable[[], Any], disagree, region_map: Dict[str, Any], extra_side=()) -> dict:
    """Decide one obligation in the presence of known-finding regions.

      sat      a counterexample OUTSIDE every active region exists (result['solver'] holds the model)  -> candidate
      known    counterexamples exist, but only inside the regions; result['known_id'] names the (first) region that
               alone explains them
      unsat    no counterexample at all
      vacuous  the assumptions alone are unsatisfiable (nothing was checked)
      unknown  z3 gave up (result['why'])
    The vacuity check and the `known` decision never use the region constraints themselves."""
    import time
    t0 = time.time()
    out: Dict[str, Any] = {"known_id": None, "why": None}

    def done(status):
        out["status"] = status
        out["solver_s"] = round(time.time() - t0, 4)
        return out

    s = make_solver()
    s.add(list(extra_side))
    s.add(list(region_map.values()))
    s.add(disagree)
    r = s.check()
    if r == z3.sat:
        out["solver"] = s
        return done("sat")
    if r == z3.unknown:
        out["why"] = f"z3: {s.reason_unknown()}"
        return done("unknown")
    if region_map:
        s2 = make_solver()
        s2.add(disagree)
        r2 = s2.check()
        if r2 == z3.unknown:
            out["why"] = f"z3 (without regions): {s2.reason_unknown()}"
            return done("unknown")
        if r2 == z3.sat:
            # attribute to the first region whose `not region` constraint the counterexample violates (no extra solving)
            m2 = s2.model()
            out["known_id"] = next(iter(region_map))
            for rid, c in region_map.items():
                if z3.is_false(m2.eval(c, True)):
                    out["known_id"] = rid
                    break
            return done("known")
    s4 = make_solver()
    r4 = s4.check()
    if r4 == z3.unsat:
        return done("vacuous")
    if r4 != z3.sat:
        out["why"] = f"vacuity check: z3 {r4}"
        return done("unknown")
    return done("unsat")
