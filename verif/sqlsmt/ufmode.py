"""UF mode (C09): is the parsed SQL tree the same tree as the filter, up to semantically neutral regrouping?

There is no engine to execute standard SQL or Athena here, so dialect functions stay *uninterpreted*.  Both sides are
first normalised into one small core language whose function vocabulary is OData's:

  filter term  --od_to_core-->  core   <--sql_to_core(template table)--  parsed SQL tree

and z3 decides validity of  core_sql == core_odata  for ALL field values, with Boolean / three-valued / comparison /
integer-arithmetic structure interpreted (16-bit vectors) and every function an uninterpreted symbol.  A counter-model
is re-evaluated by a small Python evaluator over the two core trees (UF applications looked up in the model).

Template table (written from SQL-92/99, SQLite's and Trino/Athena's function references - not from /repo):
  CHAR_LENGTH(x) = CHARACTER_LENGTH(x) = LENGTH(x)                    = length(x)
  POSITION(y IN x) = INSTR(x, y) = STRPOS(x, y)                       = indexof(x, y) + 1
  SUBSTRING(x FROM p [FOR n]) = SUBSTR(x, p[, n]) = SUBSTRING(x,p[,n]) = substring(x, p - 1[, n])
  LOWER / UPPER / TRIM(x)                                             = tolower / toupper / trim
  x || y                                                              = concat(x, y)     (re-associated)
  x LIKE '%lit%' / 'lit%' / '%lit' [ESCAPE c]  (lit free of unescaped wildcards) = contains / startswith / endswith
  x LIKE '%' || e || '%'  /  e || '%'  /  '%' || e                     = contains / startswith / endswith (x, e)
       (structure only: wildcard characters inside e's *value* are C01's business)
  EXTRACT(YEAR|MONTH|DAY|HOUR|MINUTE|SECOND FROM x) = CAST(STRFTIME('%Y'.., x) AS INTEGER) = YEAR(x).. = year(x) ..
  CAST(x AS DATE) = DATE(x)                                           = date(x)
  DATE 'lit' = DATE('lit')   TIMESTAMP 'lit' = DATETIME('lit') = FROM_ISO8601_TIMESTAMP('lit')   = the literal
  CURRENT_TIMESTAMP = NOW() = DATETIME('now')                         = now()
  ROUND(x) / FLOOR(x) / CEILING(x) = CEIL(x)                          = round / floor / ceiling
  CAST (x + 0.5 AS INTEGER) / TRUNC(x + 0.5)   (the generic / SQLite dialects' documented idiom)   = round(x)
       (structure only: its numeric meaning for negative x is C01's business, known finding sqlite-round-trunc-negative)
  INTERVAL 'n' UNIT                                                   = the duration component n UNIT
Anything else (e.g. CAST(x + 0.5 AS INTEGER), TRUNC) has no template: the structure obligation of that program is
reported as outside the template table, never as a pass.
"""
from __future__ import annotations

import re
from typing import Any, Dict, List, Optional, Tuple

import z3

from . import filtergen as G
from . import values as V
from .values import BoolV, IntV

W = V.W


class NoTemplate(Exception):
    """Well-formed SQL for which the template table has no OData counterpart."""


class IllTyped(NoTemplate):
    """The tree cannot be typed under the filter's field types (text used as number, number as text ...)."""


# ====================================================================== OData term -> core
_DUR = re.compile(r"^([+-])?P(?:(\d+)Y)?(?:(\d+)M)?(?:(\d+)D)?(?:T(?:(\d+)H)?(?:(\d+)M)?(?:(\d+(?:\.\d+)?)S)?)?$")
_UNITS = ("YEAR", "MONTH", "DAY", "HOUR", "MINUTE", "SECOND")
_ARITH = {"add": "+", "sub": "-", "mul": "*", "div": "/", "mod": "%"}
_CMPOP = {"eq": "=", "ne": "!=", "lt": "<", "le": "<=", "gt": ">", "ge": ">="}


def _norm_ts(s: str) -> str:
    return s.strip().replace(" ", "T").upper()


def duration_core(text: str):
    m = _DUR.match(text.upper())
    if not m:
        raise NoTemplate(f"duration {text!r}")
    parts = [("app", "interval", [("slit", n), ("slit", u)]) for n, u in zip(m.groups()[1:], _UNITS)
             if n is not None and float(n) != 0]   # zero-length components denote the zero duration (see c_interval)
    if not parts:
        total: Any = ("ilit", 0)
    else:
        total = parts[0]
        for p in parts[1:]:
            total = ("arith", "+", total, p)
    return ("neg", total) if m.group(1) == "-" else total


def od_to_core(t):
    k = t[0]
    if k == "field":
        return ("fld", t[1])
    if k == "int":
        return ("ilit", t[1])
    if k == "float":
        return ("flit", _norm_float(t[1]))
    if k in ("str", "guid"):
        return ("slit", t[1])
    if k == "bool":
        return ("blit", t[1])
    if k == "null":
        return ("null",)
    if k == "date":
        return ("app", "datelit", [("slit", t[1])])
    if k == "dt":
        return ("app", "dtlit", [("slit", _norm_ts(t[1]))])
    if k == "dur":
        return duration_core(t[1])
    if k == "neg":
        return ("neg", od_to_core(t[1]))
    if k == "arith":
        return ("arith", _ARITH[t[1]], od_to_core(t[2]), od_to_core(t[3]))
    if k == "cmp":
        op = t[1]
        if op in ("eq", "ne") and (t[2][0] == "null" or t[3][0] == "null"):
            other = t[2] if t[3][0] == "null" else t[3]
            return ("isnull", op == "ne", od_to_core(other))
        return ("cmp", _CMPOP[op], od_to_core(t[2]), od_to_core(t[3]))
    if k == "in":
        return ("in", False, od_to_core(t[1]), [od_to_core(i) for i in t[2]])
    if k in ("and", "or"):
        return (k, od_to_core(t[1]), od_to_core(t[2]))
    if k == "not":
        return ("not", od_to_core(t[1]))
    if k == "call":
        return ("app", t[1], [od_to_core(a) for a in t[2]])
    raise NoTemplate(f"OData construct {k}")


def _norm_float(s: str) -> str:
    """Canonical VALUE of a real literal (its kind stays 'flit'): 1.5e1, 15.0 and 15.00 are the same literal, but a real
    literal is never the same leaf as the integer literal 15."""
    from decimal import Decimal, InvalidOperation
    from fractions import Fraction
    try:
        return str(Fraction(Decimal(s.strip())))
    except (InvalidOperation, ValueError):
        return s.strip().lstrip("+")


# ====================================================================== parsed SQL -> core (the template table)
_LEN = {"LENGTH", "CHAR_LENGTH", "CHARACTER_LENGTH"}
_SIMPLE = {"LOWER": "tolower", "UPPER": "toupper", "TRIM": "trim", "ROUND": "round", "FLOOR": "floor",
           "CEILING": "ceiling", "CEIL": "ceiling", "YEAR": "year", "MONTH": "month", "DAY": "day", "HOUR": "hour",
           "MINUTE": "minute", "SECOND": "second"}
_EXTRACT = {"YEAR": "year", "MONTH": "month", "DAY": "day", "HOUR": "hour", "MINUTE": "minute", "SECOND": "second"}
_STRFTIME = {"%Y": "year", "%m": "month", "%d": "day", "%H": "hour", "%M": "minute", "%S": "second"}
ONE = ("tlit", 1)        # a literal the template itself introduces (never a leaf of the filter)


def decode_like(pattern: str, esc: Optional[str]) -> List[Any]:
    """LIKE pattern -> items: 'ANY' (%), 'ONE' (_), or a literal character; None if the pattern is malformed."""
    items: List[Any] = []
    i = 0
    while i < len(pattern):
        ch = pattern[i]
        if esc is not None and ch == esc:
            if i + 1 >= len(pattern):
                return None
            items.append(("c", pattern[i + 1]))
            i += 2
            continue
        items.append("ANY" if ch == "%" else "ONE" if ch == "_" else ("c", ch))
        i += 1
    return items


def _like_literal(x, pattern: str, esc: Optional[str]):
    items = decode_like(pattern, esc)
    if items is None:
        return ("app", "like", [x, ("slit", pattern)])
    lead = trail = False
    if items and items[0] == "ANY":
        lead = True
        items = items[1:]
    if items and items[-1] == "ANY":
        trail = True
        items = items[:-1]
    elif not items and lead:
        trail = True                     # the single % (or %%): contains(x, '')
    if any(not isinstance(it, tuple) for it in items):
        return ("app", "like", [x, ("slit", pattern)])          # wildcard inside: no OData counterpart
    lit = ("slit", "".join(c for _, c in items))
    if lead and trail:
        return ("app", "contains", [x, lit])
    if trail:
        return ("app", "startswith", [x, lit])
    if lead:
        return ("app", "endswith", [x, lit])
    return ("app", "like", [x, ("slit", pattern)])


def _flatten_cat(t) -> List[Any]:
    if t[0] == "bin" and t[1] == "||":
        return _flatten_cat(t[2]) + _flatten_cat(t[3])
    return [t]


class SqlToCore:
    def __init__(self, dialect: str):
        self.dialect = dialect

    def conv(self, t):
        k = t[0]
        f = getattr(self, "c_" + k, None)
        if f is None:
            raise NoTemplate(f"SQL construct {k}")
        return f(t)

    def c_int(self, t):
        return ("ilit", t[1])

    def c_float(self, t):
        return ("flit", _norm_float(t[1]))

    def c_str(self, t):
        return ("slit", t[1])

    def c_null(self, t):
        return ("null",)

    def c_bool(self, t):
        return ("blit", t[1])

    def c_col(self, t):
        return ("fld", t[2])

    def c_kw(self, t):
        if t[1] == "CURRENT_TIMESTAMP":
            return ("app", "now", [])
        raise NoTemplate(t[1])

    def c_typed(self, t):
        if t[1] == "DATE":
            return ("app", "datelit", [("slit", t[2])])
        if t[1] == "TIMESTAMP":
            return ("app", "dtlit", [("slit", _norm_ts(t[2]))])
        raise NoTemplate(f"{t[1]} literal")

    def c_interval(self, t):
        # a zero-length interval of any unit denotes the zero duration (duration'P' has no components)
        try:
            if float(t[1]) == 0:
                return ("ilit", 0)
        except (TypeError, ValueError):
            pass
        return ("app", "interval", [("slit", t[1]), ("slit", t[2])])

    def c_neg(self, t):
        return ("neg", self.conv(t[1]))

    def c_not(self, t):
        return ("not", self.conv(t[1]))

    def c_and(self, t):
        return ("and", self.conv(t[1]), self.conv(t[2]))

    def c_or(self, t):
        return ("or", self.conv(t[1]), self.conv(t[2]))

    def c_bin(self, t):
        if t[1] == "||":
            return ("app", "concat", [self.conv(t[2]), self.conv(t[3])])
        return ("arith", t[1], self.conv(t[2]), self.conv(t[3]))

    def c_cmp(self, t):
        return ("cmp", t[1], self.conv(t[2]), self.conv(t[3]))

    def c_isnull(self, t):
        return ("isnull", t[1], self.conv(t[2]))

    def c_in(self, t):
        return ("in", t[1], self.conv(t[2]), [self.conv(i) for i in t[3]])

    def c_extract(self, t):
        if t[1] not in _EXTRACT:
            raise NoTemplate(f"EXTRACT({t[1]})")
        return ("app", _EXTRACT[t[1]], [self.conv(t[2])])

    @staticmethod
    def _plus_half(e):
        """X if e is `X + 0.5` (the dialects' documented rounding idiom), else None."""
        if e[0] == "bin" and e[1] == "+" and e[3][0] == "float" and _norm_float(e[3][1]) == "1/2":
            return e[2]
        return None

    def c_cast(self, t):
        ty = t[2].upper()
        e = t[1]
        if ty in ("INTEGER", "INT") and self._plus_half(e) is not None:
            # generic dialect: round(x) is documented as CAST (x + 0.5 AS INTEGER); C09 judges well-formedness and
            # grouping, not the numeric meaning of the idiom
            return ("app", "round", [self.conv(self._plus_half(e))])
        if ty == "DATE":
            return ("app", "date", [self.conv(e)])
        if ty in ("INTEGER", "INT") and e[0] == "call" and e[1] == "STRFTIME" and len(e[2]) == 2 \
                and e[2][0][0] == "str" and e[2][0][1] in _STRFTIME:
            return ("app", _STRFTIME[e[2][0][1]], [self.conv(e[2][1])])
        raise NoTemplate(f"CAST(.. AS {ty})")

    def c_position(self, t):
        return ("arith", "+", ("app", "indexof", [self.conv(t[2]), self.conv(t[1])]), ONE)

    def c_substring(self, t):
        args = [self.conv(t[1]), ("arith", "-", self.conv(t[2]), ONE)]
        if t[3] is not None:
            args.append(self.conv(t[3]))
        return ("app", "substring", args)

    def c_like(self, t):
        x = self.conv(t[2])
        esc = None
        if t[4] is not None:
            if t[4][0] != "str" or len(t[4][1]) != 1:
                raise NoTemplate("ESCAPE that is not a one-character literal")
            esc = t[4][1]
        pat = t[3]
        if pat[0] == "str":
            res = _like_literal(x, pat[1], esc)
        else:
            # non-literal pattern: the same text can be read in several ways ('%' || e || '%' is contains(x, e) but also
            # startswith(x, concat('%', e)) ...); every reading the template table allows is a candidate and the
            # structure obligation holds if one of them is the filter's tree
            pieces = _flatten_cat(pat)
            is_pct = lambda p: p[0] == "str" and p[1] == "%"

            def cat(ps):
                out = self.conv(ps[-1])
                for q in reversed(ps[:-1]):
                    out = ("app", "concat", [self.conv(q), out])
                return out
            alts = []
            if esc is None:
                if len(pieces) >= 3 and is_pct(pieces[0]) and is_pct(pieces[-1]):
                    alts.append(("app", "contains", [x, cat(pieces[1:-1])]))
                if len(pieces) >= 2 and is_pct(pieces[-1]):
                    alts.append(("app", "startswith", [x, cat(pieces[:-1])]))
                if len(pieces) >= 2 and is_pct(pieces[0]):
                    alts.append(("app", "endswith", [x, cat(pieces[1:])]))
            alts.append(("app", "like", [x, self.conv(pat)]))
            res = alts[0] if len(alts) == 1 else ("alts", alts)
        return ("not", res) if t[1] else res

    def c_call(self, t):
        name, args = t[1], t[2]
        if name in _LEN and len(args) == 1:
            return ("app", "length", [self.conv(args[0])])
        if name in _SIMPLE and len(args) == 1:
            return ("app", _SIMPLE[name], [self.conv(args[0])])
        if name in ("INSTR", "STRPOS") and len(args) == 2:
            return ("arith", "+", ("app", "indexof", [self.conv(args[0]), self.conv(args[1])]), ONE)
        if name in ("SUBSTR", "SUBSTRING") and len(args) in (2, 3):
            a = [self.conv(args[0]), ("arith", "-", self.conv(args[1]), ONE)]
            if len(args) == 3:
                a.append(self.conv(args[2]))
            return ("app", "substring", a)
        if name == "DATE" and len(args) == 1:
            if args[0][0] == "str":
                return ("app", "datelit", [("slit", args[0][1])])
            return ("app", "date", [self.conv(args[0])])
        if name in ("DATETIME", "FROM_ISO8601_TIMESTAMP", "TIMESTAMP") and len(args) == 1 and args[0][0] == "str":
            if name == "DATETIME" and args[0][1].lower() == "now":
                return ("app", "now", [])
            return ("app", "dtlit", [("slit", _norm_ts(args[0][1]))])
        if name == "TRUNC" and len(args) == 1 and self._plus_half(args[0]) is not None:
            return ("app", "round", [self.conv(self._plus_half(args[0]))])       # SQLite dialect's idiom for round(x)
        if name in ("NOW", "CURRENT_TIMESTAMP") and not args:
            return ("app", "now", [])
        if name == "CONCAT" and len(args) == 2:
            return ("app", "concat", [self.conv(args[0]), self.conv(args[1])])
        raise NoTemplate(f"function {name}/{len(args)}")


def sql_to_core(tree, dialect: str):
    """Core tree of a parsed SQL expression; may contain ('alts', [readings]) nodes - see expand()."""
    return SqlToCore(dialect).conv(tree)


def expand(c, cap: int = 8) -> List[Any]:
    """All readings of a core tree with ('alts', ...) nodes (cartesian product, first = most specific, capped)."""
    import itertools
    k = c[0]
    if k == "alts":
        out: List[Any] = []
        for a in c[1]:
            out += expand(a, cap)
        return out[:cap]
    if k == "app":
        combos = itertools.product(*[expand(a, cap) for a in c[2]])
        return [("app", c[1], list(args)) for args in itertools.islice(combos, cap)]
    if k in ("neg", "not"):
        return [(k, x) for x in expand(c[1], cap)]
    if k in ("and", "or"):
        return [(k, l, r) for l, r in itertools.islice(itertools.product(expand(c[1], cap), expand(c[2], cap)), cap)]
    if k in ("arith", "cmp"):
        return [(k, c[1], l, r) for l, r in itertools.islice(itertools.product(expand(c[2], cap), expand(c[3], cap)), cap)]
    if k == "isnull":
        return [(k, c[1], x) for x in expand(c[2], cap)]
    if k == "in":
        combos = itertools.product(expand(c[2], cap), *[expand(i, cap) for i in c[3]])
        return [(k, c[1], cb[0], list(cb[1:])) for cb in itertools.islice(combos, cap)]
    return [c]


# ====================================================================== neutral normalisation of core trees
def normalise(c):
    """Semantically neutral rewrites applied to BOTH sides: concat is re-associated to the right;
    contains/startswith/endswith with the empty literal are the same predicate."""
    k = c[0]
    if k == "app":
        args = [normalise(a) for a in c[2]]
        if c[1] == "concat":
            flat: List[Any] = []

            def fl(x):
                if x[0] == "app" and x[1] == "concat":
                    fl(x[2][0])
                    fl(x[2][1])
                else:
                    flat.append(x)
            fl(("app", "concat", args))
            out = flat[-1]
            for x in reversed(flat[:-1]):
                out = ("app", "concat", [x, out])
            return out
        if c[1] in ("startswith", "endswith") and args[1] == ("slit", ""):
            return ("app", "contains", args)
        return ("app", c[1], args)
    if k in ("neg", "not"):
        return (k, normalise(c[1]))
    if k in ("and", "or"):
        return (k, normalise(c[1]), normalise(c[2]))
    if k in ("arith", "cmp"):
        return (k, c[1], normalise(c[2]), normalise(c[3]))
    if k == "isnull":
        return (k, c[1], normalise(c[2]))
    if k == "in":
        return (k, c[1], normalise(c[2]), [normalise(i) for i in c[3]])
    return c


def _is_one(x) -> bool:
    return x in (("tlit", 1), ("ilit", 1))


def strip_shifts(c):
    """For the TREE obligation: remove the index shifts of the templates so that what remains is the filter's own
    arithmetic.  (U + 1) - 1 -> U when one of the two ones is the template's (POSITION/INSTR = indexof + 1,
    SUBSTR(x, p) = substring(x, p - 1)); a negated literal is a literal.  Applied to both sides."""
    k = c[0]
    if k == "app":
        return ("app", c[1], [strip_shifts(a) for a in c[2]])
    if k == "neg":
        x = strip_shifts(c[1])
        if x[0] == "ilit":
            return ("ilit", -x[1])
        return ("neg", x)
    if k == "not":
        return ("not", strip_shifts(c[1]))
    if k in ("and", "or"):
        return (k, strip_shifts(c[1]), strip_shifts(c[2]))
    if k == "cmp":
        return (k, c[1], strip_shifts(c[2]), strip_shifts(c[3]))
    if k == "isnull":
        return (k, c[1], strip_shifts(c[2]))
    if k == "in":
        return (k, c[1], strip_shifts(c[2]), [strip_shifts(i) for i in c[3]])
    if k == "arith":
        l, r = strip_shifts(c[2]), strip_shifts(c[3])
        if c[1] == "-" and _is_one(r) and l[0] == "arith" and l[1] == "+" and ("tlit", 1) in (r, l[2], l[3]):
            if _is_one(l[3]):
                return l[2]
            if _is_one(l[2]):
                return l[3]
        return ("arith", c[1], l, r)
    return c


def arith_ops(c) -> int:
    """Number of arithmetic operator nodes (a regrouping needs at least two)."""
    k = c[0]
    n = 1 if k in ("arith", "neg") else 0
    if k == "app":
        return n + sum(arith_ops(a) for a in c[2])
    if k in ("neg", "not"):
        return n + arith_ops(c[1])
    if k in ("and", "or"):
        return n + arith_ops(c[1]) + arith_ops(c[2])
    if k in ("arith", "cmp"):
        return n + arith_ops(c[2]) + arith_ops(c[3])
    if k == "isnull":
        return n + arith_ops(c[2])
    if k == "in":
        return n + arith_ops(c[2]) + sum(arith_ops(i) for i in c[3])
    return n


def core_leaves(c, out: Optional[List[Tuple[str, Any]]] = None) -> List[Tuple[str, Any]]:
    """Field and literal leaves of a core tree (template-introduced literals excluded)."""
    if out is None:
        out = []
    k = c[0]
    if k == "fld":
        out.append(("field", c[1]))
    elif k == "ilit":
        out.append(("int", c[1]))
    elif k == "flit":
        out.append(("float", c[1]))
    elif k == "slit":
        out.append(("str", c[1]))
    elif k == "blit":
        out.append(("bool", c[1]))
    elif k == "null":
        out.append(("null", None))
    elif k == "app":
        if c[1] in ("datelit", "dtlit"):
            out.append((c[1], c[2][0][1]))
        elif c[1] == "interval":
            out.append(("interval", (c[2][0][1], c[2][1][1])))
        else:
            for a in c[2]:
                core_leaves(a, out)
    elif k in ("neg", "not"):
        core_leaves(c[1], out)
    elif k in ("and", "or"):
        core_leaves(c[1], out)
        core_leaves(c[2], out)
    elif k in ("arith", "cmp"):
        core_leaves(c[2], out)
        core_leaves(c[3], out)
    elif k == "isnull":
        core_leaves(c[2], out)
    elif k == "in":
        core_leaves(c[2], out)
        for i in c[3]:
            core_leaves(i, out)
    return out


# ====================================================================== core -> z3
SORT_OF_FIELD = {"int": "num", "float": "num", "dt": "num", "date": "num", "dur": "num", "str": "str", "bool": "bool",
                 "guid": "str"}
# function -> (argument sorts, result sort)
SIG: Dict[str, Tuple[Tuple[str, ...], str]] = {
    "contains": (("str", "str"), "bool"), "startswith": (("str", "str"), "bool"), "endswith": (("str", "str"), "bool"),
    "like": (("str", "str"), "bool"), "indexof": (("str", "str"), "num"), "length": (("str",), "num"),
    "substring": (("str", "num"), "str"), "substring3": (("str", "num", "num"), "str"), "tolower": (("str",), "str"),
    "toupper": (("str",), "str"), "trim": (("str",), "str"), "concat": (("str", "str"), "str"),
    "year": (("num",), "num"), "month": (("num",), "num"), "day": (("num",), "num"), "hour": (("num",), "num"),
    "minute": (("num",), "num"), "second": (("num",), "num"), "date": (("num",), "num"), "now": ((), "num"),
    "round": (("num",), "num"), "floor": (("num",), "num"), "ceiling": (("num",), "num"),
    "datelit": (("str",), "num"), "dtlit": (("str",), "num"), "interval": (("str", "str"), "num"),
    "strlt": (("str", "str"), "bool"),
}


class UStr:
    __slots__ = ("null", "val")
    kind = "str"

    def __init__(self, null, val):
        self.null = null
        self.val = val


class UFContext:
    """One z3 vocabulary shared by the two sides of one obligation."""

    def __init__(self, field_types: Dict[str, str], sentinels: List[int], uf_arith: bool = False):
        # uf_arith: + - * / % and unary minus are uninterpreted binary symbols (neither associative nor commutative):
        # validity then means "the same operators with the same operand order and nesting", not just the same value
        self.uf_arith = uf_arith
        self.S = z3.DeclareSort("Str")
        self.field_types = field_types
        self.fields: Dict[str, Any] = {}
        self.strlits: Dict[str, Any] = {}
        self.flits: Dict[str, Any] = {}
        self.funcs: Dict[str, Any] = {}
        self.consts = {s: z3.BitVec(f"lit{s}", W) for s in sentinels}

    def z3sort(self, s: str):
        return {"num": z3.BitVecSort(W), "str": self.S, "bool": z3.BoolSort()}[s]

    def arith(self, op: str):
        key = "arith" + op
        if key not in self.funcs:
            n = z3.BitVecSort(W)
            self.funcs[key] = z3.Function("F_op_" + {"+": "add", "-": "sub", "*": "mul", "/": "div", "%": "mod", "neg": "neg"}[op],
                                          *([n, n] if op != "neg" else [n]), n)
        return self.funcs[key]

    def func(self, name: str):
        if name not in self.funcs:
            args, res = SIG[name]
            self.funcs[name] = z3.Function("F_" + name, *[self.z3sort(a) for a in args], self.z3sort(res))
        return self.funcs[name]

    def field(self, name: str):
        if name not in self.fields:
            if name not in self.field_types:
                raise NoTemplate(f"unknown column {name}")
            srt = SORT_OF_FIELD[self.field_types[name]]
            null = z3.Bool(f"{name}!null")
            if srt == "num":
                self.fields[name] = IntV(null, z3.BitVec(name, W))
            elif srt == "bool":
                self.fields[name] = BoolV(null, z3.Bool(name))
            else:
                self.fields[name] = UStr(null, z3.Const(name, self.S))
        return self.fields[name]

    def strlit(self, text: str):
        if text not in self.strlits:
            self.strlits[text] = z3.Const(f"str{len(self.strlits)}", self.S)
        return self.strlits[text]

    def flit(self, text: str):
        if text not in self.flits:
            self.flits[text] = z3.BitVec(f"float{len(self.flits)}", W)
        return self.flits[text]

    def axioms(self) -> List[Any]:
        out = []
        if len(self.strlits) > 1:
            out.append(z3.Distinct(list(self.strlits.values())))
        if len(self.flits) > 1:
            out.append(z3.Distinct(list(self.flits.values())))
        return out


class NullU:
    kind = "null"
    null = V.TRUE


def _as(x, kind: str, ctx: UFContext):
    if x.kind != "null":
        return x
    if kind == "str":
        return UStr(V.TRUE, z3.Const("nullstr", ctx.S))
    if kind == "bool":
        return BoolV(V.TRUE, V.FALSE)
    return IntV(V.TRUE, z3.BitVecVal(0, W))


def _num(x, ctx):
    x = _as(x, "int", ctx)
    if x.kind == "bool":
        return IntV(x.null, z3.If(x.val, z3.BitVecVal(1, W), z3.BitVecVal(0, W)))
    if x.kind != "int":
        raise IllTyped("text used as a number")
    return x


def _bool(x, ctx):
    x = _as(x, "bool", ctx)
    if x.kind == "int":
        return BoolV(x.null, x.val != 0)
    if x.kind != "bool":
        raise IllTyped("text used as a truth value")
    return x


def core_to_z3(c, ctx: UFContext):
    k = c[0]
    if k == "fld":
        return ctx.field(c[1])
    if k == "ilit":
        n = c[1]
        if n in ctx.consts:
            return IntV(V.FALSE, ctx.consts[n])
        if -n in ctx.consts and n != 0:
            return IntV(V.FALSE, -ctx.consts[-n])
        return IntV(V.FALSE, z3.BitVecVal(n, W))
    if k == "tlit":
        return IntV(V.FALSE, z3.BitVecVal(c[1], W))
    if k == "flit":
        return IntV(V.FALSE, ctx.flit(c[1]))
    if k == "slit":
        return UStr(V.FALSE, ctx.strlit(c[1]))
    if k == "blit":
        return V.bconst(c[1])
    if k == "null":
        return NullU()
    if k == "neg":
        x = _num(core_to_z3(c[1], ctx), ctx)
        if ctx.uf_arith:
            return IntV(x.null, ctx.arith("neg")(x.val))
        return IntV(x.null, -x.val)
    if k == "not":
        return V.not3(_bool(core_to_z3(c[1], ctx), ctx))
    if k == "and":
        return V.and3(_bool(core_to_z3(c[1], ctx), ctx), _bool(core_to_z3(c[2], ctx), ctx))
    if k == "or":
        return V.or3(_bool(core_to_z3(c[1], ctx), ctx), _bool(core_to_z3(c[2], ctx), ctx))
    if k == "arith":
        l, r = _num(core_to_z3(c[2], ctx), ctx), _num(core_to_z3(c[3], ctx), ctx)
        a, b = l.val, r.val
        if ctx.uf_arith:
            return IntV(z3.Or(l.null, r.null), ctx.arith(c[1])(a, b))
        val = {"+": a + b, "-": a - b, "*": a * b, "/": a / b, "%": z3.SRem(a, b)}[c[1]]
        return IntV(z3.Or(l.null, r.null), val)
    if k == "cmp":
        return _cmp(c[1], core_to_z3(c[2], ctx), core_to_z3(c[3], ctx), ctx)
    if k == "isnull":
        x = core_to_z3(c[2], ctx)
        return BoolV(V.FALSE, z3.Not(x.null) if c[1] else x.null)
    if k == "in":
        x = core_to_z3(c[2], ctx)
        res = BoolV(V.FALSE, V.FALSE)
        for it in c[3]:
            res = V.or3(res, _cmp("=", x, core_to_z3(it, ctx), ctx))
        return V.not3(res) if c[1] else res
    if k == "app":
        name = c[1]
        if name == "substring" and len(c[2]) == 3:
            name = "substring3"
        if name not in SIG:
            raise NoTemplate(f"function {name}")
        argsorts, res = SIG[name]
        if len(argsorts) != len(c[2]):
            raise NoTemplate(f"arity of {name}")
        args = []
        for a, srt in zip(c[2], argsorts):
            v = core_to_z3(a, ctx)
            v = _as(v, {"num": "int", "str": "str", "bool": "bool"}[srt], ctx)
            if srt == "num":
                v = _num(v, ctx)
            elif srt == "bool":
                v = _bool(v, ctx)
            elif v.kind != "str":
                raise IllTyped(f"argument of {name} is not text")
            args.append(v)
        null = z3.Or([a.null for a in args]) if args else V.FALSE
        val = ctx.func(name)(*[a.val for a in args]) if args else z3.Const("NOW", ctx.z3sort(res))
        if res == "num":
            return IntV(null, val)
        if res == "bool":
            return BoolV(null, val)
        return UStr(null, val)
    raise NoTemplate(f"core node {k}")


def _cmp(op: str, l, r, ctx: UFContext) -> BoolV:
    if l.kind == "null" and r.kind != "null":
        l = _as(l, r.kind, ctx)
    if r.kind == "null":
        r = _as(r, l.kind if l.kind != "null" else "int", ctx)
        l = _as(l, r.kind, ctx)
    null = z3.Or(l.null, r.null)
    if l.kind == "str" and r.kind == "str":
        eq = l.val == r.val
        lt = ctx.func("strlt")(l.val, r.val)
        gt = ctx.func("strlt")(r.val, l.val)
        val = {"=": eq, "!=": z3.Not(eq), "<": lt, "<=": z3.Or(lt, eq), ">": gt, ">=": z3.Or(gt, eq)}[op]
        return BoolV(null, val)
    if l.kind == "str" or r.kind == "str":
        raise IllTyped("comparison between text and number")
    if l.kind == "bool" and r.kind == "bool":
        if op in ("=", "!="):
            return BoolV(null, (l.val == r.val) if op == "=" else (l.val != r.val))
    a, b = _num(l, ctx).val, _num(r, ctx).val
    val = {"=": a == b, "!=": a != b, "<": a < b, "<=": a <= b, ">": a > b, ">=": a >= b}[op]
    return BoolV(null, val)


def same_value(x, y, ctx: UFContext):
    """z3 Bool: the two results are the same (same nullness, and same value when not null)."""
    if x.kind == "null" or y.kind == "null":
        return z3.And(x.null, y.null)
    if x.kind != y.kind:
        if {x.kind, y.kind} <= {"int", "bool"}:
            x, y = _num(x, ctx), _num(y, ctx)
        else:
            return V.FALSE
    return z3.And(x.null == y.null, z3.Or(x.null, x.val == y.val))


# ====================================================================== small concrete evaluator under a z3 model
class ModelEval:
    """Evaluates a core tree in plain Python; only UF applications and leaf values are looked up in the z3 model."""

    def __init__(self, ctx: UFContext, model):
        self.ctx = ctx
        self.m = model

    def _bvpy(self, e) -> int:
        return self.m.eval(e, True).as_signed_long()

    @staticmethod
    def _wrap(n: int) -> int:
        n &= (1 << W) - 1
        return n - (1 << W) if n >= (1 << (W - 1)) else n

    def _z(self, v, sort: str):
        if sort == "num":
            return z3.BitVecVal(v, W)
        if sort == "bool":
            return z3.BoolVal(v)
        return v                                  # strings are carried as z3 values of the uninterpreted sort

    def ev(self, c) -> Tuple[str, Any]:
        """-> (sort, value) with value None for null; sort in num / str / bool / null"""
        k = c[0]
        m = self.m
        if k == "fld":
            v = self.ctx.field(c[1])
            srt = {"int": "num", "bool": "bool", "str": "str"}[v.kind]
            if z3.is_true(m.eval(v.null, True)):
                return srt, None
            if srt == "num":
                return srt, self._bvpy(v.val)
            if srt == "bool":
                return srt, bool(z3.is_true(m.eval(v.val, True)))
            return srt, m.eval(v.val, True)
        if k == "ilit":
            n = c[1]
            if n in self.ctx.consts:
                return "num", self._bvpy(self.ctx.consts[n])
            if -n in self.ctx.consts and n != 0:
                return "num", self._wrap(-self._bvpy(self.ctx.consts[-n]))
            return "num", self._wrap(n)
        if k == "tlit":
            return "num", c[1]
        if k == "flit":
            return "num", self._bvpy(self.ctx.flit(c[1]))
        if k == "slit":
            return "str", m.eval(self.ctx.strlit(c[1]), True)
        if k == "blit":
            return "bool", bool(c[1])
        if k == "null":
            return "null", None
        if k == "neg":
            s, v = self.num(c[1])
            if v is not None and self.ctx.uf_arith:
                return "num", self.m.eval(self.ctx.arith("neg")(z3.BitVecVal(v, W)), True).as_signed_long()
            return "num", None if v is None else self._wrap(-v)
        if k == "not":
            v = self.boolean(c[1])
            return "bool", None if v is None else (not v)
        if k in ("and", "or"):
            a, b = self.boolean(c[1]), self.boolean(c[2])
            if k == "and":
                r = False if (a is False or b is False) else (None if (a is None or b is None) else True)
            else:
                r = True if (a is True or b is True) else (None if (a is None or b is None) else False)
            return "bool", r
        if k == "arith":
            _, a = self.num(c[2])
            _, b = self.num(c[3])
            if a is None or b is None:
                return "num", None
            op = c[1]
            if self.ctx.uf_arith:
                return "num", self.m.eval(self.ctx.arith(op)(z3.BitVecVal(a, W), z3.BitVecVal(b, W)), True).as_signed_long()
            if op == "+":
                r = a + b
            elif op == "-":
                r = a - b
            elif op == "*":
                r = a * b
            else:   # defer to z3's total bvsdiv / bvsrem so that division by zero has the same (arbitrary) meaning
                e = (z3.BitVecVal(a, W) / z3.BitVecVal(b, W)) if op == "/" else z3.SRem(z3.BitVecVal(a, W), z3.BitVecVal(b, W))
                r = z3.simplify(e).as_signed_long()
            return "num", self._wrap(r)
        if k == "cmp":
            return "bool", self.compare(c[1], self.ev(c[2]), self.ev(c[3]))
        if k == "isnull":
            _, v = self.ev(c[2])
            return "bool", (v is not None) if c[1] else (v is None)
        if k == "in":
            x = self.ev(c[2])
            res: Optional[bool] = False
            for it in c[3]:
                e = self.compare("=", x, self.ev(it))
                res = True if (res is True or e is True) else (None if (res is None or e is None) else False)
            return "bool", (None if res is None else (not res)) if c[1] else res
        if k == "app":
            name = c[1]
            if name == "substring" and len(c[2]) == 3:
                name = "substring3"
            argsorts, res = SIG[name]
            vals = []
            for a, srt in zip(c[2], argsorts):
                s, v = self.ev(a)
                if v is None:
                    return res, None
                if srt == "num" and s == "bool":
                    v = int(v)
                vals.append(self._z(v, srt))
            if not vals:
                e = z3.Const("NOW", self.ctx.z3sort(res))
            else:
                e = self.ctx.func(name)(*vals)
            out = m.eval(e, True)
            if res == "num":
                return res, out.as_signed_long()
            if res == "bool":
                return res, bool(z3.is_true(out))
            return res, out
        raise NoTemplate(f"core node {k}")

    def num(self, c):
        s, v = self.ev(c)
        if v is not None and s == "bool":
            v = int(v)
        return "num", v

    def boolean(self, c):
        s, v = self.ev(c)
        if v is None:
            return None
        if s == "num":
            return v != 0
        return bool(v)

    def compare(self, op: str, l, r) -> Optional[bool]:
        (ls, lv), (rs, rv) = l, r
        if lv is None or rv is None:
            return None
        if ls == "str" and rs == "str":
            eq = bool(lv.eq(rv))
            if op in ("=", "!="):
                return eq if op == "=" else not eq
            f = self.ctx.func("strlt")
            lt = bool(z3.is_true(self.m.eval(f(lv, rv), True)))
            gt = bool(z3.is_true(self.m.eval(f(rv, lv), True)))
            return {"<": lt, "<=": lt or eq, ">": gt, ">=": gt or eq}[op]
        if ls == "bool":
            lv = int(lv)
        if rs == "bool":
            rv = int(rv)
        return {"=": lv == rv, "!=": lv != rv, "<": lv < rv, "<=": lv <= rv, ">": lv > rv, ">=": lv >= rv}[op]

    def show(self, sv) -> Any:
        s, v = sv
        if v is None:
            return None
        return str(v) if s == "str" else v
