"""Relational mode (C04, C15): one filter over the bounded symbolic database with several tables.

Query per program:  exists db, exists root slot i.  present_i  and  (statement returns row i) != (reference keeps row i)
where "statement returns row i" is the SQLite-model semantics of the parsed FROM / JOIN / WHERE / EXISTS of the
statement the live shorthand produced (duplicates ignored: a set of root keys), and the reference is relref.RelRef.
"""
from __future__ import annotations

import time
import traceback
from typing import Any, Dict, List, Optional, Sequence, Tuple

import z3

from ..models.schema import ROOT_TABLE, rel_specs, specs_for
from . import filtergen as G
from . import orm, regions, relgen
from . import odata_ref as R
from . import relref
from . import sqlparse_ind as SP
from . import values as V
from .sqlite_model import SqliteModel, Unusable
from .symdb import SymDB

STR_CAP = 2


def make_db(slots: Optional[Sequence[int]] = None, model: str = "Parent") -> SymDB:
    db = SymDB(specs_for(model, slots), str_cap=STR_CAP)
    links = db.tables.get("vt_parent_tags", [])
    for i, a in enumerate(links):                   # the through table has a unique (parent, tag) constraint
        for b in links[i + 1:]:
            db.cons.append(z3.Not(z3.And(a.present, b.present, a.cells["parent_id"].val == b.cells["parent_id"].val,
                                         a.cells["tag_id"].val == b.cells["tag_id"].val)))
    return db


def db_prefs(db: SymDB, consts) -> List[Any]:
    prefs: List[Any] = []
    for t in reversed(list(db.tables)):
        prefs += [z3.Not(s.present) for s in reversed(db.tables[t]) if not z3.is_true(s.present)]
    for v in db.str_cells():
        prefs.append(z3.Or(v.null, z3.ULE(v.len, 1)))
    ints = [v for v in db.cells() if v.kind == "int"] + list(consts.values())
    for lo, hi in ((0, 2), (-2, 3)):
        prefs += [z3.Or(v.null, z3.And(v.val >= lo, v.val <= hi)) for v in ints]
    return prefs


class RelCheck:
    def __init__(self, item: dict):
        self.item = item
        self.res: List[dict] = []
        self.model = item["model"]
        self.base = item.get("base")
        self.root_table = ROOT_TABLE[self.model]
        self.timeout_ms = int(item.get("timeout_ms", 20000))
        self.active: List[str] = list(item.get("regions", []))
        self.term, self.sent = G.with_sentinels(item["term"])
        self.text = G.to_text(self.term)
        self.feats = relgen.features(self.term)
        self.db = make_db(item.get("slots"), self.model)
        self.consts: Dict[int, V.IntV] = {}
        self.ccons: List[Any] = []
        for s in self.sent:
            v, cons = V.ivar(f"lit{s}", nullable=False)
            self.consts[s] = v
            self.ccons += cons
        self.progs: Dict[str, dict] = {}
        self._ref = None

    def emit(self, ob: str, backend: str, status: str, **kw):
        d = {"name": self.item["name"], "family": self.item.get("family", ""), "filter": self.text, "ob": ob,
             "backend": backend, "status": status, "features": self.feats, "solver_s": 0.0, "model": self.model,
             "base": self.base}
        p = self.progs.get(backend)
        if p and "sql" in p:
            d["sql"], d["params"] = p["sql"], p["params"]
        d.update(kw)
        self.res.append(d)

    # -------------------------------------------------------------- both sides
    def reference(self, term=None) -> Tuple[Dict[int, Any], List[Any]]:
        """{root slot index -> z3 Bool 'present and kept'}, side conditions"""
        if self._ref is None or term is not None:
            keeps, side = {}, []
            for slot in self.db.tables[self.root_table]:
                rr = relref.RelRef(self.db, slot, self.consts)
                keeps[slot.index] = z3.And(slot.present, rr.keeps(term if term is not None else self.term))
                side += rr.side
            if term is not None:
                return keeps, side
            self._ref = (keeps, side)
        return self._ref

    def program(self, backend: str, text: str) -> dict:
        p: Dict[str, Any] = {"backend": backend, "text": text}
        st, payload = orm.build(backend, text, self.model, self.base)
        p["status"] = st
        if st != "ok":
            p["why"] = payload
            return p
        p["sql"], p["params"] = payload
        try:
            p["tree"] = orm.parse_program(backend, p["sql"], p["params"])
        except SP.SqlIllFormed as e:
            p.update(status="illformed", why=f"{e.kind}: {e}")
            return p
        except SP.SqlUnsupported as e:
            p.update(status="outside", why=f"SQL outside the parser's subset: {e}")
            return p
        missing = orm.missing_functions(backend, p["tree"])
        if missing:
            p.update(status="nofunc", why=f"function(s) {missing} do not exist in this SQLite", missing=missing)
            return p
        try:
            track = any(r in regions.DYNAMIC for r in self.active)
            m = SqliteModel(self.db, consts=self.consts, track_like=track)
            p["keeps"] = m.select_keeps(p["tree"])
            p["side"], p["likes"], p["coalesced"] = m.side, m.likes, m.coalesced
            for s in self.db.tables[self.root_table]:
                p["keeps"].setdefault(s.index, V.FALSE)
        except V.Unmodelled as e:
            p.update(status="outside", why=str(e))
        except Unusable as e:
            p.update(status="nofunc", why=str(e))
        return p

    def solver(self, side):
        s = z3.Solver()
        s.set("timeout", self.timeout_ms)
        s.add(self.db.cons + self.ccons + list(side))
        return s

    def concretise(self, m):
        content = self.db.decode(m)
        lit_vals = {s: V.decode(m, self.consts[s]) for s in self.sent}
        cterm = G.replace_ints(self.term, lit_vals)
        return content, cterm, G.to_text(cterm)

    # -------------------------------------------------------------- obligations
    def check_reference(self, backend: str, ob: str = "ref", ref=None, ref_concrete=None):
        """program == reference.  `ref` / `ref_concrete` override the reference (C15: base rows intersected)."""
        p = self.progs[backend]
        st = p["status"]
        hit = regions.static_hit(self.active, {"term": self.term, "features": self.feats, "backend": backend,
                                               "sql": p.get("sql", ""), "ob": ob})
        if st in ("refused", "parser_rejected") or (st == "crash" and not hit):
            self.emit("accept", backend, st, why=p["why"])
            return
        if hit:
            self.emit(ob, backend, "known", known_id=hit, detail=p.get("why") if st == "crash" else None)
            return
        if st in ("illformed", "nofunc"):
            kind, got = orm.replay(backend, G.to_text(G.replace_ints(self.term, {s: 1 for s in self.sent})), {}, self.model, self.base)
            p["unusable_filter"] = G.to_text(G.replace_ints(self.term, {s: 1 for s in self.sent}))
            w = {"filter": self.text, "term": self.term, "backend": backend, "model": self.model, "base": self.base,
                 "sql": p.get("sql"), "params": p.get("params"), "problem": p["why"], "orm_result": got, "rows": {}}
            if kind == "error":
                self.emit(ob, backend, "violation", witness=w, what=f"the emitted statement cannot be executed on SQLite ({got})")
            else:
                self.emit(ob, backend, "harness_error", why=f"{p['why']} - but the real engine executes it", witness=w)
            return
        if st == "outside":
            self.emit(ob, backend, "outside", why=p["why"])
            return
        try:
            rkeeps, rside = ref if ref is not None else self.reference()
        except V.Unmodelled as e:
            self.emit(ob, backend, "outside", why=f"reference: {e}")
            return
        rmap = regions.dynamic_map(self.active, {"likes": p["likes"], "coalesced": p["coalesced"]})
        res = regions.solve_with_regions(lambda: self.solver(p["side"] + rside),
                                         z3.Or([p["keeps"][i] != rkeeps[i] for i in rkeeps]), rmap)
        dt = res["solver_s"]
        if res["status"] == "unknown":
            self.emit(ob, backend, "inconclusive", solver_s=dt, why=res["why"])
            return
        if res["status"] == "vacuous":
            self.emit(ob, backend, "outside", solver_s=dt, why="vacuous: the assumptions exclude every database")
            return
        if res["status"] == "known":
            self.emit(ob, backend, "known", solver_s=dt, known_id=res["known_id"])
            return
        if res["status"] == "unsat":
            self.emit(ob, backend, "discharged", solver_s=dt)
            return
        s = res["solver"]
        m = orm._shrink(s, db_prefs(self.db, self.consts))
        content, cterm, ctext = self.concretise(m)
        w = {"filter": ctext, "term": cterm, "backend": backend, "model": self.model, "base": self.base, "rows": content,
             "abstract_filter": self.text if self.sent else None}
        st2, payload = orm.build(backend, ctext, self.model, self.base)
        if st2 != "ok":
            self.emit(ob, backend, "harness_error", solver_s=dt, why=f"concrete re-rendering failed: {st2} {payload}", witness=w)
            return
        w["sql"], w["params"] = payload
        try:
            want = (ref_concrete or (lambda t, c: relref.kept_ids(t, c, self.root_table)))(cterm, content)
        except R.Undefined as e:
            self.emit(ob, backend, "harness_error", solver_s=dt, why=f"witness in an assumed-away region: {e}", witness=w)
            return
        kind, got = orm.replay(backend, ctext, content, self.model, self.base)
        w["reference_keeps_ids"] = want
        w["orm_result"] = got
        if kind == "error":
            self.emit(ob, backend, "violation", solver_s=dt, witness=w,
                      what=f"executing the ORM query fails ({got}); the reference keeps {want}")
            return
        if len(set(got)) != len(got):
            w["note"] = "the ORM result contains duplicates (join fan-out); compared as a set"
        pred = sorted(self._ids(m, p["keeps"]))
        if sorted(set(got)) != want:
            if pred != sorted(set(got)):
                self.emit(ob, backend, "harness_error", solver_s=dt, witness=w,
                          why=f"real results differ from the reference but not as the model predicted (model {pred}, real {got})")
                return
            self.emit(ob, backend, "violation", solver_s=dt, witness=w,
                      what=f"the ORM query returns {sorted(set(got))}, OData semantics keeps {want}")
            return
        self.emit(ob, backend, "harness_error", solver_s=dt, witness=w,
                  why=f"solver model does not reproduce: ORM returns {got}, reference keeps {want} (model predicted {pred})")

    def _ids(self, m, keeps: Dict[int, Any]) -> List[int]:
        out = []
        for slot in self.db.tables[self.root_table]:
            if z3.is_true(m.eval(keeps[slot.index], True)):
                out.append(m.eval(slot.cells["id"].val, True).as_signed_long())
        return out

    def check_agree(self, b1: str, b2: str):
        p1, p2 = self.progs[b1], self.progs[b2]
        s1, s2 = p1["status"], p2["status"]
        usable = lambda st: st == "ok"
        no = ("refused", "crash", "parser_rejected")
        hit = regions.static_hit(self.active, {"term": self.term, "features": self.feats, "backend": b2, "sql": p2.get("sql", ""), "ob": "agree"}) \
            or regions.static_hit(self.active, {"term": self.term, "features": self.feats, "backend": b1, "sql": p1.get("sql", ""), "ob": "agree"})
        if hit:
            self.emit("agree", b1, "known", known_id=hit, variant=f"{b1}~{b2}")
            return
        if s1 in no and s2 in no:
            return
        if (s1 in no) != (s2 in no):
            # only one ORM translates the filter: the refusal / foreign exception is listed on its own (accept/...,
            # foreign_exceptions; C12's business) - there are no two result sets to compare
            self.emit("agree", b1, "outside", variant=f"{b1}~{b2}",
                      why=f"only one ORM translates the filter: {b1} -> {s1}, {b2} -> {s2}")
            return
        if not (usable(s1) and usable(s2)) or "keeps" not in p1 or "keeps" not in p2:
            self.emit("agree", b1, "outside", variant=f"{b1}~{b2}", why=p1.get("why") or p2.get("why"))
            return
        s = self.solver(p1["side"] + p2["side"])
        s.add(z3.Or([p1["keeps"][i] != p2["keeps"][i] for i in p1["keeps"]]))
        t0 = time.time()
        r = s.check()
        dt = round(time.time() - t0, 4)
        if r == z3.unsat:
            self.emit("agree", b1, "discharged", solver_s=dt, variant=f"{b1}~{b2}")
            return
        if r == z3.unknown:
            self.emit("agree", b1, "inconclusive", solver_s=dt, variant=f"{b1}~{b2}", why=f"z3: {s.reason_unknown()}")
            return
        m = orm._shrink(s, db_prefs(self.db, self.consts))
        content, cterm, ctext = self.concretise(m)
        k1, got1 = orm.replay(b1, ctext, content, self.model, self.base)
        k2, got2 = orm.replay(b2, ctext, content, self.model, self.base)
        w = {"filter": ctext, "term": cterm, "backend": b1, "other_backend": b2, "model": self.model, "rows": content,
             "sql": orm.build(b1, ctext, self.model, self.base)[1], "other_sql": orm.build(b2, ctext, self.model, self.base)[1],
             "orm_result": got1, "other_result": got2}
        same = (k1 == k2 == "rows" and sorted(set(got1)) == sorted(set(got2))) or (k1 == k2 == "error")
        if not same:
            self.emit("agree", b1, "violation", solver_s=dt, witness=w, variant=f"{b1}~{b2}",
                      what=f"{b1} returns {got1}, {b2} returns {got2} on the same database")
        else:
            self.emit("agree", b1, "harness_error", solver_s=dt, witness=w, variant=f"{b1}~{b2}",
                      why=f"solver model does not separate the two ORMs on the real engine (both {got1})")


def check_relational(item: dict) -> List[dict]:
    try:
        chk = RelCheck(item)
    except Exception as e:                                         # noqa: BLE001
        return [{"name": item["name"], "ob": "harness", "backend": "-", "status": "harness_error", "filter": "?",
                 "why": f"{type(e).__name__}: {e}\n{traceback.format_exc(limit=5)}", "features": [], "solver_s": 0.0}]
    import contextlib
    mut = contextlib.nullcontext()
    if item.get("mutant"):
        from . import selftest_orm
        mut = selftest_orm.patched(item["mutant"])
    try:
        with mut:
            backends = item["backends"]
            for b in backends:
                chk.progs[b] = chk.program(b, chk.text)
            for b in backends:
                chk.check_reference(b)
            if item.get("agree") and len(backends) >= 2:
                chk.check_agree(backends[0], backends[1])
    except Exception as e:                                         # noqa: BLE001
        chk.emit("harness", "-", "harness_error", why=f"{type(e).__name__}: {e}\n{traceback.format_exc(limit=6)}")
    for r in chk.res:
        r["term"] = chk.term
        if item.get("family") == "selftest":
            r["mutant"] = item.get("mutant")
    return chk.res


def replay_rel_witness(w: dict) -> Tuple[bool, str]:
    from .tv import _retuple
    term = _retuple(w["term"])
    backend, model, base = w.get("backend", "django"), w.get("model", "Parent"), w.get("base")
    rows = w.get("rows") or {}
    text = w.get("filter") or G.to_text(term)
    if w.get("other_backend"):
        b2 = w["other_backend"]
        s1, s2 = orm.build(backend, text, model, base)[0], orm.build(b2, text, model, base)[0]
        if (s1 == "ok") != (s2 == "ok"):
            return True, f"{backend} {text!r} is {s1}, {b2} is {s2}"
        r1, r2 = orm.replay(backend, text, rows, model, base), orm.replay(b2, text, rows, model, base)
        if r1[0] != r2[0] or (r1[0] == "rows" and sorted(set(r1[1])) != sorted(set(r2[1]))):
            return True, f"{text!r}: {backend} -> {r1[1]}, {b2} -> {r2[1]} on {rows}"
        return False, f"{backend} and {b2} now agree on {text!r}"
    st, payload = orm.build(backend, text, model, base)
    if w.get("expect_crash"):
        if st == "crash" and w["expect_crash"] in str(payload):
            return True, f"{backend} {text!r} raises {str(payload)[:140]}"
        return False, f"{backend} {text!r} is now {st} ({str(payload)[:80]})"
    if st != "ok":
        return False, f"{backend}: filter {text!r} is now {st}"
    try:
        want = relref.kept_ids(term, rows, ROOT_TABLE[model])
    except R.Undefined as e:
        return False, f"witness outside the reference's domain: {e}"
    kind, got = orm.replay(backend, text, rows, model, base)
    if kind == "error":
        return True, f"{backend} {text!r}: {got}"
    if sorted(set(got)) != want:
        return True, f"{backend} {text!r} -> {payload[0][payload[0].find('FROM'):]!r} {payload[1]}: ORM returns {got}, OData keeps {want} on {rows}"
    return False, f"{backend} {text!r} now agrees on the recorded database"


# ====================================================================== C15: shorthand applied to a host query
def _norm_params(tree):
    return SP.map_tree(tree, lambda n: ("param", n[2]) if n[0] == "param" else n)


def _conjuncts(t) -> List[Any]:
    if t is None:
        return []
    if t[0] == "and":
        return _conjuncts(t[1]) + _conjuncts(t[2])
    return [t]


def _table_counts(sel: dict) -> Dict[str, int]:
    out: Dict[str, int] = {}
    if sel["frm"] is not None:
        out[sel["frm"][1].lower()] = 1
    for j in sel["joins"]:
        out[j[2].lower()] = out.get(j[2].lower(), 0) + 1
    return out


def _toplevel_paths(t, root_table: str) -> set:
    """Relationship prefixes the filter navigates outside lambdas (each needs exactly one join)."""
    from ..models.schema import REL
    out = set()

    def walk(x):
        if x[0] == "path":
            segs = x[1]
            tb = root_table
            for i, s in enumerate(segs[:-1]):
                rel = REL.get((tb, s))
                if rel is None or rel[0] != "one":
                    break
                out.add((tuple(segs[:i + 1]), rel[1]))
                tb = rel[1]
        elif x[0] == "lambda":
            segs = x[2]
            tb = root_table
            for i, s in enumerate(segs[:-1]):
                rel = REL.get((tb, s))
                if rel is None or rel[0] != "one":
                    break
                out.add((tuple(segs[:i + 1]), rel[1]))
                tb = rel[1]
            return
        for c in relgen._children(x):
            walk(c)
    walk(t)
    return out


def base_program(backend: str, model: str, base: Optional[str]) -> Tuple[str, Any]:
    """The host query itself, compiled (no filter applied)."""
    try:
        q = orm.base_query(backend, model, base)
        if backend == "django":
            q = q.all()
            sql, params = q.query.sql_with_params()
            return "ok", (sql, list(params))
        from sqlalchemy.dialects import sqlite
        stmt = q.statement if backend == "sa_query" else q
        c = stmt.compile(dialect=sqlite.dialect())
        return "ok", (c.string, [c.params[k] for k in (c.positiontup or [])])
    except Exception as e:                                         # noqa: BLE001
        return "crash", f"{type(e).__name__}: {e}"


def canon_aliases(sel: dict) -> dict:
    """Rename the table aliases of a top-level SELECT canonically (root, then each join by table + ON condition), so
    that two programs that differ only in the names the ORM picked for its aliases compare equal."""
    names: Dict[str, str] = {}
    if sel["frm"] is not None:
        names[(sel["frm"][2] or sel["frm"][1]).lower()] = "$root"

    def ren(tree, own=None):
        def f(n):
            if n[0] == "col" and n[1] is not None:
                q = n[1].lower()
                if own is not None and q == own:
                    return ("col", "$self", n[2])
                return ("col", names.get(q, n[1]), n[2])
            return n
        return SP.map_tree(tree, f)
    joins = []
    for _, kind, tb, alias, on in sel["joins"]:
        own = (alias or tb).lower()
        key = SP.unparse(_norm_params(ren(on, own))) if on is not None else ""
        cname = f"{tb.lower()}<{kind}:{key}>"
        names[own] = cname
        joins.append(("join", kind, tb.lower(), cname, None))
    out = dict(sel)
    out["joins"] = sorted(joins)
    for k in ("cols", "where", "order"):
        out[k] = _norm_params(ren(sel[k])) if sel[k] is not None else None
    return out


def check_host(item: dict) -> List[dict]:
    """C15 obligations of one (backend, model, base, filter)."""
    from . import ormbases
    from ..models.schema import REL
    backend = item["backends"][0]
    try:
        chk = RelCheck(item)
    except Exception as e:                                         # noqa: BLE001
        return [{"name": item["name"], "ob": "harness", "backend": backend, "status": "harness_error", "filter": "?",
                 "why": f"{type(e).__name__}: {e}\n{traceback.format_exc(limit=5)}", "features": [], "solver_s": 0.0}]
    import contextlib
    mut = contextlib.nullcontext()
    if item.get("mutant"):
        from . import selftest_orm
        mut = selftest_orm.patched(item["mutant"])
    with mut:
        _check_host(chk, item, backend)
    for r in chk.res:
        r["term"] = chk.term
        if item.get("family") == "selftest":
            r["mutant"] = item.get("mutant")
    return chk.res


def _check_host(chk: "RelCheck", item: dict, backend: str) -> None:
    """conj (relative, z3): rows(apply(host, f)) == rows(host) AND rows(apply(plain, f));  order / conjuncts / once."""
    from . import ormbases
    from ..models.schema import REL
    try:
        model, base = chk.model, chk.base
        chk.progs[backend] = p = chk.program(backend, chk.text)
        st = p["status"]
        if st in ("refused", "crash", "parser_rejected"):
            chk.emit("accept", backend, st, why=p["why"])
            return
        if st != "ok" or "keeps" not in p:
            chk.emit("conj", backend, "outside", why=p.get("why"))
            return
        if chk.model == "Ticket" and base is None:
            # the relative conj obligation below cannot see a defect that the plain query shares; on the second schema
            # (no known findings there) the plain shorthand result is also compared with the reference
            chk.check_reference(backend, ob="ref")
        # the same filter on the plain query, and the host query on its own
        saved = chk.base
        chk.base = None
        plain = chk.program(backend, chk.text)
        chk.base = saved
        hs, payload = base_program(backend, model, base)
        host = None
        if hs == "ok":
            try:
                htree = orm.parse_program(backend, payload[0], payload[1])
                hm = SqliteModel(chk.db, consts=chk.consts)
                host = {"keeps": hm.select_keeps(htree), "side": hm.side, "tree": htree, "sql": payload[0], "params": payload[1]}
                for s_ in chk.db.tables[chk.root_table]:
                    host["keeps"].setdefault(s_.index, V.FALSE)
            except (SP.SqlIllFormed, SP.SqlUnsupported, V.Unmodelled) as e:
                chk.emit("conj", backend, "outside", why=f"host query not modelled: {e}")
        else:
            chk.emit("conj", backend, "outside", why=f"host query does not compile: {payload}")
        if host is not None:
            # cross-check of the independent statement of rows(host) (ormbases.base_term) against the host program
            bterm = ormbases.base_term(backend, model, base)
            if plain["status"] != "ok" or "keeps" not in plain:
                chk.emit("conj", backend, "outside", why=f"the filter on the plain query is {plain['status']}: {plain.get('why')}")
            else:
                s = chk.solver(p["side"] + plain["side"] + host["side"])
                s.add(z3.Or([p["keeps"][i] != z3.And(host["keeps"][i], plain["keeps"][i]) for i in p["keeps"]]))
                t0 = time.time()
                r = s.check()
                dt = round(time.time() - t0, 4)
                if r == z3.unsat:
                    chk.emit("conj", backend, "discharged", solver_s=dt)
                elif r == z3.unknown:
                    chk.emit("conj", backend, "inconclusive", solver_s=dt, why=f"z3: {s.reason_unknown()}")
                else:
                    m = orm._shrink(s, db_prefs(chk.db, chk.consts))
                    content, cterm, ctext = chk.concretise(m)
                    k1, got = orm.replay(backend, ctext, content, model, base)
                    k2, got_plain = orm.replay(backend, ctext, content, model, None)
                    k3, got_host = orm.replay(backend, None, content, model, base)
                    w = {"filter": ctext, "term": cterm, "backend": backend, "model": model, "base": base, "rows": content,
                         "sql": orm.build(backend, ctext, model, base)[1], "host_sql": [host["sql"], host["params"]],
                         "orm_result": got, "host_rows": got_host, "filter_on_plain_query": got_plain}
                    if "error" in (k1, k2, k3):
                        bad = k1 == "error" and k2 != "error" and k3 != "error"
                    else:
                        bad = sorted(set(got)) != sorted(set(got_host) & set(got_plain))
                    hit = regions.static_hit(chk.active, {"term": chk.term, "features": chk.feats, "backend": backend,
                                                          "sql": p.get("sql", ""), "ob": "conj"}) if bad else None
                    if bad and hit:
                        # a structurally wrong program class that is a listed finding (e.g. a to-one join lost inside a lambda
                        # body): the lost table reference correlates with whatever the HOST has joined, so host and plain
                        # query do not share the error and the relative obligation sees it
                        chk.emit("conj", backend, "known", known_id=hit, solver_s=dt, witness=w,
                                 detail=f"apply(host, f) returns {got}; the host returns {got_host} and f on the plain query {got_plain}")
                    elif bad:
                        chk.emit("conj", backend, "violation", solver_s=dt, witness=w,
                                 what=f"apply(host, f) returns {got}; the host returns {got_host} and f on the plain query {got_plain}")
                    else:
                        chk.emit("conj", backend, "harness_error", solver_s=dt, witness=w,
                                 why=f"solver model does not reproduce: apply(host, f) {got}, host {got_host}, plain {got_plain}")
            if bterm is not None or True:
                try:
                    keeps, side = chk.reference(term=bterm if bterm is not None else ("bool", True))
                    s = chk.solver(host["side"] + side)
                    s.add(z3.Or([host["keeps"][i] != keeps[i] for i in keeps]))
                    if s.check() == z3.sat:
                        chk.emit("hostspec", backend, "harness_error",
                                 why=f"ormbases.base_term({backend}, {model}, {base}) does not describe the compiled host query")
                except V.Unmodelled:
                    pass
            # ---- structural obligations against the compiled host query (aliases canonicalised)
            btree = canon_aliases(host["tree"][1])
            ntree = canon_aliases(p["tree"][1])
            w = {"filter": chk.text, "term": chk.term, "backend": backend, "model": model, "base": base,
                 "host_sql": host["sql"], "sql": p["sql"], "params": p["params"], "rows": {}}
            if btree["order"] == ntree["order"]:
                chk.emit("order", backend, "discharged", nontrivial=False, detail="ORDER BY list unchanged")
            else:
                chk.emit("order", backend, "violation", witness=w, what="the ORDER BY list of the host query changed")
            have = _conjuncts(ntree["where"])
            lost = [SP.unparse(c) for c in _conjuncts(btree["where"]) if c not in have]
            lost_cols = [SP.unparse(c[0]) for c in btree["cols"] if c not in ntree["cols"]]
            if lost or lost_cols:
                chk.emit("conjuncts", backend, "violation", witness=w,
                         what=f"pre-existing WHERE conjunct(s) {lost} / column(s) {lost_cols} of the host query are gone")
            else:
                chk.emit("conjuncts", backend, "discharged", nontrivial=False,
                         detail="host WHERE conjuncts and SELECT-list columns still present")
            paths = _toplevel_paths(chk.term, chk.root_table)
            bpaths = set()
            for bp in ormbases.base_paths(backend, model, base):
                rel = REL.get((chk.root_table, bp[0]))
                bpaths.add((bp, rel[1]))
            expected: Dict[str, int] = dict(_table_counts(host["tree"][1]))      # what the host query itself joins
            expected.setdefault(chk.root_table, 1)
            for pth, tb in paths:
                if (pth, tb) not in bpaths:                                    # plus one join per new navigated path
                    expected[tb] = expected.get(tb, 0) + 1
            counts = _table_counts(p["tree"][1])
            extra = {t: (n, expected.get(t, 0)) for t, n in counts.items() if n > expected.get(t, 0)}
            cross = [j[2] for j in p["tree"][1]["joins"] if j[1] == "cross"]
            missing = {t: (counts.get(t, 0), e) for t, e in expected.items() if counts.get(t, 0) < e} \
                if backend != "django" else {}
            if cross or missing:
                chk.emit("once", backend, "violation", witness=w,
                         what=f"a navigated relationship is not joined: comma-separated (cartesian) FROM items {cross}, "
                              f"tables joined less often than navigated { {t: f'{n} of {e}' for t, (n, e) in missing.items()} }")
            elif extra:
                chk.emit("once", backend, "violation", witness=w,
                         what=f"table(s) joined more often than the host query plus the filter need: "
                              f"{ {t: f'{n} times, expected <= {e}' for t, (n, e) in extra.items()} }")
            else:
                chk.emit("once", backend, "discharged", nontrivial=False, detail=f"FROM/JOIN tables {counts}")
    except Exception as e:                                         # noqa: BLE001
        chk.emit("harness", backend, "harness_error", why=f"{type(e).__name__}: {e}\n{traceback.format_exc(limit=6)}")
