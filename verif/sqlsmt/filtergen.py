"""Typed OData $filter generator: terms (the intended meaning), their type, and their text.

The generator knows OData only (OData 4.01 URL conventions, 5.1.1 and the precedence table 5.1.1.14); it shares
nothing with /repo.  A term is the *intended tree*; `to_text` prints it with the minimal parentheses that make an
OData parser rebuild exactly this tree (so every parenthesisation that changes the tree is a different term), or
with full parentheses.

Types: int str bool (scalar fragment, C01) + float dt date dur guid (C09 only).
Integer literals are generated as ('int', '?') and instantiated either with distinctive sentinels 7001, 7002, ...
(abstraction to symbolic constants) or with small concrete values.

Enumeration is exhaustive by size (= number of operator / function nodes) for small sizes over a leaf pool, and
seeded random sampling beyond (VERIF_SEED).
"""
from __future__ import annotations

import itertools
import random
from typing import Any, Dict, Iterator, List, Optional, Sequence, Tuple

ARITH = ("add", "sub", "mul", "div", "mod")
CMP = ("eq", "ne", "lt", "le", "gt", "ge")
STR_FUNCS_BOOL = ("contains", "startswith", "endswith")
SENTINEL_BASE = 7001

FIELDS_SCALAR = {"a": "int", "b": "int", "s": "str", "u": "str", "f": "bool"}
FIELDS_FULL = dict(FIELDS_SCALAR, r="float", d="dt", tags="coll")

# string literal pools over the metacharacter alphabet {a A b % _ ' \ space}, at most 2 characters
ALPHA8 = ["a", "A", "b", "%", "_", "'", "\\", " "]
STR_SINGLE = list(ALPHA8)
STR_PAIRS = [x + y for x in ALPHA8 for y in ALPHA8]
STR_POOL_FULL = [""] + STR_SINGLE + STR_PAIRS
STR_POOL_CORE = ["a", "%", "_", "'", "\\", "A", "", " ", "a%", "_a", "a'", "\\%", "ab", " a"]


# ====================================================================== typing
def type_of(t, fields: Dict[str, str] = FIELDS_FULL) -> str:
    k = t[0]
    if k == "field":
        return fields[t[1]]
    if k in ("int", "str", "bool", "float", "date", "dt", "dur", "guid"):
        return k
    if k == "null":
        return "null"
    if k == "list":
        return "coll"
    if k == "neg":
        return type_of(t[1], fields)
    if k == "arith":
        lt, rt = type_of(t[2], fields), type_of(t[3], fields)
        if "dur" in (lt, rt) and lt != rt:
            return lt if rt == "dur" else rt
        return "float" if "float" in (lt, rt) else lt
    if k in ("cmp", "in", "and", "or", "not"):
        return "bool"
    if k == "call":
        n = t[1]
        if n in STR_FUNCS_BOOL or n in ("hassubset", "hassubsequence"):
            return "bool"
        if n in ("indexof", "length", "year", "month", "day", "hour", "minute"):
            return "int"
        if n in ("substring", "tolower", "toupper", "trim", "concat"):
            return "str"
        if n in ("round", "floor", "ceiling"):
            return "float"
        if n == "date":
            return "date"
        if n == "now":
            return "dt"
    raise ValueError(f"untyped term {t!r}")


# ====================================================================== printing (OData 4.01, 5.1.1.14)
_PREC_BIN = {"or": 1, "and": 2, "eq": 3, "ne": 3, "lt": 4, "le": 4, "gt": 4, "ge": 4, "add": 5, "sub": 5,
             "mul": 6, "div": 6, "mod": 6}
_PREC_UNARY = 7
_PREC_IN = 8
_PREC_ATOM = 9


def _prec(t) -> int:
    k = t[0]
    if k in ("and", "or"):
        return _PREC_BIN[k]
    if k in ("cmp", "arith"):
        return _PREC_BIN[t[1]]
    if k in ("not", "neg"):
        return _PREC_UNARY
    if k == "in":
        return _PREC_IN
    return _PREC_ATOM


KEYWORDS = ("true", "false", "null", "and", "or", "not", "in", "eq", "ne", "lt", "le", "gt", "ge",
            "add", "sub", "mul", "div", "mod")


def _lit(t, kw=None) -> str:
    kw = kw or (lambda w: w)
    k = t[0]
    if k == "int":
        return t[2] if len(t) == 3 else str(t[1])          # ('int', value, spelling): e.g. 007
    if k == "str":
        return "'" + t[1].replace("'", "''") + "'"
    if k == "bool":
        return kw("true") if t[1] else kw("false")
    if k == "null":
        return kw("null")
    if k == "dur":
        return f"duration'{t[1]}'"
    return str(t[1])          # float, date, dt, guid: their OData spelling is the payload


def to_text(t, full: bool = False, kw=None) -> str:
    """OData text of a term.  full=False: minimal parentheses; full=True: every operator application wrapped.
    kw: optional re-spelling of the keywords in KEYWORDS (keyword -> text), e.g. str.upper."""
    k = t[0]
    if k == "field":
        return t[1]
    if k in ("int", "str", "bool", "null", "float", "date", "dt", "dur", "guid"):
        return _lit(t, kw)
    if k == "call":
        return t[1] + "(" + ",".join(to_text(a, full, kw) for a in t[2]) + ")"
    if k == "list":          # a literal collection ('a', 'b')
        return "(" + ", ".join(to_text(i, full, kw) for i in t[1]) + ")"
    if k == "path":          # to-one navigation a/b/c
        return "/".join(t[1])
    if k == "lambda":        # ('lambda', 'any'|'all', path, var|None, body|None)
        owner = "/".join(t[2])
        if t[3] is None:
            return f"{owner}/{t[1]}()"
        return f"{owner}/{t[1]}({t[3]}: {to_text(t[4], full, kw)})"
    w = kw or (lambda x: x)

    def sub(c, need: bool) -> str:
        s = to_text(c, full, kw)
        atom = _prec(c) == _PREC_ATOM
        if (need or (full and not atom)):
            return "(" + s + ")"
        return s

    if k in ("and", "or", "cmp", "arith"):
        op = k if k in ("and", "or") else t[1]
        l, r = (t[1], t[2]) if k in ("and", "or") else (t[2], t[3])
        p = _PREC_BIN[op]
        return sub(l, _prec(l) < p) + f" {w(op)} " + sub(r, _prec(r) <= p)       # all binary operators are left-assoc
    if k == "not":
        return w("not") + " " + sub(t[1], _prec(t[1]) < _PREC_UNARY)
    if k == "neg":
        c = t[1]
        # -7 would lex as one INTEGER token and --x is not worth the ambiguity: parenthesise literals and negations
        need = _prec(c) < _PREC_UNARY or c[0] in ("neg", "int", "float", "not")
        return "-" + sub(c, need)
    if k == "in":
        return sub(t[1], _prec(t[1]) < _PREC_ATOM) + f" {w('in')} (" + ", ".join(to_text(i, full, kw) for i in t[2]) + ")"
    raise ValueError(f"cannot print {t!r}")


# ====================================================================== integer literal instantiation
def map_term(t, f):
    """Bottom-up rewrite of a term."""
    k = t[0]
    if k in ("field", "int", "str", "bool", "null", "float", "date", "dt", "dur", "guid", "path"):
        return f(t)
    if k == "lambda":
        return f((k, t[1], t[2], t[3], map_term(t[4], f) if t[4] is not None else None))
    if k == "list":
        return f((k, [map_term(i, f) for i in t[1]]))
    if k in ("neg", "not"):
        return f((k, map_term(t[1], f)))
    if k in ("and", "or"):
        return f((k, map_term(t[1], f), map_term(t[2], f)))
    if k in ("cmp", "arith"):
        return f((k, t[1], map_term(t[2], f), map_term(t[3], f)))
    if k == "in":
        return f((k, map_term(t[1], f), [map_term(i, f) for i in t[2]]))
    if k == "call":
        return f((k, t[1], [map_term(a, f) for a in t[2]]))
    raise ValueError(k)


def subterms(t) -> Iterator[tuple]:
    yield t
    k = t[0]
    if k in ("neg", "not"):
        yield from subterms(t[1])
    elif k in ("and", "or"):
        yield from subterms(t[1])
        yield from subterms(t[2])
    elif k in ("cmp", "arith"):
        yield from subterms(t[2])
        yield from subterms(t[3])
    elif k == "in":
        yield from subterms(t[1])
        for i in t[2]:
            yield from subterms(i)
    elif k == "call":
        for a in t[2]:
            yield from subterms(a)
    elif k == "lambda" and t[4] is not None:
        yield from subterms(t[4])
    elif k == "list":
        for i in t[1]:
            yield from subterms(i)


def rename_fields(t, mapping: Dict[str, str]):
    """Rename ('field', x) leaves (the generator's a b s u f -> the columns of a concrete model)."""
    return map_term(t, lambda x: ("field", mapping.get(x[1], x[1])) if x[0] == "field" else x)


def decouple_ints(t) -> tuple:
    """Every integer literal replaced by a distinct sentinel: the same filter without value coincidences."""
    n = [0]

    def f(x):
        if x[0] == "int":
            n[0] += 1
            return ("int", SENTINEL_BASE + 500 + n[0])
        return x
    return map_term(t, f)


def int_slots(t) -> int:
    return sum(1 for x in subterms(t) if x[0] == "int" and x[1] == "?")


def with_sentinels(t) -> Tuple[tuple, List[int]]:
    """Replace every ('int','?') by a distinct sentinel literal; returns (term, sentinels in order)."""
    used: List[int] = []

    def f(x):
        if x[0] == "int" and x[1] == "?":
            used.append(SENTINEL_BASE + len(used))
            return ("int", used[-1])
        return x
    return map_term(t, f), used


def with_values(t, values: Sequence[int]) -> tuple:
    """Replace the ('int','?') slots, in order, by concrete values."""
    it = iter(values)

    def f(x):
        if x[0] == "int" and x[1] == "?":
            return ("int", next(it))
        return x
    return map_term(t, f)


def replace_ints(t, mapping: Dict[int, int]) -> tuple:
    """Replace sentinel literals by concrete values (replay of a model)."""
    return map_term(t, lambda x: ("int", mapping[x[1]]) if x[0] == "int" and x[1] in mapping else x)


def size(t) -> int:
    return sum(1 for x in subterms(t) if x[0] in ("neg", "not", "and", "or", "cmp", "arith", "in", "call", "lambda"))


def _compound(e) -> bool:
    """Expressions an SQL generator renders inside their own parentheses / behind NOT."""
    return e[0] in ("arith", "neg", "cmp", "not", "in") or (e[0] == "call" and e[1] in ("indexof", "concat") + STR_FUNCS_BOOL)


def _lookup_left(e):
    """Left operand of a comparison-like node (the tested expression for a null test), else None."""
    if e[0] == "cmp":
        if e[2][0] == "null":
            return e[3]
        return e[2]
    if e[0] == "in":
        return e[1]
    if e[0] == "call" and e[1] in STR_FUNCS_BOOL:
        return e[2][0]
    return None


def features(t) -> List[str]:
    """Syntactic features (used to label defect classes in reports and by the static known-finding regions)."""
    out = set()
    for x in subterms(t):
        k = x[0]
        if k == "cmp":
            r = x[3] if x[3][0] != "null" else None
            if x[2][0] == "null":          # `null eq e` is translated as `e eq null`
                r = None
            if r is not None:
                ll = _lookup_left(r)
                if ll is not None and _compound(ll):
                    out.add("nested-lookup-with-compound-left")
            tested = x[2] if x[3][0] == "null" else (x[3] if x[2][0] == "null" else None)
            if tested is not None and tested[0] == "not":
                out.add("nested-lookup-with-compound-left")
        if k == "neg":
            out.add("unary-minus")
        elif k == "arith":
            out.add("arith")
            out.add("op:" + x[1])
            for c, right in ((x[2], False), (x[3], True)):
                if c[0] == "arith":
                    pc, p = _PREC_BIN[c[1]], _PREC_BIN[x[1]]
                    if pc < p or (right and pc == p):
                        out.add("arith-needs-parens")
                if c[0] == "call" and c[1] == "indexof":
                    out.add("indexof-as-arith-operand")
            if x[3][0] == "int" and isinstance(x[3][1], int) and x[3][1] < 0:
                out.add("negative-literal-right")
        elif k == "cmp":
            if x[2][0] == "null":
                out.add("null-on-left")
            if x[2][0] == "null" or x[3][0] == "null":
                out.add("null-test")
            for c in (x[2], x[3]):
                if c[0] == "cmp" and (c[2][0] in ("arith", "neg") or c[3][0] in ("arith", "neg")):
                    out.add("cmp-operand-is-cmp-of-arith")
                for y in subterms(c):
                    if y[0] == "cmp" and "null" in (y[2][0], y[3][0]) and all(
                            not any(z[0] in ("field", "path") for z in subterms(o)) for o in (y[2], y[3])):
                        out.add("constant-null-test-as-operand")
                if c[0] == "call" and c[1] in STR_FUNCS_BOOL:
                    out.add("boolfunc-as-compare-operand")
                if c[0] == "in":
                    out.add("in-as-compare-operand")
                if c[0] == "not":
                    out.add("not-as-compare-operand")
                    if x[1] in ("lt", "le", "gt", "ge"):
                        out.add("not-as-ordering-compare-operand")
            if x[3][0] == "call" and x[3][1] in STR_FUNCS_BOOL:
                out.add("boolfunc-on-right-of-compare")
        elif k == "call":
            out.add("fn:" + x[1])
            if x[1] in STR_FUNCS_BOOL:
                p = x[2][1]
                if p[0] == "str":
                    if "%" in p[1] or "_" in p[1]:
                        out.add("like-literal-wildcard")
                    if "'" in p[1]:
                        out.add("like-literal-quote")
                    if any(ch.isupper() for ch in p[1]):
                        out.add("like-literal-uppercase")
                else:
                    out.add("like-nonliteral-pattern")
        elif k == "in":
            out.add("in")
        elif k == "bool":
            out.add("bool-literal")
        elif k == "lambda":
            out.add("lambda:" + x[1])
        elif k == "path":
            out.add("path")
        elif k == "not":
            out.add("not")
            if x[1][0] in ("cmp", "in", "call", "field"):
                out.add("not-of-nonbool-op")
    return sorted(out)


# ====================================================================== constructors
class Cfg:
    """What the generator may use.  `leaves[type]` is the leaf pool per type."""

    def __init__(self, leaves: Dict[str, List[tuple]], str_cmp_ops: Sequence[str] = CMP, int_cmp_ops: Sequence[str] = CMP,
                 arith_ops: Sequence[str] = ARITH, extended: bool = False, null_left: bool = True,
                 funcs: Optional[Sequence[str]] = None):
        self.leaves = leaves
        self.str_cmp_ops = tuple(str_cmp_ops)
        self.int_cmp_ops = tuple(int_cmp_ops)
        self.arith_ops = tuple(arith_ops)
        self.extended = extended
        self.null_left = null_left
        self.funcs = set(funcs) if funcs is not None else None
        self.cons = self._constructors()

    def _constructors(self) -> Dict[str, List[Tuple[str, Tuple[str, ...], Any]]]:
        """result type -> [(label, argument types, builder(args) -> term)]; argument type 'T!' means leaf only."""
        C: Dict[str, List] = {}

        def add(rt, label, argt, mk):
            if self.funcs is not None and label.startswith("call:") and label[5:] not in self.funcs:
                return
            C.setdefault(rt, []).append((label, tuple(argt), mk))

        for op in self.arith_ops:
            add("int", "arith:" + op, ("int", "int"), lambda a, op=op: ("arith", op, a[0], a[1]))
        add("int", "neg", ("int",), lambda a: ("neg", a[0]))
        add("int", "call:indexof", ("str", "str"), lambda a: ("call", "indexof", list(a)))
        add("int", "call:length", ("str",), lambda a: ("call", "length", list(a)))
        add("str", "call:concat", ("str", "str"), lambda a: ("call", "concat", list(a)))
        add("str", "call:substring", ("str", "int"), lambda a: ("call", "substring", list(a)))
        add("str", "call:substring3", ("str", "int", "int"), lambda a: ("call", "substring", list(a)))
        for fn in ("tolower", "toupper", "trim"):
            add("str", "call:" + fn, ("str",), lambda a, fn=fn: ("call", fn, list(a)))
        for op in self.int_cmp_ops:
            add("bool", f"cmp:{op}:int", ("int", "int"), lambda a, op=op: ("cmp", op, a[0], a[1]))
        for op in self.str_cmp_ops:
            add("bool", f"cmp:{op}:str", ("str", "str"), lambda a, op=op: ("cmp", op, a[0], a[1]))
        for op in ("eq", "ne"):
            add("bool", f"cmp:{op}:bool", ("bool", "bool"), lambda a, op=op: ("cmp", op, a[0], a[1]))
            for ty in ("int", "str", "bool"):
                add("bool", f"nulltest:{op}:{ty}", (ty,), lambda a, op=op: ("cmp", op, a[0], ("null",)))
        if self.null_left:
            for ty in ("int", "str"):
                add("bool", f"nullleft:eq:{ty}", (ty,), lambda a: ("cmp", "eq", ("null",), a[0]))
                add("bool", f"nullleft:ne:{ty}", (ty,), lambda a: ("cmp", "ne", ("null",), a[0]))
        add("bool", "in:int", ("int", "int!", "int!"), lambda a: ("in", a[0], [a[1], a[2]]))
        add("bool", "in:str", ("str", "str!", "str!"), lambda a: ("in", a[0], [a[1], a[2]]))
        add("bool", "and", ("bool", "bool"), lambda a: ("and", a[0], a[1]))
        add("bool", "or", ("bool", "bool"), lambda a: ("or", a[0], a[1]))
        add("bool", "not", ("bool",), lambda a: ("not", a[0]))
        for fn in STR_FUNCS_BOOL:
            add("bool", "call:" + fn, ("str", "str"), lambda a, fn=fn: ("call", fn, list(a)))
        if self.extended:
            for fn in ("year", "month", "day", "hour", "minute"):
                add("int", "call:" + fn, ("dt",), lambda a, fn=fn: ("call", fn, list(a)))
            add("date", "call:date", ("dt",), lambda a: ("call", "date", list(a)))
            for fn in ("round", "floor", "ceiling"):
                add("float", "call:" + fn, ("float",), lambda a, fn=fn: ("call", fn, list(a)))
            for op in ("add", "sub", "mul"):
                add("float", "arith:" + op + ":float", ("float", "float"), lambda a, op=op: ("arith", op, a[0], a[1]))
            add("dt", "arith:add:dur", ("dt", "dur!"), lambda a: ("arith", "add", a[0], a[1]))
            add("dt", "arith:sub:dur", ("dt", "dur!"), lambda a: ("arith", "sub", a[0], a[1]))
            for op in ("eq", "lt", "ge"):
                add("bool", f"cmp:{op}:float", ("float", "float"), lambda a, op=op: ("cmp", op, a[0], a[1]))
                add("bool", f"cmp:{op}:dt", ("dt", "dt"), lambda a, op=op: ("cmp", op, a[0], a[1]))
                add("bool", f"cmp:{op}:date", ("date", "date"), lambda a, op=op: ("cmp", op, a[0], a[1]))
            add("bool", "nulltest:eq:dt", ("dt",), lambda a: ("cmp", "eq", a[0], ("null",)))
        return C

    # -------------------------------------------------------------- exhaustive enumeration by exact size
    def terms(self, ty: str, n: int, _memo: Optional[dict] = None) -> List[tuple]:
        memo = self.__dict__.setdefault("_memo", {})
        key = (ty, n)
        if key in memo:
            return memo[key]
        if n == 0:
            out = list(self.leaves.get(ty, []))
        else:
            out = []
            for label, argt, mk in self.cons.get(ty, []):
                grow = [i for i, a in enumerate(argt) if not a.endswith("!")]
                for split in _splits(n - 1, len(grow)):
                    sizes = [0] * len(argt)
                    for gi, sz in zip(grow, split):
                        sizes[gi] = sz
                    pools = [self.terms(a.rstrip("!"), sz) for a, sz in zip(argt, sizes)]
                    if any(not p for p in pools):
                        continue
                    for args in itertools.product(*pools):
                        if _degenerate(label, args):
                            continue
                        out.append(mk(args))
        memo[key] = out
        return out

    def count(self, ty: str, n: int) -> int:
        return len(self.terms(ty, n))

    # -------------------------------------------------------------- random generation of a given size
    def random_term(self, rng: random.Random, ty: str, n: int, leaves: Optional[Dict[str, List[tuple]]] = None) -> tuple:
        leaves = leaves or self.leaves
        if n == 0:
            return rng.choice(leaves[ty])
        for _ in range(50):
            label, argt, mk = rng.choice(self.cons[ty])
            grow = [i for i, a in enumerate(argt) if not a.endswith("!")]
            if not grow and n - 1 > 0:
                continue
            sizes = [0] * len(argt)
            rest = n - 1
            if grow:
                for _k in range(rest):
                    sizes[rng.choice(grow)] += 1
            try:
                args = tuple(self.random_term(rng, a.rstrip("!"), sz, leaves) for a, sz in zip(argt, sizes))
            except (KeyError, IndexError, RecursionError):
                continue
            if _degenerate(label, args):
                continue
            return mk(args)
        raise KeyError(f"cannot build a {ty} term of size {n}")


def _splits(total: int, parts: int) -> Iterator[Tuple[int, ...]]:
    if parts == 0:
        if total == 0:
            yield ()
        return
    if parts == 1:
        yield (total,)
        return
    for first in range(total + 1):
        for rest in _splits(total - first, parts - 1):
            yield (first,) + rest


def _is_lit(t) -> bool:
    return t[0] in ("int", "str", "bool", "null", "float", "date", "dt", "dur", "guid")


def _degenerate(label: str, args: Sequence[tuple]) -> bool:
    """Skip applications whose operands are all literals (no row dependence) - except unary ones on a literal."""
    if len(args) >= 2 and all(_is_lit(a) for a in args):
        return True
    return False


# ====================================================================== leaf pools
INT_Q = ("int", "?")


def scalar_leaves(str_lits: Sequence[str], fields: bool = True) -> Dict[str, List[tuple]]:
    return {
        "int": [("field", "a"), ("field", "b"), INT_Q],
        "str": [("field", "s"), ("field", "u")] + [("str", x) for x in str_lits],
        "bool": [("field", "f"), ("bool", True), ("bool", False)],
    }


def extended_leaves(str_lits: Sequence[str]) -> Dict[str, List[tuple]]:
    d = scalar_leaves(str_lits)
    d.update({
        "float": [("field", "r"), ("float", "1.5"), ("float", "-0.25")],
        "dt": [("field", "d"), ("dt", "2020-02-29T10:30:00Z"), ("call", "now", [])],
        "date": [("date", "2020-02-29")],
        "dur": [("dur", "P1D"), ("dur", "P1DT2H"), ("dur", "-PT30M"), ("dur", "P1Y2M")],
    })
    return d


def sample(xs: Sequence[Any], k: int, rng: random.Random) -> List[Any]:
    xs = list(xs)
    if len(xs) <= k:
        return xs
    return rng.sample(xs, k)


# ====================================================================== the C01 / C09 program sets
def real_family(with_round: bool = True) -> List[Tuple[str, tuple]]:
    """Exact non-integer arithmetic: float literals that are halves / quarters, `div` / `mul` / `add` with them, round
    (half away from zero), floor, ceiling, compared with integers - negative midpoints are inside the row domain."""
    a, b, k = ("field", "a"), ("field", "b"), INT_Q
    Fl = lambda s: ("float", s)
    xs = [("arith", "div", a, Fl("2.0")), ("arith", "mul", a, Fl("0.5")), ("arith", "add", a, Fl("0.5")), ("arith", "div", a, Fl("4.0")),
          ("arith", "div", ("arith", "add", a, b), Fl("2.0")), ("arith", "sub", ("arith", "div", a, Fl("2.0")), Fl("0.5")),
          ("arith", "mul", a, Fl("1.5")), ("arith", "div", a, Fl("2e0")), ("arith", "div", Fl("1.5e1"), a)]
    out: List[Tuple[str, tuple]] = []
    for x in xs:
        out.append(("real", ("cmp", "gt", x, k)))
        out.append(("real", ("cmp", "eq", x, b)))
        out.append(("real", ("cmp", "le", k, x)))
    out.append(("real", ("cmp", "eq", ("arith", "mul", a, Fl("0.5")), ("arith", "div", b, Fl("2.0")))))
    out.append(("real", ("cmp", "gt", ("arith", "div", a, Fl("2e0")), ("int", 2))))
    out.append(("real", ("cmp", "lt", ("arith", "div", a, Fl("1E1")), Fl("0.5"))))
    fns = ("round", "floor", "ceiling") if with_round else ("floor", "ceiling")
    for fn in fns:
        for x in xs[:7]:
            c = ("call", fn, [x])
            out.append(("rounding", ("cmp", "eq", c, k)))
            out.append(("rounding", ("cmp", "lt", c, b)))
        c = ("call", fn, [xs[0]])
        out.append(("rounding", ("cmp", "eq", ("arith", "mul", c, Fl("2.0")), a)))
        out.append(("rounding", ("not", ("cmp", "ge", c, k))))
        out.append(("rounding", ("or", ("cmp", "eq", c, ("int", -1)), ("cmp", "eq", c, ("int", 0)))))
        out.append(("rounding", ("cmp", "eq", ("call", fn, [Fl("-0.5")]), ("arith", "sub", a, b))))
        out.append(("rounding", ("cmp", "eq", ("call", fn, [Fl("-2.5")]), a)))
        out.append(("rounding", ("cmp", "eq", ("call", fn, [a]), a)))
    return out


def literal_kind_family() -> List[Tuple[str, tuple]]:
    """Numeric literal spellings: a Float literal must arrive as a real literal with the same value, an Integer as an
    integer (C09: kind and value of the literal leaves; C01: `a div 2e0` is a REAL division)."""
    a, r = ("field", "a"), ("field", "r")
    out: List[Tuple[str, tuple]] = []
    for sp in ("2e0", "1.5e1", "1E3", "1.0", "0.5", "1e-2", "-2.5e+1", "2.50", "1.5E1", "-0.0"):
        lit = ("float", sp)
        out.append(("litkind", ("cmp", "gt", r, lit)))
        out.append(("litkind", ("cmp", "lt", ("arith", "mul", r, lit), r)))
        out.append(("litkind", ("cmp", "gt", ("arith", "div", a, lit), INT_Q)))
        out.append(("litkind", ("cmp", "eq", lit, ("arith", "add", r, lit))))
    for v, sp in ((7, "007"), (0, "-0"), (12, "+12"), (0, "000")):
        out.append(("litkind", ("cmp", "eq", a, ("int", v, sp))))
        out.append(("litkind", ("cmp", "lt", ("arith", "add", a, ("int", v, sp)), INT_Q)))
    return out


def adaptive_family(extra: str) -> List[Tuple[str, tuple]]:
    """Needles containing a character the translator itself introduced (adaptive alphabet), next to wildcards."""
    s, u = ("field", "s"), ("field", "u")
    out: List[Tuple[str, tuple]] = []
    for c in extra:
        needles = [c, c + "%", "%" + c, c + "_", "_" + c, c + c, "a" + c, c + "a", c + "'", "%" + c + "%", "a" + c + "b%", "b%" + c]
        for nd in needles:
            for fn in STR_FUNCS_BOOL:
                out.append(("adaptive-alphabet", ("call", fn, [s, ("str", nd)])))
        out.append(("adaptive-alphabet", ("cmp", "eq", s, ("str", c))))
        out.append(("adaptive-alphabet", ("call", "contains", [s, u])))
        out.append(("adaptive-alphabet", ("cmp", "eq", ("call", "indexof", [s, ("str", c + "%")]), ("int", "?"))))
    return out


def special_families(extended: bool = False) -> List[Tuple[str, tuple]]:
    """Hand-picked families that must always be present (name, term); integer slots are ('int','?')."""
    a, b, s, u, f, k = ("field", "a"), ("field", "b"), ("field", "s"), ("field", "u"), ("field", "f"), INT_Q
    out: List[Tuple[str, tuple]] = []
    # every pair of arithmetic operators in both groupings
    for o1 in ARITH:
        for o2 in ARITH:
            out.append(("paren", ("cmp", "eq", ("arith", o2, ("arith", o1, a, b), k), k)))
            out.append(("paren", ("cmp", "eq", ("arith", o1, a, ("arith", o2, b, k)), k)))
    # unary minus in every operand position
    for x in (a, k, ("arith", "add", a, b), ("call", "length", [s]), ("neg", a)):
        out.append(("uminus", ("cmp", "eq", ("neg", x), b)))
        out.append(("uminus", ("cmp", "lt", b, ("neg", x))))
    out.append(("uminus", ("cmp", "eq", ("arith", "mul", ("neg", a), b), k)))
    out.append(("uminus", ("cmp", "eq", ("arith", "sub", a, ("neg", b)), k)))
    out.append(("uminus", ("in", ("neg", a), [k, b])))
    # every string literal of the full pool as a pattern / comparison operand
    for lit in STR_POOL_FULL:
        L = ("str", lit)
        for fn in STR_FUNCS_BOOL:
            out.append(("strlit", ("call", fn, [s, L])))
        out.append(("strlit", ("cmp", "eq", s, L)))
    for lit in STR_POOL_CORE:
        L = ("str", lit)
        out.append(("strlit", ("cmp", "eq", ("call", "indexof", [s, L]), k)))
        out.append(("strlit", ("cmp", "eq", ("call", "concat", [s, L]), u)))
        out.append(("strlit", ("in", s, [L, u])))
        out.append(("strlit", ("not", ("call", "contains", [s, L]))))
    # non-literal patterns
    for fn in STR_FUNCS_BOOL:
        out.append(("fieldpat", ("call", fn, [s, u])))
        out.append(("fieldpat", ("call", fn, [s, ("call", "tolower", [u])])))
        out.append(("fieldpat", ("call", fn, [s, ("call", "concat", [u, ("str", "a")])])))
        out.append(("fieldpat", ("call", fn, [("call", "toupper", [s]), ("str", "a")])))
        out.append(("fieldpat", ("call", fn, [("call", "concat", [s, u]), ("str", "b")])))
    # boolean functions compared to true / false, on both sides, and bare
    for fn in STR_FUNCS_BOOL:
        c = ("call", fn, [s, ("str", "a")])
        for bl in (True, False):
            out.append(("boolfunc", ("cmp", "eq", c, ("bool", bl))))
            out.append(("boolfunc", ("cmp", "ne", c, ("bool", bl))))
            out.append(("boolfunc", ("cmp", "eq", ("bool", bl), c)))
        out.append(("boolfunc", ("cmp", "eq", c, f)))
        out.append(("boolfunc", ("cmp", "eq", f, c)))
        out.append(("boolfunc", ("and", c, f)))
        out.append(("boolfunc", ("not", c)))
    # null tests
    for x in (a, s, f, ("arith", "add", a, b), ("call", "tolower", [s]), ("call", "length", [s])):
        out.append(("null", ("cmp", "eq", x, ("null",))))
        out.append(("null", ("cmp", "ne", x, ("null",))))
        out.append(("null", ("cmp", "eq", ("null",), x)))
        out.append(("null", ("cmp", "ne", ("null",), x)))
        out.append(("null", ("not", ("cmp", "eq", x, ("null",)))))
        out.append(("null", ("not", ("cmp", "ne", ("null",), x))))
    # ORDERING comparisons with the null literal (claim: lt / gt with null are never true; le / ge are left out because
    # OData 4.01 words `null le null` differently from the three-valued reading)
    for x in (a, ("arith", "add", a, b), ("call", "length", [s]), ("call", "indexof", [s, u]), s, ("call", "tolower", [s])):
        for op in ("lt", "gt"):
            out.append(("nullorder", ("cmp", op, x, ("null",))))
            out.append(("nullorder", ("cmp", op, ("null",), x)))
            out.append(("nullorder", ("not", ("cmp", op, x, ("null",)))))
            out.append(("nullorder", ("or", ("cmp", op, x, ("null",)), ("cmp", "eq", b, k))))
            out.append(("nullorder", ("and", ("not", ("cmp", op, ("null",), x)), ("cmp", "ne", b, k))))
    out.append(("null", ("or", ("cmp", "eq", a, ("null",)), ("and", ("cmp", "ne", b, ("null",)), ("cmp", "eq", a, k)))))
    out.append(("null", ("and", ("or", ("cmp", "eq", a, ("null",)), ("cmp", "ne", b, ("null",))), ("cmp", "eq", a, k))))
    # `not` directly over every comparator: field/literal, literal/field, field/field (boundary rows decide)
    for op in CMP:
        out.append(("notcmp", ("not", ("cmp", op, a, k))))
        out.append(("notcmp", ("not", ("cmp", op, k, a))))
        out.append(("notcmp", ("not", ("cmp", op, a, b))))
        out.append(("notcmp", ("not", ("cmp", op, s, ("str", "a")))))
        out.append(("notcmp", ("not", ("cmp", op, s, u))))
        out.append(("notcmp", ("and", ("not", ("cmp", op, a, k)), ("cmp", "ne", b, k))))
    out.append(("notcmp", ("not", ("in", a, [k, b]))))
    out.append(("notcmp", ("not", ("cmp", "eq", f, ("bool", True)))))
    out.append(("notcmp", ("not", ("not", ("cmp", "lt", a, k)))))
    # double negation and negation of a negative literal (`--` starts an SQL comment)
    for x in (("neg", ("neg", a)), ("neg", ("int", -3)), ("neg", ("neg", ("int", 3))), ("neg", ("arith", "sub", ("neg", a), b))):
        out.append(("uminus", ("cmp", "eq", x, b)))
        out.append(("uminus", ("cmp", "eq", a, x)))
        out.append(("uminus", ("cmp", "eq", ("arith", "sub", b, x), a)))
    # CONCRETE small literals next to boolean literals / equal-valued literals (1 == True, 0 == False in Python):
    # the sentinel abstraction of integer literals would hide a translator that confuses equal-valued literals
    I = lambda v: ("int", v)
    T, Fa = ("bool", True), ("bool", False)
    for bl, one in ((T, 1), (Fa, 0)):
        out.append(("coincide", ("and", ("cmp", "eq", f, bl), ("cmp", "eq", ("arith", "add", a, I(one)), I(2)))))
        out.append(("coincide", ("and", ("cmp", "eq", ("arith", "add", a, I(one)), I(2)), ("cmp", "eq", f, bl))))
        out.append(("coincide", ("or", ("cmp", "ne", f, bl), ("cmp", "gt", ("arith", "mul", a, I(one)), b))))
        out.append(("coincide", ("and", ("cmp", "eq", f, bl), ("cmp", "eq", a, I(one)))))
        out.append(("coincide", ("and", ("cmp", "eq", ("call", "contains", [s, ("str", "a")]), bl), ("cmp", "eq", ("arith", "sub", a, I(one)), b))))
        out.append(("coincide", ("cmp", "eq", ("cmp", "eq", a, I(one)), bl)))
        out.append(("coincide", ("and", ("in", a, [I(one), I(2)]), ("cmp", "ne", f, bl))))
        out.append(("coincide", ("and", ("cmp", "eq", ("call", "indexof", [s, ("str", "a")]), I(one)), ("cmp", "eq", f, bl))))
        out.append(("coincide", ("and", ("cmp", "eq", ("call", "substring", [s, I(one)]), u), ("cmp", "eq", f, bl))))
        out.append(("coincide", ("and", ("cmp", "eq", ("arith", "div", a, I(2)), I(one)), ("cmp", "eq", f, bl))))
        out.append(("coincide", ("and", ("cmp", "eq", ("arith", "mod", a, I(2)), I(one)), ("cmp", "eq", f, bl))))
        out.append(("coincide", ("or", ("cmp", "eq", f, bl), ("not", ("cmp", "le", a, I(one))))))
    # arithmetic between two integer LITERALS, all sign combinations, inexact quotients (truncation vs floor)
    for x, y in ((7, 2), (-7, 2), (7, -2), (-7, -2), (8, 3), (-8, 3), (5, -3), (-1, 2)):
        for op in ("div", "mod"):
            out.append(("litlit", ("cmp", "eq", a, ("arith", op, I(x), I(y)))))
            out.append(("litlit", ("cmp", "le", ("arith", op, I(x), I(y)), a)))
        out.append(("litlit", ("cmp", "eq", ("arith", "div", a, I(y)), ("arith", "div", I(x), I(y)))))
        out.append(("litlit", ("cmp", "eq", ("arith", "mod", a, I(y)), ("arith", "mod", I(x), I(y)))))
        out.append(("litlit", ("cmp", "eq", ("arith", "add", a, ("arith", "div", I(x), I(y))), b)))
    for x, y in ((7, 2), (-7, 2), (2, -7), (-2, -7)):
        for op in ("sub", "add", "mul"):
            out.append(("litlit", ("cmp", "eq", a, ("arith", op, I(x), I(y)))))
        out.append(("litlit", ("cmp", "eq", ("arith", "sub", a, ("arith", "sub", I(x), I(y))), b)))
    for v in (0, 1, 2, -1):
        out.append(("coincide", ("and", ("cmp", "eq", a, I(v)), ("cmp", "eq", ("arith", "add", b, I(v)), I(v)))))
        out.append(("coincide", ("or", ("cmp", "lt", a, I(v)), ("cmp", "eq", ("call", "length", [s]), I(v)))))
        out.append(("coincide", ("cmp", "eq", ("arith", "sub", a, I(v)), ("arith", "mul", b, I(v)))))
        out.append(("coincide", ("and", ("in", a, [I(v), I(v + 1)]), ("cmp", "ne", b, I(v + 1)))))
    out.append(("coincide", ("and", ("cmp", "eq", s, ("str", "a")), ("call", "contains", [u, ("str", "a")]))))
    out.append(("coincide", ("or", ("cmp", "eq", s, ("str", "")), ("cmp", "eq", ("call", "concat", [u, ("str", "")]), s))))
    # index shifts
    for x in (k, a, ("arith", "add", a, k), ("arith", "mul", a, k), ("call", "indexof", [s, u])):
        out.append(("index", ("cmp", "eq", ("call", "substring", [s, x]), u)))
        out.append(("index", ("cmp", "eq", ("call", "substring", [s, x, k]), u)))
        out.append(("index", ("cmp", "eq", ("call", "substring", [s, k, x]), u)))
    for op in ARITH:
        out.append(("index", ("cmp", "eq", ("arith", op, ("call", "indexof", [s, u]), k), a)))
        out.append(("index", ("cmp", "eq", ("arith", op, k, ("call", "indexof", [s, u])), a)))
        out.append(("index", ("cmp", "eq", ("arith", op, ("call", "length", [s]), k), a)))
    # comparisons of comparisons
    for o1 in ("eq", "ne", "lt"):
        out.append(("cmpcmp", ("cmp", o1, ("cmp", "eq", a, b), ("cmp", "lt", a, k)) if o1 != "lt" else
                    ("cmp", "eq", ("cmp", "lt", a, b), f)))
        out.append(("cmpcmp", ("cmp", "eq", ("cmp", o1, a, k), ("bool", True))))
        out.append(("cmpcmp", ("cmp", "eq", ("bool", False), ("cmp", o1, a, k))))
        out.append(("cmpcmp", ("cmp", "eq", ("in", a, [k, b]), f)))
        out.append(("cmpcmp", ("cmp", "eq", ("not", f), ("cmp", o1, a, k))))
    out.append(("cmpcmp", ("cmp", "eq", ("cmp", "eq", ("cmp", "eq", a, b), f), ("bool", True))))
    if extended:
        r, d = ("field", "r"), ("field", "d")
        for fn in ("round", "floor", "ceiling"):
            out.append(("math", ("cmp", "eq", ("call", fn, [r]), ("float", "1.5"))))
            out.append(("math", ("cmp", "lt", ("call", fn, [("arith", "add", r, ("float", "1.5"))]), r)))
            out.append(("math", ("cmp", "lt", ("arith", "mul", ("call", fn, [r]), ("float", "1.5")), r)))
        for fn in ("year", "month", "day", "hour", "minute"):
            out.append(("datetime", ("cmp", "eq", ("call", fn, [d]), k)))
            out.append(("datetime", ("cmp", "eq", ("call", fn, [("dt", "2020-02-29T10:30:00Z")]), k)))
            out.append(("datetime", ("cmp", "eq", ("arith", "mul", ("call", fn, [d]), k), a)))
            out.append(("datetime", ("cmp", "eq", ("call", fn, [("call", "now", [])]), k)))
        out.append(("datetime", ("cmp", "eq", ("call", "date", [d]), ("date", "2020-02-29"))))
        out.append(("datetime", ("cmp", "lt", d, ("call", "now", []))))
        out.append(("datetime", ("cmp", "ge", d, ("dt", "2020-02-29T10:30:00Z"))))
        for du in ("P1D", "P1DT2H", "-PT30M", "P1Y2M", "PT1.5S", "P", "PT0S", "-P1DT2H"):
            out.append(("duration", ("cmp", "lt", ("arith", "add", d, ("dur", du)), ("call", "now", []))))
            out.append(("duration", ("cmp", "lt", ("arith", "sub", d, ("dur", du)), ("call", "now", []))))
        out.append(("guid", ("cmp", "eq", s, ("guid", "11111111-2222-3333-4444-555555555555"))))
    return out


# ====================================================================== deep operator skeletons / same-field chains
def tree_shapes(k: int) -> List[Any]:
    """All binary tree shapes with k internal nodes ('L' = leaf, (l, r) = node)."""
    if k == 0:
        return ["L"]
    out = []
    for i in range(k):
        for l in tree_shapes(i):
            for r in tree_shapes(k - 1 - i):
                out.append((l, r))
    return out


def _fill(shape, ops: Sequence[str], leaves: Sequence[tuple], mk, not_at: Optional[int], wrap_not) -> tuple:
    """Instantiate a shape: ops / leaves are consumed left to right; node or leaf number `not_at` (pre-order) is
    wrapped by wrap_not."""
    it_ops, it_leaves = iter(ops), iter(leaves)
    counter = [0]

    def go(sh):
        me = counter[0]
        counter[0] += 1
        if sh == "L":
            t = next(it_leaves)
        else:
            op = next(it_ops)
            l = go(sh[0])
            r = go(sh[1])
            t = mk(op, l, r)
        return wrap_not(t) if me == not_at else t
    return go(shape)


def bool_atoms(paren_strings: bool = True) -> List[tuple]:
    """Independent boolean atoms (each mentions another column / literal); strings contain parentheses and quotes, which
    must not influence grouping."""
    a, b, s, u, f, k = ("field", "a"), ("field", "b"), ("field", "s"), ("field", "u"), ("field", "f"), INT_Q
    lp, rp = ("(", ")") if paren_strings else ("a", "%")
    return [("cmp", "eq", a, k), ("cmp", "eq", s, ("str", lp)), ("cmp", "eq", f, ("bool", True)), ("cmp", "eq", u, ("str", rp)),
            ("cmp", "lt", b, k)]


def deep_bool(ks: Sequence[int], atoms: Sequence[tuple], rng: random.Random, sample_per_k: Dict[int, int]) -> List[Tuple[str, tuple]]:
    """Every association shape of k boolean operators x every and/or assignment x an optional `not` at one position
    (node or leaf), leaves = independent atoms; plus the same skeleton compared with false.  Sampled per k if asked."""
    out: List[Tuple[str, tuple]] = []
    for k in ks:
        terms = []
        for sh in tree_shapes(k):
            for ops in itertools.product(("and", "or"), repeat=k):
                for not_at in [None] + list(range(2 * k + 1)):
                    t = _fill(sh, ops, atoms[:k + 1], lambda op, l, r: (op, l, r), not_at, lambda x: ("not", x))
                    terms.append(t)
        n = sample_per_k.get(k)
        if n is not None and len(terms) > n:
            terms = rng.sample(terms, n)
        for t in terms:
            out.append((f"deep-bool{k}", t))
        for t in terms[::7]:
            out.append((f"deep-bool{k}", ("cmp", "eq", t, ("bool", False))))
            out.append((f"deep-bool{k}", ("cmp", "ne", ("bool", True), t)))
    return out


def deep_arith(ks: Sequence[int], rng: random.Random, sample_per_k: Dict[int, int], ops=("add", "sub", "mul", "div")) -> List[Tuple[str, tuple]]:
    a, b, k1 = ("field", "a"), ("field", "b"), INT_Q
    leaves_pool = [a, b, ("int", 1), k1, ("int", 3), a, b]
    out: List[Tuple[str, tuple]] = []
    for k in ks:
        terms = []
        for sh in tree_shapes(k):
            for opsel in itertools.product(ops, repeat=k):
                for not_at in (None, 1):
                    start = (len(terms)) % 3
                    lv = (leaves_pool[start:] + leaves_pool)[:k + 1]
                    t = _fill(sh, opsel, lv, lambda op, l, r: ("arith", op, l, r), not_at,
                              lambda x: x if x[0] in ("int",) else ("neg", x))
                    terms.append(("cmp", "eq", t, k1) if len(terms) % 2 else ("cmp", "lt", b, t))
        n = sample_per_k.get(k)
        if n is not None and len(terms) > n:
            terms = rng.sample(terms, n)
        out += [(f"deep-arith{k}", t) for t in terms]
    return out


def same_field_chains() -> List[Tuple[str, tuple]]:
    """or-/and-chains of 3 and 4 comparisons (eq / ne / in) on the SAME field with int / string / null literals, literal
    on either side, with duplicates, and `not` over the chain."""
    out: List[Tuple[str, tuple]] = []
    a, s = ("field", "a"), ("field", "s")
    I = lambda v: ("int", v)
    S = lambda v: ("str", v)
    N = ("null",)

    def chain(op, parts):
        t = parts[0]
        for p in parts[1:]:
            t = (op, t, p)
        return t

    def right_chain(op, parts):
        t = parts[-1]
        for p in reversed(parts[:-1]):
            t = (op, p, t)
        return t
    for fld, lits in ((a, [I(1), N, I(5), I(1)]), (a, [I(1), I(2), I(5), N]), (s, [S("a"), N, S("%"), S("a")]), (s, [S("a"), S("b"), S(""), N])):
        for n in (3, 4):
            ls = lits[:n]
            eqs = [("cmp", "eq", fld, l) for l in ls]
            nes = [("cmp", "ne", fld, l) for l in ls]
            left = [("cmp", "eq", l, fld) for l in ls]
            mixed = [("cmp", "eq" if i % 2 == 0 else "ne", fld, l) for i, l in enumerate(ls)]
            for conn in ("or", "and"):
                for parts in (eqs, nes, left, mixed):
                    out.append(("same-field-chain", chain(conn, parts)))
                out.append(("same-field-chain", right_chain(conn, eqs)))
                out.append(("same-field-chain", ("not", chain(conn, eqs))))
                out.append(("same-field-chain", ("and", chain(conn, eqs), ("cmp", "ne", ("field", "b"), INT_Q))))
            nonnull = [l for l in ls if l != N]
            if len(nonnull) >= 2:
                out.append(("same-field-chain", ("or", ("or", ("in", fld, nonnull[:2]), ("cmp", "eq", fld, N)), ("cmp", "eq", fld, nonnull[-1]))))
                out.append(("same-field-chain", ("and", ("not", ("in", fld, nonnull[:2])), ("cmp", "ne", fld, N))))
    return out


def compact_family() -> List[Tuple[str, tuple, str]]:
    """Filters whose text contains no blank at all (bare function calls) with needles made of characters that mean
    something in URL encoding: (family, term, extra alphabet)."""
    out = []
    s = ("field", "s")
    for nd in ("+", "a+", "+a", "a+b", "%25", "%41", "%2B", "%20", "&", "a=", "#", "%2"):
        extra = "".join(sorted({c for c in nd if c not in " %'AB\\_ab"}))
        for fn in STR_FUNCS_BOOL:
            out.append(("compact-spelling", ("call", fn, [s, ("str", nd)]), extra))
    return out


# ====================================================================== functions rendered as infix expressions
FUNCTION_SAMPLES: Dict[str, Tuple[str, List[tuple]]] = {
    # OData built-in -> (result type, sample arguments); written from the OData function list, not from /repo
    "contains": ("bool", [("field", "s"), ("str", "a")]), "startswith": ("bool", [("field", "s"), ("str", "a")]),
    "endswith": ("bool", [("field", "s"), ("field", "u")]), "indexof": ("int", [("field", "s"), ("field", "u")]),
    "length": ("int", [("field", "s")]), "concat": ("str", [("field", "s"), ("field", "u")]),
    "substring": ("str", [("field", "s"), ("field", "a")]), "tolower": ("str", [("field", "s")]),
    "toupper": ("str", [("field", "s")]), "trim": ("str", [("field", "s")]),
    "year": ("int", [("field", "d")]), "month": ("int", [("field", "d")]), "day": ("int", [("field", "d")]),
    "hour": ("int", [("field", "d")]), "minute": ("int", [("field", "d")]), "second": ("int", [("field", "d")]),
    "date": ("date", [("field", "d")]), "now": ("dt", []),
    "round": ("float", [("field", "r")]), "floor": ("float", [("field", "r")]), "ceiling": ("float", [("field", "r")]),
    "hassubset": ("bool", [("field", "tags"), ("list", [("str", "a"), ("str", "b")])]),
    "hassubsequence": ("bool", [("field", "tags"), ("list", [("str", "a"), ("str", "b")])]),
}


def operand_positions(call: tuple, rtype: str) -> List[Tuple[str, tuple]]:
    """A function call as LEFT and RIGHT operand of every binary operator level its type admits, and under not / minus."""
    a, f, k = ("field", "a"), ("field", "f"), INT_Q
    T = ("bool", True)
    out: List[tuple] = []
    if rtype == "bool":
        other = ("cmp", "lt", a, k)
        out += [("cmp", "eq", T, call), ("cmp", "eq", call, T), ("cmp", "ne", call, f), ("cmp", "eq", f, call), ("not", call),
                ("and", call, other), ("or", other, call), ("cmp", "eq", call, other), ("cmp", "eq", other, call),
                ("not", ("cmp", "eq", call, T)), ("cmp", "ne", ("bool", False), ("not", call))]
    elif rtype in ("int", "float"):
        lit = k if rtype == "int" else ("float", "1.5")
        ops = ARITH if rtype == "int" else ("add", "sub", "mul")
        for op in ops:
            out += [("cmp", "eq", ("arith", op, call, lit), lit), ("cmp", "eq", ("arith", op, lit, call), lit)]
        out += [("cmp", "lt", call, lit), ("cmp", "gt", lit, call), ("cmp", "eq", ("neg", call), lit)]
        if rtype == "int":
            out.append(("in", call, [k, a]))
    elif rtype == "str":
        u = ("field", "u")
        out += [("cmp", "eq", call, u), ("cmp", "eq", u, call), ("cmp", "lt", call, ("str", "a")), ("call", "contains", [call, ("str", "a")]),
                ("call", "contains", [u, call]), ("cmp", "eq", ("call", "concat", [call, u]), u), ("cmp", "eq", ("call", "concat", [u, call]), u),
                ("cmp", "eq", ("call", "length", [call]), k), ("in", call, [("str", "a"), u])]
    return [("infix-operand", t) for t in out]
