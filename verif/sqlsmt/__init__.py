"""Engine C - sqlsmt: translation validation of emitted SQL over a bounded symbolic database.

Modules
  values.py        nullable Int / Bool / bounded String values as z3 bit-vector terms + primitive string circuits
  sqlparse_ind.py  independent recursive-descent parser for the SQL subset the backends emit
  sqlite_model.py  SMT semantics of SQLite for that subset (validated against the real sqlite3 on every run)
  odata_ref.py     independent OData reference semantics (symbolic and concrete) on the generator's own terms
  symdb.py         symbolic rows / bounded symbolic database, decoding and loading into a real sqlite3
  filtergen.py     typed OData filter generator (terms + texts)
  tv.py            interpreted-mode driver: live pipeline -> parse -> z3 over all rows -> replay on real sqlite3
  validate.py      model validation: sqlite_model vs sqlite3 (scalar + EXISTS/JOIN), odata_ref symbolic vs concrete,
                   parser on the repo's pinned SQL strings
  selftest.py      in-memory mutants of the visitors that every run must report (vacuity guard)
  ufmode.py        UF mode: dialect functions uninterpreted, template table, validity of SQLterm == ODataTerm
  regions.py       known-finding region predicates implemented in the checks
"""
