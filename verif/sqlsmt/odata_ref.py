"""Independent reference semantics of OData 4.01 $filter for the typed scalar fragment.

It is written against the *generator's own terms* (filtergen.py), never against odata_query's AST, so the repo's
lexer and parser are inside the checked pipeline.  Two evaluators with the same meaning:

  OdataRef.ev(term)             symbolic, over values.IntV / BoolV / StrV (used in the solver query)
  eval_concrete(term, row)      plain Python on a concrete row (used to replay a counterexample and to validate the
                                symbolic one); raises Undefined inside an assumed-away region

Semantics (DESIGN.md section 6): three-valued logic, a row is kept only when the filter is true; `x eq null` /
`x ne null` / `null eq x` test for null; every other operator and every function propagates null; `add sub mul` on
integers; `div` integer division truncating toward zero; `mod` remainder with the sign of the dividend; `in` is the
disjunction of `eq`; contains / startswith / endswith are case-sensitive; indexof is 0-based, -1 when absent;
substring(s, i[, n]) is 0-based; string comparison is ordinal.

Assumed-away (collected in `side`, never asserted as behaviour): divisor 0; substring index outside [0, length] or
negative count; integer overflow of the 16-bit model.

Terms
  ('field', name)  ('int', n)  ('str', s)  ('bool', b)  ('null',)
  ('arith', op, l, r)  op in add sub mul div mod        ('neg', x)
  ('cmp', op, l, r)    op in eq ne lt le gt ge          ('in', x, [items])
  ('and', l, r) ('or', l, r) ('not', x)
  ('call', name, [args])  name in contains startswith endswith indexof length substring tolower toupper trim concat
"""
from __future__ import annotations

from fractions import Fraction
from typing import Any, Dict, List, Optional

import z3

from . import values as V
from .values import BoolV, IntV, NullV, StrV, Unmodelled

BIG = 100


class Undefined(Exception):
    """Concrete evaluation entered a region the reference semantics leaves open (assumed away in the solver)."""


class OdataRef:
    def __init__(self, fields: Dict[str, Any], consts: Optional[Dict[int, IntV]] = None, real_div: bool = False):
        """real_div=True is NOT OData: it is the *adjusted* reading used to recognise one known finding (SQLAlchemy
        renders `div` as REAL division): `div` yields an exact fraction, arithmetic and comparisons on fractions are
        exact, everything that needs an integer (mod, substring arguments) truncates toward zero as SQLite does."""
        self.fields = fields
        self.consts = consts or {}
        self.side: List[Any] = []
        self.real_div = real_div
        from .sqlite_model import SqliteModel
        self._frac = SqliteModel(None)             # exact fraction arithmetic (shared, validated primitive)
        self._frac.side = self.side                # share the no-overflow side conditions

    def keeps(self, term):
        return V.keep(V.to_bool(self.ev(term)))

    def _guard(self, null, cond):
        self.side.append(z3.Or(null, cond))

    def ev(self, t) -> Any:
        k = t[0]
        if k == "field":
            if t[1] not in self.fields:
                raise Unmodelled(f"field {t[1]} has no modelled type")
            return self.fields[t[1]]
        if k == "int":
            if t[1] in self.consts:
                return self.consts[t[1]]
            return V.iconst(t[1])
        if k == "str":
            return V.sconst(t[1])
        if k == "float":
            return _float_literal(t[1])
        if k == "bool":
            return V.bconst(t[1])
        if k == "null":
            return NullV()
        if k == "neg":
            x = self.ev(t[1])
            if x.kind == "real":
                self._guard(x.null, z3.BVSNegNoOverflow(x.num))
                return V.RealV(x.null, -x.num, x.den)
            x = V.to_int(x)
            self._guard(x.null, z3.BVSNegNoOverflow(x.val))
            return IntV(x.null, -x.val)
        if k == "arith":
            l, r = self.ev(t[2]), self.ev(t[3])
            if "real" in (l.kind, r.kind) and t[1] == "mod" and not self.real_div:
                raise Unmodelled("mod on a non-integer operand")
            if t[1] != "mod" and ("real" in (l.kind, r.kind) or (self.real_div and t[1] == "div")):
                l, r = V.to_real(l), V.to_real(r)
                if t[1] == "div":
                    self._guard(z3.Or(l.null, r.null), r.num != 0)
                return self._frac._real_bin({"add": "+", "sub": "-", "mul": "*", "div": "/"}[t[1]], l, r)
            return self._arith(t[1], V.to_int(l), V.to_int(r))
        if k == "cmp":
            return self._cmp(t[1], t[2], t[3])
        if k == "in":
            x = self.ev(t[1])
            res = BoolV(V.FALSE, V.FALSE)
            for it in t[2]:
                res = V.or3(res, self._eq(x, self.ev(it)))
            return res
        if k == "and":
            return V.and3(V.to_bool(self.ev(t[1])), V.to_bool(self.ev(t[2])))
        if k == "or":
            return V.or3(V.to_bool(self.ev(t[1])), V.to_bool(self.ev(t[2])))
        if k == "not":
            return V.not3(V.to_bool(self.ev(t[1])))
        if k == "call":
            return self._call(t[1], [self.ev(a) for a in t[2]])
        raise Unmodelled(f"OData construct {k}")

    # ------------------------------------------------------------------
    def _arith(self, op: str, l: IntV, r: IntV) -> IntV:
        null = z3.Or(l.null, r.null)
        a, b = l.val, r.val
        if op == "add":
            self._guard(null, z3.And(z3.BVAddNoOverflow(a, b, True), z3.BVAddNoUnderflow(a, b)))
            return IntV(null, a + b)
        if op == "sub":
            self._guard(null, z3.And(z3.BVSubNoOverflow(a, b), z3.BVSubNoUnderflow(a, b, True)))
            return IntV(null, a - b)
        if op == "mul":
            self._guard(null, z3.And(z3.BVMulNoOverflow(a, b, True), z3.BVMulNoUnderflow(a, b)))
            return IntV(null, a * b)
        if op == "div":
            self._guard(null, z3.And(b != 0, z3.BVSDivNoOverflow(a, b)))
            return IntV(null, a / b)           # bvsdiv: truncation toward zero
        if op == "mod":
            self._guard(null, b != 0)
            return IntV(null, z3.SRem(a, b))   # sign of the dividend
        raise Unmodelled(op)

    def _eq(self, l, r) -> BoolV:
        l, r = V.unify(l, r)
        if "real" in (l.kind, r.kind) and "str" not in (l.kind, r.kind):
            return self._frac._real_cmp("=", V.to_real(l), V.to_real(r))
        null = z3.Or(l.null, r.null)
        if l.kind == "str" and r.kind == "str":
            return BoolV(null, V.s_eq(l, r))
        if l.kind == "str" or r.kind == "str":
            raise Unmodelled("ill-typed comparison")
        if l.kind == "bool" and r.kind == "bool":
            return BoolV(null, l.val == r.val)
        l, r = V.to_int(l), V.to_int(r)
        return BoolV(null, l.val == r.val)

    def _cmp(self, op: str, lt_, rt_) -> BoolV:
        # literal null tests
        if op in ("eq", "ne") and (rt_[0] == "null" or lt_[0] == "null"):
            other = lt_ if rt_[0] == "null" else rt_
            if other[0] == "null":
                return V.bconst(op == "eq")
            x = self.ev(other)
            return BoolV(V.FALSE, x.null if op == "eq" else z3.Not(x.null))
        l, r = V.unify(self.ev(lt_), self.ev(rt_))
        if op == "eq":
            return self._eq(l, r)
        if op == "ne":
            return V.not3(self._eq(l, r))
        if "real" in (l.kind, r.kind) and "str" not in (l.kind, r.kind):
            return self._frac._real_cmp({"lt": "<", "le": "<=", "gt": ">", "ge": ">="}[op], V.to_real(l), V.to_real(r))
        null = z3.Or(l.null, r.null)
        if l.kind == "str" and r.kind == "str":
            lt = V.s_lt(l, r)
            eq = V.s_eq(l, r)
            val = {"lt": lt, "le": z3.Or(lt, eq), "gt": z3.And(z3.Not(lt), z3.Not(eq)), "ge": z3.Not(lt)}[op]
            return BoolV(null, val)
        if l.kind == "str" or r.kind == "str":
            raise Unmodelled("ill-typed comparison")
        l, r = V.to_int(l), V.to_int(r)
        a, b = l.val, r.val
        return BoolV(null, {"lt": a < b, "le": a <= b, "gt": a > b, "ge": a >= b}[op])

    @staticmethod
    def _s(x) -> StrV:
        x = V.as_kind(x, "str")
        if x.kind != "str":
            raise Unmodelled("ill-typed string argument")
        return x

    def _call(self, name: str, a: List[Any]):
        if name == "contains":
            x, y = self._s(a[0]), self._s(a[1])
            return BoolV(z3.Or(x.null, y.null), z3.Or([V.s_match_at(x, y, p) for p in range(x.cap + 1)]))
        if name == "startswith":
            x, y = self._s(a[0]), self._s(a[1])
            return BoolV(z3.Or(x.null, y.null), V.s_match_at(x, y, 0))
        if name == "endswith":
            x, y = self._s(a[0]), self._s(a[1])
            alts = [z3.And(V.s_match_at(x, y, p), V.lv(p) + y.len == x.len) for p in range(x.cap + 1)]
            return BoolV(z3.Or(x.null, y.null), z3.Or(alts))
        if name == "indexof":
            x, y = self._s(a[0]), self._s(a[1])
            found, pos = V.s_find(x, y)
            return IntV(z3.Or(x.null, y.null), z3.If(found, pos, V.bv(-1)))
        if name == "length":
            x = self._s(a[0])
            return IntV(x.null, V.len_w(x))
        if name == "substring":
            x = self._s(a[0])
            if a[1].kind == "real":
                # adjusted reading only: the statement computes (index + 1) in REAL arithmetic and SUBSTR truncates it
                one = V.RealV(V.FALSE, V.bv(1), V.bv(1))
                shifted = V.to_int(self._frac._real_bin("+", a[1], one))
                i = IntV(shifted.null, shifted.val - 1)
            else:
                i = V.to_int(a[1])
            null = z3.Or(x.null, i.null)
            self._guard(null, z3.And(i.val >= 0, i.val <= V.len_w(x)))
            if len(a) == 3:
                n = V.to_int(a[2])
                null = z3.Or(null, n.null)
                self._guard(null, n.val >= 0)
                cnt = n.val
            else:
                cnt = V.bv(BIG)
            out = V.s_slice(x, i.val, cnt)
            return StrV(null, out.len, out.c)
        if name in ("round", "floor", "ceiling"):
            # OData 4.01: round = nearest integral value, midpoints away from zero; floor / ceiling as usual
            x = V.to_real(a[0])
            return V.real_round(x, {"round": "round", "floor": "floor", "ceiling": "ceil"}[name], self._guard)
        if name == "tolower":
            return V.s_lower(self._s(a[0]))
        if name == "toupper":
            return V.s_upper(self._s(a[0]))
        if name == "trim":
            return V.s_rtrim(V.s_ltrim(self._s(a[0])))
        if name == "concat":
            return V.s_concat(self._s(a[0]), self._s(a[1]))
        raise Unmodelled(f"OData function {name}")


def _float_literal(text: str):
    from decimal import Decimal, InvalidOperation
    from fractions import Fraction
    try:
        fr = Fraction(Decimal(text))
    except (InvalidOperation, ValueError):
        raise Unmodelled(f"float literal {text}")
    if abs(fr.numerator) > 1000 or fr.denominator > 1000:
        raise Unmodelled(f"float literal {text} outside the modelled range")
    return V.RealV(V.FALSE, V.bv(fr.numerator), V.bv(fr.denominator))


MODELLED_FUNCTIONS = ("contains", "startswith", "endswith", "indexof", "length", "substring", "tolower", "toupper",
                      "trim", "concat")


# ====================================================================== concrete evaluator (plain Python)
def _trunc_div(a: int, b: int) -> int:
    q = abs(a) // abs(b)
    return q if (a >= 0) == (b >= 0) else -q


def eval_concrete(t, row: Dict[str, Any], hook=None) -> Any:
    """Value of the term on a concrete row: int / str / bool, or None for null.
    hook(t) -> (handled, value) lets the relational reference take over fields, paths and lambdas."""
    if hook is not None:
        handled, value = hook(t)
        if handled:
            return value
    k = t[0]
    if k == "field":
        return row[t[1]]
    if k in ("int", "str", "bool"):
        return t[1]
    if k == "float":
        from decimal import Decimal
        return Fraction(Decimal(t[1]))
    if k == "null":
        return None
    if k == "neg":
        x = eval_concrete(t[1], row, hook)
        return None if x is None else (-x if isinstance(x, Fraction) else -int(x))
    if k == "arith":
        a, b = eval_concrete(t[2], row, hook), eval_concrete(t[3], row, hook)
        if a is None or b is None:
            return None
        op = t[1]
        if isinstance(a, Fraction) or isinstance(b, Fraction):       # a float-typed operand: real arithmetic
            a, b = Fraction(a), Fraction(b)
            if op == "mod":
                raise Undefined("mod on a non-integer operand")
            if op == "div":
                if b == 0:
                    raise Undefined("division by zero")
                return a / b
            return {"add": a + b, "sub": a - b, "mul": a * b}[op]
        a, b = int(a), int(b)
        if op == "add":
            return a + b
        if op == "sub":
            return a - b
        if op == "mul":
            return a * b
        if b == 0:
            raise Undefined("division by zero")
        if op == "div":
            return _trunc_div(a, b)
        return a - b * _trunc_div(a, b)
    if k == "cmp":
        op = t[1]
        if op in ("eq", "ne") and (t[2][0] == "null" or t[3][0] == "null"):
            other = t[2] if t[3][0] == "null" else t[3]
            isnull = eval_concrete(other, row, hook) is None
            return isnull if op == "eq" else not isnull
        a, b = eval_concrete(t[2], row, hook), eval_concrete(t[3], row, hook)
        if a is None or b is None:
            return None
        if isinstance(a, str) != isinstance(b, str):
            raise Undefined("ill-typed comparison")
        if not isinstance(a, str) and not isinstance(a, Fraction) and not isinstance(b, Fraction):
            a, b = int(a), int(b)
        return {"eq": a == b, "ne": a != b, "lt": a < b, "le": a <= b, "gt": a > b, "ge": a >= b}[op]
    if k == "in":
        x = eval_concrete(t[1], row, hook)
        res: Optional[bool] = False
        for it in t[2]:
            y = eval_concrete(it, row, hook)
            e = None if (x is None or y is None) else (x == y)
            res = _or3(res, e)
        return res
    if k == "and":
        return _and3(_b(eval_concrete(t[1], row, hook)), _b(eval_concrete(t[2], row, hook)))
    if k == "or":
        return _or3(_b(eval_concrete(t[1], row, hook)), _b(eval_concrete(t[2], row, hook)))
    if k == "not":
        x = _b(eval_concrete(t[1], row, hook))
        return None if x is None else (not x)
    if k == "call":
        a = [eval_concrete(x, row, hook) for x in t[2]]
        if any(x is None for x in a):
            return None
        n = t[1]
        if n == "contains":
            return a[1] in a[0]
        if n == "startswith":
            return a[0].startswith(a[1])
        if n == "endswith":
            return a[0].endswith(a[1])
        if n == "indexof":
            return a[0].find(a[1])
        if n == "length":
            return len(a[0])
        if n == "substring":
            i = int(a[1])
            if i < 0 or i > len(a[0]):
                raise Undefined("substring index out of range")
            if len(a) == 3:
                if int(a[2]) < 0:
                    raise Undefined("negative substring length")
                return a[0][i:i + int(a[2])]
            return a[0][i:]
        if n in ("round", "floor", "ceiling"):
            import math
            x = Fraction(a[0])
            if n == "floor":
                return Fraction(math.floor(x))
            if n == "ceiling":
                return Fraction(math.ceil(x))
            t_ = math.floor(abs(x) + Fraction(1, 2))              # midpoints away from zero
            return Fraction(t_ if x >= 0 else -t_)
        if n == "tolower":
            return a[0].lower()
        if n == "toupper":
            return a[0].upper()
        if n == "trim":
            return a[0].strip(" ")
        if n == "concat":
            return a[0] + a[1]
        raise Undefined(f"function {n}")
    raise Undefined(f"construct {k}")


def _b(x):
    return None if x is None else bool(x)


def _and3(a, b):
    if a is False or b is False:
        return False
    if a is None or b is None:
        return None
    return True


def _or3(a, b):
    if a is True or b is True:
        return True
    if a is None or b is None:
        return None
    return False


def keeps_concrete(t, row: Dict[str, Any]) -> bool:
    """The row is kept: the (boolean) filter evaluates to true - not false, not null."""
    v = eval_concrete(t, row)
    if isinstance(v, str):
        raise Undefined("filter is not boolean")
    return _b(v) is True
