"""Self-test mutants of the *encoding input* (DESIGN.md section 6, vacuity): can each obligation family fail?

The mutants are in-memory subclasses of the live visitor classes (nothing in /repo is touched, nothing is written to
disk).  For each mutant a handful of filters that the unmutated visitor translates correctly is pushed through exactly
the same machinery as the real check; the mutant must be reported (replayed counterexample).  A mutant that is NOT
detected is a harness error: the check would be blind to that kind of defect.
"""
from __future__ import annotations

from typing import Any, Callable, Dict, List, Tuple

_a, _b, _s, _u, _f, _k = ("field", "a"), ("field", "b"), ("field", "s"), ("field", "u"), ("field", "f"), ("int", "?")


def _mutants() -> Dict[str, Callable[[type], type]]:
    from odata_query import ast

    def indexof_no_shift(base):
        class M(base):
            def sqlfunc_indexof(self, *args):
                out = super().sqlfunc_indexof(*args)
                return out[:-4] if out.endswith(" - 1") else out
        return M

    def substring_no_shift(base):
        class M(base):
            def sqlfunc_substring(self, *args):
                return super().sqlfunc_substring(*args).replace(" + 1", "", 1)
        return M

    def null_test_inverted(base):
        class M(base):
            def visit_Compare(self, node):
                out = super().visit_Compare(node)
                if isinstance(node.right, ast.Null) and isinstance(node.comparator, ast.Eq):
                    return out.replace(" IS NULL", " IS NOT NULL")
                return out
        return M

    def lt_operands_swapped(base):
        class M(base):
            def visit_Compare(self, node):
                if isinstance(node.comparator, ast.Lt):
                    node = ast.Compare(node.comparator, node.right, node.left)
                return super().visit_Compare(node)
        return M

    def and_or_swapped(base):
        class M(base):
            def visit_And(self, node):
                return "OR"

            def visit_Or(self, node):
                return "AND"
        return M

    def true_as_false(base):
        class M(base):
            def visit_Boolean(self, node):
                return super().visit_Boolean(ast.Boolean("false" if node.val.lower() == "true" else "true"))
        return M

    def contains_as_startswith(base):
        class M(base):
            def sqlfunc_contains(self, *args):
                return super().sqlfunc_startswith(*args)
        return M

    def alias_dropped_in_length(base):
        class M(base):
            def sqlfunc_length(self, arg):
                keep, self.table_alias = self.table_alias, None
                try:
                    return super().sqlfunc_length(arg)
                finally:
                    self.table_alias = keep
        return M

    def operand_dropped(base):
        class M(base):
            def visit_BoolOp(self, node):
                return self.visit(node.left)
        return M

    return {"indexof-without-shift": indexof_no_shift, "substring-without-shift": substring_no_shift,
            "eq-null-inverted": null_test_inverted, "lt-operands-swapped": lt_operands_swapped,
            "and-or-swapped": and_or_swapped, "true-rendered-as-false": true_as_false,
            "contains-rendered-as-startswith": contains_as_startswith,
            "alias-dropped-inside-length": alias_dropped_in_length, "boolop-right-operand-dropped": operand_dropped}


def mutant_class(name: str, base: type) -> type:
    return _mutants()[name](base)


# filters on which the unmutated visitors are right (no parentheses needed, no LIKE metacharacters)
FILTERS: List[Tuple[str, Any]] = [
    ("indexof-without-shift", ("cmp", "eq", ("call", "indexof", [_s, _u]), _k)),
    ("substring-without-shift", ("cmp", "eq", ("call", "substring", [_s, _k]), _u)),
    ("eq-null-inverted", ("cmp", "eq", _a, ("null",))),
    ("lt-operands-swapped", ("cmp", "lt", _a, _b)),
    ("and-or-swapped", ("and", ("cmp", "eq", _a, _k), ("cmp", "eq", _b, _k))),
    ("true-rendered-as-false", ("cmp", "eq", _f, ("bool", True))),
    ("contains-rendered-as-startswith", ("call", "contains", [_s, ("str", " ")])),
    ("alias-dropped-inside-length", ("cmp", "eq", ("call", "length", [_s]), _k)),
    ("boolop-right-operand-dropped", ("or", ("cmp", "eq", _a, _k), ("cmp", "eq", _b, _k))),
]
C01_MUTANTS = [m for m, _ in FILTERS if m != "alias-dropped-inside-length"]
C09_MUTANTS = [m for m, _ in FILTERS]
